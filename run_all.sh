#!/bin/bash
# usage: run_all.sh <jobs> <log> ID...   — runs quick tier of each check, appends summary lines
J=$1; LOG=$2; shift 2
cd /verif
for c in "$@"; do
  s=$(date +%s)
  out=$(./check $c --jobs $J 2>&1 | grep -v "WARNING: overwr")
  rc=$?
  e=$(date +%s)
  echo "== $c rc_line=$(echo "$out" | grep -c -E 'VIOLATION|BROKEN') wall=$((e-s))s" >> $LOG
  echo "$out" | grep -E "^\[C|VIOLATION|BROKEN|KNOWN-FINDING" | head -8 | cut -c1-300 >> $LOG
done
echo "== DONE" >> $LOG
