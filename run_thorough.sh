#!/bin/bash
# Runs the thorough tier of every check (or the ids given) sequentially; summary to thorough.log
J=${J:-8}
IDS=${@:-$(cat mc/ready.txt)}
for c in $IDS; do
  s=$(date +%s)
  out=$(./check $c --tier thorough --jobs $J 2>&1 | grep -v "WARNING: overwr")
  e=$(date +%s)
  echo "== $c wall=$((e-s))s $(echo "$out" | grep -c -E 'VIOLATION|BROKEN') alarm-lines" | tee -a thorough.log
  echo "$out" | grep -E "^\[C|VIOLATION|BROKEN|KNOWN-FINDING" | head -6 | cut -c1-250 | tee -a thorough.log
done
