"""Group E helpers that drive the real flux discretizations and compare with closed forms."""

from __future__ import annotations

import numpy as np

KW = "flow"


def discretize_flow(method: str, g, perm, bc, eta=None, inverter=None, extra=None):
    """Run pp.Mpfa / pp.Tpfa on (g, perm, bc); returns the matrix dictionary."""
    import porepy as pp

    params = {"second_order_tensor": perm, "bc": bc}
    if eta is not None:
        params["mpfa_eta"] = eta
    if inverter is not None:
        params["mpfa_inverter"] = inverter
    if extra:
        params.update(extra)
    data = {pp.PARAMETERS: {KW: params}, pp.DISCRETIZATION_MATRICES: {KW: {}}}
    discr = pp.Mpfa(KW) if method == "mpfa" else pp.Tpfa(KW)
    discr.discretize(g, data)
    return data[pp.DISCRETIZATION_MATRICES][KW], data


def rediscretize(method: str, g, data):
    """Second call on the SAME data dictionary (reuse of all argument objects)."""
    import porepy as pp

    discr = pp.Mpfa(KW) if method == "mpfa" else pp.Tpfa(KW)
    discr.discretize(g, data)
    return data[pp.DISCRETIZATION_MATRICES][KW]


def linear_data(g, info, K, is_dir, p0, grad):
    """Cell values, boundary data vector (Dirichlet: p at face centre; Neumann: outward
    integrated flux) and exact face fluxes for p = p0 + grad.x, constant K."""
    pc = p0 + grad @ g.cell_centers
    pf = p0 + grad @ g.face_centers
    gt = grad
    if info.get("plane_normal") is not None:
        # embedded 2-d grid: the flux within the surface is driven by the tangential gradient
        nu = info["plane_normal"]
        gt = grad - (grad @ nu) * nu
    q = -(g.face_normals.T @ (K @ gt))
    bf = info["bfaces"]
    bcv = np.zeros(g.num_faces)
    bcv[bf[is_dir]] = pf[bf[is_dir]]
    nd = ~is_dir
    bcv[bf[nd]] = info["sgn"][nd] * q[bf[nd]]
    return pc, pf, bcv, q


def geom_scales(g):
    """Independent magnitudes for tolerances: max |n_f|, min cell-face distance, max |x|."""
    nmax = float(np.max(np.linalg.norm(g.face_normals, axis=0)))
    cf = g.cell_faces.tocoo()
    d = np.linalg.norm(g.face_centers[:, cf.row] - g.cell_centers[:, cf.col], axis=0)
    hmin = float(np.min(d))
    xmax = float(max(1.0, np.max(np.abs(g.nodes))))
    return nmax, hmin, xmax
