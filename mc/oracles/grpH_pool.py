"""Group H helper: pool of tiny grids / mortar grids and a plain-Python reference model
of the md-grid container (used by C24).

The *template* (meshes produced by ``pp.meshing.cart_grid``) is built once per worker
process; every ``build`` of a BFS state makes fresh copies (fresh ids) in a fixed,
deliberately scrambled creation order, so that id order, insertion order and dimension
order all differ.

Slots (a slot holds version 0 or version 1 of a grid; replacing swaps the version):

    V3   3-d Cartesian 2x2x1                      (v1: copy)
    A2   2-d Cartesian 2x2 split by fracture y=1   (v1: 4x2 cells, same fracture)
    B2   2-d Cartesian 2x2 split by an X-crossing  (v1: 4x4 cells, same fractures)
    L1a  1-d fracture grid of A2 (2 cells)         (v1: 4 cells)
    L1b  1-d horizontal fracture of B2 (2 cells)   (v1: 4 cells)
    L1c  1-d vertical fracture of B2 (2 cells)     (v1: 4 cells)
    P0a  0-d intersection point of L1b, L1c        (v1: copy)
    P0b  0-d point                                 (v1: copy)

Interfaces ("real" = face-cell map and geometry from the mesher, "mock" = hand made
map, geometry not conforming; used for container topology only):

    A2-L1a  real  codim 1  dim 1   two sides
    B2-L1b  real  codim 1  dim 1   two sides
    B2-L1c  real  codim 1  dim 1   two sides
    L1b-P0a real  codim 1  dim 0   two sides
    L1c-P0a real  codim 1  dim 0   two sides
    V3-A2   mock  codim 1  dim 2   one side
    V3-L1c  mock  codim 2  dim 1   one side
    A2-B2   mock  codim 0  dim 1   one side
    A2-P0b  mock  codim 2  dim 0   one side
"""

from __future__ import annotations

import numpy as np
import scipy.sparse as sps

SLOTS = {"V3": 3, "A2": 2, "B2": 2, "L1a": 1, "L1b": 1, "L1c": 1, "P0a": 0, "P0b": 0}

# name -> (slot, slot, codim, mortar dim, real geometry?)
INTFS = {
    "A2-L1a": ("A2", "L1a", 1, 1, True),
    "B2-L1b": ("B2", "L1b", 1, 1, True),
    "B2-L1c": ("B2", "L1c", 1, 1, True),
    "L1b-P0a": ("L1b", "P0a", 1, 0, True),
    "L1c-P0a": ("L1c", "P0a", 1, 0, True),
    "V3-A2": ("V3", "A2", 1, 2, False),
    "V3-L1c": ("V3", "L1c", 2, 1, False),
    "A2-B2": ("A2", "B2", 0, 1, False),
    "A2-P0b": ("A2", "P0b", 2, 0, False),
}

# creation order of the grid objects (slot, version): scrambled on purpose
GRID_ORDER = [
    ("L1b", 0), ("P0b", 0), ("A2", 1), ("V3", 0), ("L1a", 1), ("B2", 0), ("P0a", 0),
    ("L1c", 0), ("A2", 0), ("L1a", 0), ("P0a", 1), ("B2", 1), ("L1b", 1), ("V3", 1),
    ("L1c", 1), ("P0b", 1),
]
MORTAR_ORDER = [
    "L1c-P0a", "A2-L1a", "V3-L1c", "B2-L1b", "A2-P0b", "L1b-P0a", "V3-A2", "A2-B2", "B2-L1c",
]
GRID_RANK = {sv: i for i, sv in enumerate(GRID_ORDER)}
MORTAR_RANK = {n: i for i, n in enumerate(MORTAR_ORDER)}

_TEMPLATE = None


def _template():
    """Meshes (built once per process)."""
    global _TEMPLATE
    if _TEMPLATE is not None:
        return _TEMPLATE
    import porepy as pp

    fh = np.array([[0.0, 2.0], [1.0, 1.0]])
    fv = np.array([[1.0, 1.0], [0.0, 2.0]])
    t: dict = {}

    def grab(mdg, names2, names1h, names1v=None, name0=None):
        g2 = mdg.subdomains(dim=2)[0]
        out = {names2: g2}
        for g in mdg.subdomains(dim=1):
            horizontal = np.ptp(g.nodes[1]) < 1e-12
            if horizontal:
                out[names1h] = g
            elif names1v is not None:
                out[names1v] = g
        if name0 is not None:
            out[name0] = mdg.subdomains(dim=0)[0]
        fc = {}
        for intf in mdg.interfaces():
            p, s = mdg.interface_to_subdomain_pair(intf)
            fc[(id(p), id(s))] = mdg.interface_data(intf)["face_cells"]
        return out, fc

    m1, fc1 = grab(pp.meshing.cart_grid([fh], [2, 2], physdims=[2, 2]), "A2", "L1a")
    m1f, _ = grab(pp.meshing.cart_grid([fh], [4, 2], physdims=[2, 2]), "A2", "L1a")
    m2, fc2 = grab(pp.meshing.cart_grid([fh, fv], [2, 2], physdims=[2, 2]), "B2", "L1b", "L1c", "P0a")
    m2f, _ = grab(pp.meshing.cart_grid([fh, fv], [4, 4], physdims=[2, 2]), "B2", "L1b", "L1c", "P0a")

    v3 = pp.CartGrid(np.array([2, 2, 1]), physdims=np.array([2.0, 2.0, 1.0]))
    v3.compute_geometry()
    p0b = pp.PointGrid(np.array([0.5, 0.5, 0.0]))
    p0b.compute_geometry()

    t["grid"] = {
        ("V3", 0): v3, ("V3", 1): v3,
        ("A2", 0): m1["A2"], ("A2", 1): m1f["A2"],
        ("B2", 0): m2["B2"], ("B2", 1): m2f["B2"],
        ("L1a", 0): m1["L1a"], ("L1a", 1): m1f["L1a"],
        ("L1b", 0): m2["L1b"], ("L1b", 1): m2f["L1b"],
        ("L1c", 0): m2["L1c"], ("L1c", 1): m2f["L1c"],
        ("P0a", 0): m2["P0a"], ("P0a", 1): m2f["P0a"],
        ("P0b", 0): p0b, ("P0b", 1): p0b,
    }
    g = t["grid"]
    fcs = {}
    fcs["A2-L1a"] = fc1[(id(m1["A2"]), id(m1["L1a"]))]
    fcs["B2-L1b"] = fc2[(id(m2["B2"]), id(m2["L1b"]))]
    fcs["B2-L1c"] = fc2[(id(m2["B2"]), id(m2["L1c"]))]
    fcs["L1b-P0a"] = fc2[(id(m2["L1b"]), id(m2["P0a"]))]
    fcs["L1c-P0a"] = fc2[(id(m2["L1c"]), id(m2["P0a"]))]
    # mock maps (rows: secondary entity, columns: primary entity)
    top = np.where(np.abs(v3.face_centers[2] - 1.0) < 1e-12)[0][: g[("A2", 0)].num_cells]
    nc = g[("A2", 0)].num_cells
    fcs["V3-A2"] = sps.csc_matrix((np.ones(nc), (np.arange(nc), top)), shape=(nc, v3.num_faces))
    nl = g[("L1c", 0)].num_cells
    fcs["V3-L1c"] = sps.csc_matrix((np.ones(nl), (np.arange(nl), np.arange(nl))), shape=(nl, v3.num_cells))
    a2, b2 = g[("A2", 0)], g[("B2", 0)]
    fa = np.where(np.abs(a2.face_centers[0] - 2.0) < 1e-12)[0][:2]
    fb = np.where(np.abs(b2.face_centers[0]) < 1e-12)[0][:2]
    fcs["A2-B2"] = sps.csc_matrix((np.ones(2), (fb, fa)), shape=(b2.num_faces, a2.num_faces))
    fcs["A2-P0b"] = sps.csc_matrix((np.ones(1), ([0], [0])), shape=(1, a2.num_cells))
    t["fc"] = fcs

    def line(n):
        x = np.linspace(0.0, 2.0, n + 1)
        gl = pp.TensorGrid(x)
        gl.nodes[1] = 3.0
        gl.compute_geometry()
        return gl

    sq = pp.CartGrid(np.array([2, 2]), physdims=np.array([2.0, 2.0]))
    sq.nodes[2] = 1.0
    sq.compute_geometry()
    sqf = pp.CartGrid(np.array([4, 2]), physdims=np.array([2.0, 2.0]))
    sqf.nodes[2] = 1.0
    sqf.compute_geometry()
    # side grid templates per interface and version; each side gets its own copy
    t["side"] = {
        "A2-L1a": (g[("L1a", 0)], g[("L1a", 1)], 2),
        "B2-L1b": (g[("L1b", 0)], g[("L1b", 1)], 2),
        "B2-L1c": (g[("L1c", 0)], g[("L1c", 1)], 2),
        "L1b-P0a": (g[("P0a", 0)], g[("P0a", 1)], 2),
        "L1c-P0a": (g[("P0a", 0)], g[("P0a", 1)], 2),
        "V3-A2": (sq, sqf, 1),
        "V3-L1c": (g[("L1c", 0)], g[("L1c", 1)], 1),
        "A2-B2": (line(2), line(3), 1),
        "A2-P0b": (p0b, p0b, 1),
    }
    _TEMPLATE = t
    return t


class Pool:
    """Fresh copies of all pool objects (new ids), created in the scrambled order."""

    def __init__(self, grids=None, mortars=None):
        """``grids``: iterable of (slot, version) to materialise (default all);
        ``mortars``: iterable of interface names (default all). Objects that a history never
        touches cannot influence it, so callers materialise only the touched ones - always
        in the global scrambled order."""
        import porepy as pp
        from porepy.grids.mortar_grid import MortarSides

        t = _template()
        grids = set(GRID_ORDER) if grids is None else set(grids)
        mortars = set(MORTAR_ORDER) if mortars is None else set(mortars)
        order = [sv for sv in GRID_ORDER if sv in grids]
        morder = [n for n in MORTAR_ORDER if n in mortars]
        self.grid = {}
        for sv in order:
            self.grid[sv] = t["grid"][sv].copy()
        ids = [self.grid[sv].id for sv in order]
        if any(b <= a for a, b in zip(ids, ids[1:])):
            raise RuntimeError("harness: grid ids are not increasing in creation order")
        self.mortar = {}
        sides = [MortarSides.LEFT_SIDE, MortarSides.RIGHT_SIDE]
        for name in morder:
            _, _, codim, mdim, _ = INTFS[name]
            g0, _, ns = t["side"][name]
            sg = {sides[k]: g0.copy() for k in range(ns)}
            self.mortar[name] = pp.MortarGrid(mdim, sg, t["fc"][name], codim=codim)
        ids = [self.mortar[n].id for n in morder]
        if any(b <= a for a, b in zip(ids, ids[1:])):
            raise RuntimeError("harness: mortar ids are not increasing in creation order")
        self.name_of = {id(g): sv for sv, g in self.grid.items()}
        self.mname_of = {id(m): n for n, m in self.mortar.items()}

    def face_cells(self, name):
        return _template()["fc"][name]

    def new_sides(self, name, version):
        """Side grids (fresh copies) of the given version for interface ``name``."""
        from porepy.grids.mortar_grid import MortarSides

        t = _template()
        g0, g1, ns = t["side"][name]
        sides = [MortarSides.LEFT_SIDE, MortarSides.RIGHT_SIDE]
        src = g1 if version else g0
        return {sides[k]: src.copy() for k in range(ns)}


# ------------------------------------------------------------------ reference model


class Model:
    """Plain dict model of the container."""

    def __init__(self):
        self.subs: dict[str, int] = {}  # slot -> version present
        self.intfs: dict[str, int] = {}  # interface name -> 1 (present)
        self.mver: dict[str, int] = {n: 0 for n in INTFS}  # side-grid version of each mortar object
        self.bg: dict[str, int] = {}  # slot -> creation stamp of its boundary grid
        self.stamp = 0
        self.dead_bg: list = []  # filled by the harness (real objects)

    def copy(self):
        m = Model()
        m.subs, m.intfs, m.bg, m.stamp = dict(self.subs), dict(self.intfs), dict(self.bg), self.stamp
        m.mver = dict(self.mver)
        return m

    # enabled operations in this state, restricted to the given slots
    def enabled(self, slots, pairs_add, pairs_rep):
        ops = []
        absent = [s for s in slots if s not in self.subs]
        present = [s for s in slots if s in self.subs]
        for s in absent:
            ops.append(("add", (s,)))
        for a, b in pairs_add:
            if a in absent and b in absent:
                ops.append(("add", (a, b)))
        for s in present:
            ops.append(("add_present", (s,)))
        for n, (a, b, codim, mdim, real) in INTFS.items():
            if a in slots and b in slots and a in self.subs and b in self.subs:
                if n not in self.intfs:
                    ops.append(("addi", n, 0))
                    ops.append(("addi", n, 1))
                else:
                    ops.append(("repi", n))
        if "V3" in present and "P0b" in present:
            ops.append(("addi_codim3",))
        for s in present:
            ops.append(("rm", s))
            ops.append(("rep", (s,)))
        for a, b in pairs_rep:
            if a in present and b in present:
                ops.append(("rep", (a, b)))
        for n, s in (("A2-L1a", "L1a"), ("L1b-P0a", "L1b")):
            if n in self.intfs and s in present and s in slots:
                ops.append(("rep_both", s, n))
        return ops

    @staticmethod
    def touched(ops):
        """(slot, version) objects and interface names a history can touch (superset)."""
        m = Model()
        gs, ms = set(), set()
        for op in ops:
            k = op[0]
            try:
                if k == "add":
                    gs.update((s, 0) for s in op[1])
                elif k == "add_present":
                    gs.update((s, v) for s in op[1] for v in (0, 1))
                elif k == "addi":
                    ms.add(op[1])
                elif k == "addi_codim3":
                    gs.update((s, v) for s in ("V3", "P0b") for v in (0, 1))
                elif k == "rep":
                    gs.update((s, v) for s in op[1] for v in (0, 1))
                elif k == "rep_both":
                    gs.update((op[1], v) for v in (0, 1))
                m.step(op)
            except KeyError:
                pass
        return gs, ms

    def step(self, op):
        k = op[0]
        if k == "add":
            for s in op[1]:
                self.subs[s] = 0
            for s in op[1]:
                if SLOTS[s] > 0:
                    self.bg[s] = self.stamp
                    self.stamp += 1
        elif k == "addi":
            self.intfs[op[1]] = 1
        elif k == "rm":
            s = op[1]
            del self.subs[s]
            for n in [n for n in self.intfs if s in INTFS[n][:2]]:
                del self.intfs[n]
            self.bg.pop(s, None)
        elif k == "rep":
            for s in op[1]:
                self.subs[s] = 1 - self.subs[s]
                if SLOTS[s] > 0:
                    self.bg[s] = self.stamp
                    self.stamp += 1
        elif k == "repi":
            self.mver[op[1]] = 1 - self.mver[op[1]]
        elif k == "rep_both":
            s, n = op[1], op[2]
            self.mver[n] = 1 - self.mver[n]
            self.subs[s] = 1 - self.subs[s]
            if SLOTS[s] > 0:
                self.bg[s] = self.stamp
                self.stamp += 1
        elif k in ("add_present", "addi_codim3"):
            pass
        else:
            raise ValueError(op)

    # expected listings (names)
    def sub_list(self, dim=None):
        xs = [(s, v) for s, v in self.subs.items() if dim is None or SLOTS[s] == dim]
        return sorted(xs, key=lambda sv: (-SLOTS[sv[0]], GRID_RANK[sv]))

    def intf_list(self, dim=None, codim=None):
        xs = [n for n in self.intfs if (dim is None or INTFS[n][3] == dim) and (codim is None or INTFS[n][2] == codim)]
        return sorted(xs, key=lambda n: (-INTFS[n][3], MORTAR_RANK[n]))

    def bg_list(self, dim=None):
        xs = [s for s in self.bg if dim is None or SLOTS[s] - 1 == dim]
        return sorted(xs, key=lambda s: (-(SLOTS[s] - 1), self.bg[s]))

    def pair(self, n):
        a, b = INTFS[n][:2]
        return (a, self.subs[a]), (b, self.subs[b])

    def canon(self):
        bgorder = tuple(self.bg_list())
        iv = tuple(sorted((n, self.mver[n]) for n in self.intfs))
        return (tuple(sorted(self.subs.items())), iv, bgorder)
