"""Exact rational geometry kernel for group I (C28, C29, C30, C44).

Everything here is pure Python on ``int`` / ``fractions.Fraction`` coordinates; points
are tuples. Nothing is imported from porepy, numpy is not used for any decision.

Conventions
-----------
* ``seg_isect(a, b, c, d)`` -> ("none",) | ("point", P) | ("segment", P, Q) for closed,
  non-degenerate segments in any dimension >= 2.
* squared distances are returned as Fractions together with one pair of closest points.
* polygons are vertex lists (closed implicitly), simple, planar; may be non-convex and
  may contain collinear vertices.
"""

from __future__ import annotations

from fractions import Fraction as F
from itertools import combinations

# --------------------------------------------------------------------------- vectors


def sub(a, b):
    return tuple(x - y for x, y in zip(a, b))


def add(a, b):
    return tuple(x + y for x, y in zip(a, b))


def scale(a, s):
    return tuple(x * s for x in a)


def dot(a, b):
    return sum(x * y for x, y in zip(a, b))


def lerp(a, b, t):
    return tuple(x + (y - x) * t for x, y in zip(a, b))


def cross3(a, b):
    return (a[1] * b[2] - a[2] * b[1], a[2] * b[0] - a[0] * b[2], a[0] * b[1] - a[1] * b[0])


def minors(a, b):
    """All 2x2 minors of the 2 x n matrix [a; b] (the n-d 'cross product')."""
    n = len(a)
    return tuple(a[i] * b[j] - a[j] * b[i] for i in range(n) for j in range(i + 1, n))


def is_zero(v):
    return all(x == 0 for x in v)


def frac(x):
    """Exact Fraction of an int / float / Fraction."""
    return x if isinstance(x, F) else F(x)


def fpt(p):
    return tuple(frac(float(x)) if not isinstance(x, (int, F)) else F(x) for x in p)


def tofloat(p):
    return tuple(float(x) for x in p)


# ------------------------------------------------------------------ points / segments


def param_on_line(p, a, b):
    """Parameter t of the orthogonal projection of p on the line a + t (b - a)."""
    u = sub(b, a)
    return F(dot(sub(p, a), u), 1) / dot(u, u)


def point_on_segment(p, a, b):
    """Exact: p lies on the closed segment [a, b] (a != b or a == b)."""
    u = sub(b, a)
    w = sub(p, a)
    if not is_zero(minors(u, w)):
        return False
    uu = dot(u, u)
    if uu == 0:
        return is_zero(w)
    s = dot(w, u)
    return 0 <= s <= uu


def seg_isect(a, b, c, d):
    """Exact intersection of closed non-degenerate segments [a,b] and [c,d]."""
    u = sub(b, a)
    v = sub(d, c)
    w = sub(c, a)
    uu = dot(u, u)
    vv = dot(v, v)
    assert uu != 0 and vv != 0, "degenerate segment"
    if is_zero(minors(u, v)):
        # parallel
        if not is_zero(minors(u, w)):
            return ("none",)
        tc = F(dot(w, u)) / uu
        td = F(dot(sub(d, a), u)) / uu
        lo = max(F(0), min(tc, td))
        hi = min(F(1), max(tc, td))
        if lo > hi:
            return ("none",)
        if lo == hi:
            return ("point", lerp(a, b, lo))
        return ("segment", lerp(a, b, lo), lerp(a, b, hi))
    # not parallel: closest points of the two lines (normal equations)
    uv = dot(u, v)
    D = uu * vv - uv * uv  # > 0 by Cauchy-Schwarz (not parallel)
    wu = dot(w, u)
    wv = dot(w, v)
    s = F(wu * vv - wv * uv) / D
    t = F(wu * uv - wv * uu) / D
    if s < 0 or s > 1 or t < 0 or t > 1:
        return ("none",)
    P = lerp(a, b, s)
    Q = lerp(c, d, t)
    if P != Q:
        return ("none",)  # skew lines
    return ("point", P)


def sqdist_pp(p, q):
    w = sub(p, q)
    return F(dot(w, w))


def sqdist_point_seg(p, a, b):
    """(squared distance, closest point) from p to closed segment [a,b]; a == b allowed."""
    u = sub(b, a)
    uu = dot(u, u)
    if uu == 0:
        return sqdist_pp(p, a), tuple(F(x) for x in a)
    t = F(dot(sub(p, a), u)) / uu
    t = min(F(1), max(F(0), t))
    q = lerp(a, b, t)
    return sqdist_pp(p, q), q


def sqdist_seg_seg(a, b, c, d):
    """Exact squared distance between closed segments (degenerate allowed).

    The squared distance is a convex quadratic on [0,1]^2: its minimum is attained at the
    unconstrained stationary point if that lies in the square, otherwise on the boundary,
    i.e. at an endpoint-to-segment minimum.
    """
    best = None
    for (p, x, y) in ((a, c, d), (b, c, d), (c, a, b), (d, a, b)):
        d2, _ = sqdist_point_seg(p, x, y)
        if best is None or d2 < best:
            best = d2
    u = sub(b, a)
    v = sub(d, c)
    uu, vv, uv = dot(u, u), dot(v, v), dot(u, v)
    D = uu * vv - uv * uv
    if D != 0:
        w = sub(c, a)
        wu, wv = dot(w, u), dot(w, v)
        s = F(wu * vv - wv * uv) / D
        t = F(wu * uv - wv * uu) / D
        if 0 <= s <= 1 and 0 <= t <= 1:
            d2 = sqdist_pp(lerp(a, b, s), lerp(c, d, t))
            if d2 < best:
                best = d2
    return best


# --------------------------------------------------------------------------- polygons


def polygon_normal(poly):
    """Newell normal (twice the vector area) of a planar polygon in 3-d."""
    n = (0, 0, 0)
    k = len(poly)
    for i in range(k):
        n = add(n, cross3(poly[i], poly[(i + 1) % k]))
    return n


def polygon_area2_2d(poly):
    """Twice the signed area of a 2-d polygon."""
    k = len(poly)
    return sum(poly[i][0] * poly[(i + 1) % k][1] - poly[(i + 1) % k][0] * poly[i][1] for i in range(k))


def is_planar(poly):
    n = polygon_normal(poly)
    if is_zero(n):
        return False
    return all(dot(sub(p, poly[0]), n) == 0 for p in poly)


def point_in_polygon_2d(p, poly):
    """+1 strictly inside, 0 on the boundary, -1 strictly outside (simple polygon,
    exact crossing-number test with the half-open rule)."""
    k = len(poly)
    for i in range(k):
        if point_on_segment(p, poly[i], poly[(i + 1) % k]):
            return 0
    inside = False
    px, py = p
    for i in range(k):
        x0, y0 = poly[i]
        x1, y1 = poly[(i + 1) % k]
        if (y0 > py) != (y1 > py):
            # x coordinate of the edge at height py, compared exactly with px
            # px < x0 + (py - y0) (x1 - x0) / (y1 - y0)
            lhs = (px - x0) * (y1 - y0)
            rhs = (py - y0) * (x1 - x0)
            if (y1 - y0) > 0:
                if lhs < rhs:
                    inside = not inside
            else:
                if lhs > rhs:
                    inside = not inside
    return 1 if inside else -1


def drop_axis(n):
    """Axis with the largest |normal| component (projection that keeps the polygon
    non-degenerate)."""
    return max(range(3), key=lambda i: abs(n[i]))


def proj2(p, ax):
    return tuple(p[i] for i in range(3) if i != ax)


def point_in_polygon_3d(p, poly, n=None):
    """Location of a point *in the plane of poly* relative to poly (+1/0/-1)."""
    if n is None:
        n = polygon_normal(poly)
    ax = drop_axis(n)
    return point_in_polygon_2d(proj2(p, ax), [proj2(q, ax) for q in poly])


def project_to_plane(p, poly, n=None):
    if n is None:
        n = polygon_normal(poly)
    h = F(dot(sub(p, poly[0]), n)) / dot(n, n)
    return sub(p, scale(n, h)), h * h * dot(n, n)


def sqdist_point_polygon(p, poly):
    """Exact squared distance from a point to a planar (filled) polygon in 3-d."""
    n = polygon_normal(poly)
    q, h2 = project_to_plane(p, poly, n)
    if point_in_polygon_3d(q, poly, n) >= 0:
        return h2, q
    best, bq = None, None
    k = len(poly)
    for i in range(k):
        d2, c = sqdist_point_seg(p, poly[i], poly[(i + 1) % k])
        if best is None or d2 < best:
            best, bq = d2, c
    return best, bq


def seg_meets_polygon(a, b, poly):
    """Exact: closed segment [a,b] intersects the filled planar polygon."""
    n = polygon_normal(poly)
    ha = dot(sub(a, poly[0]), n)
    hb = dot(sub(b, poly[0]), n)
    if ha == 0 and hb == 0:
        if point_in_polygon_3d(a, poly, n) >= 0 or point_in_polygon_3d(b, poly, n) >= 0:
            return True
        k = len(poly)
        return any(seg_isect(a, b, poly[i], poly[(i + 1) % k])[0] != "none" for i in range(k))
    if (ha > 0 and hb > 0) or (ha < 0 and hb < 0):
        return False
    t = F(ha) / (ha - hb)
    x = lerp(a, b, t)
    return point_in_polygon_3d(x, poly, n) >= 0


def sqdist_seg_polygon(a, b, poly):
    """Exact squared distance between a closed segment and a filled planar polygon."""
    if seg_meets_polygon(a, b, poly):
        return F(0)
    best = min(sqdist_point_polygon(a, poly)[0], sqdist_point_polygon(b, poly)[0])
    k = len(poly)
    for i in range(k):
        best = min(best, sqdist_seg_seg(a, b, poly[i], poly[(i + 1) % k]))
    return best


def is_simple_polygon(poly):
    """No two non-adjacent edges meet, adjacent edges meet only in the shared vertex."""
    k = len(poly)
    if k < 3 or len(set(poly)) != k:
        return False
    for i, j in combinations(range(k), 2):
        r = seg_isect(poly[i], poly[(i + 1) % k], poly[j], poly[(j + 1) % k])
        adjacent = (j == i + 1) or (i == 0 and j == k - 1)
        if adjacent:
            if r[0] == "segment":
                return False
        elif r[0] != "none":
            return False
    return True


# ------------------------------------------------------------------- clipping (C44)


def clip_segment_by_polygon_2d(a, b, poly):
    """Elementary intervals of [a,b] w.r.t. a simple polygon.

    Returns a list of (t0, t1, loc) with loc = +1 (open interval strictly inside),
    0 (interval lies on the polygon boundary), -1 (strictly outside); the t are exact
    parameters along a + t (b - a), consecutive and covering [0, 1].
    """
    ts = {F(0), F(1)}
    k = len(poly)
    for i in range(k):
        r = seg_isect(a, b, poly[i], poly[(i + 1) % k])
        for P in r[1:]:
            ts.add(param_on_line(P, a, b))
    ts = sorted(ts)
    out = []
    for t0, t1 in zip(ts[:-1], ts[1:]):
        m = lerp(a, b, (t0 + t1) / 2)
        out.append((t0, t1, point_in_polygon_2d(m, poly)))
    return out


def clip_polygon_halfspace(poly, n, c):
    """Sutherland-Hodgman: part of the polygon (any dimension) with n.x <= c."""
    out = []
    k = len(poly)
    for i in range(k):
        p, q = poly[i], poly[(i + 1) % k]
        sp, sq = dot(n, p) - c, dot(n, q) - c
        if sp <= 0:
            out.append(tuple(F(x) for x in p))
        if (sp < 0 and sq > 0) or (sp > 0 and sq < 0):
            t = F(sp) / (sp - sq)
            out.append(lerp(p, q, t))
    # remove consecutive duplicates
    res = []
    for p in out:
        if not res or res[-1] != p:
            res.append(p)
    if len(res) > 1 and res[0] == res[-1]:
        res.pop()
    return res


def clip_polygon_convex(poly, halfspaces):
    cur = [tuple(F(x) for x in p) for p in poly]
    for n, c in halfspaces:
        if len(cur) < 3:
            return []
        cur = clip_polygon_halfspace(cur, n, c)
    return cur if len(cur) >= 3 else []


def vector_area2_sq(poly):
    """|2 * vector area|^2 of a 3-d polygon (exact)."""
    if len(poly) < 3:
        return F(0)
    n = polygon_normal(poly)
    return F(dot(n, n))


def convex_polyhedron_halfspaces(faces):
    """Outward half-spaces (n, c): n.x <= c of a convex polyhedron given by its faces."""
    verts = sorted({tuple(p) for f in faces for p in f})
    cen = tuple(F(sum(v[i] for v in verts), len(verts)) for i in range(3))
    hs = []
    for f in faces:
        n = polygon_normal(f)
        c = dot(n, f[0])
        if dot(n, cen) > c:
            n = scale(n, -1)
            c = -c
        assert dot(n, cen) < c
        assert all(dot(n, v) <= c for v in verts), "polyhedron is not convex"
        hs.append((n, c))
    return hs
