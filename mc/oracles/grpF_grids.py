"""Grid alphabet for group F (C13, C15, C16, C18).

A grid is described by a JSON-able *spec* (a dict) and built by :func:`build`:

    {"kind": "cart" | "tri" | "tet",       CartGrid / StructuredTriangleGrid /
                                            StructuredTetrahedralGrid on the unit box
             | "prism",                     grid_extrusion.extrude_grid of a
                                            StructuredTriangleGrid(n) with node heights
                                            "z" (z[0] = 0, z[-1] = 1): 3-d cells with
                                            triangular AND quadrilateral faces; "pert"
                                            moves nodes of the 2-d base grid (columns stay
                                            vertical, so all faces stay planar)
     "n": [nx(, ny(, nz))],
     "pert": [[node, [ox, oy(, oz)]], ...], node offsets in units of 0.1*h per axis
                                            (h = 1/n in that axis); lattice {0,+-1}^d
     "set": [[node, [x, y(, z)]], ...],     absolute position of a node in unit-box coordinates
                                            (used for valid NON-CONVEX cells, e.g. dart
                                            quadrilaterals; validity is checked exactly)
     "map": name in AFFINE,                 affine image x -> A x + b of all nodes
     "embed": name in EMBED,                rigid motion of a 1-d / 2-d grid into 3-d
     "scale": s}                            uniform scaling x -> s x of all nodes

The order of application is: perturb, set, affine map, embed, scale, ``compute_geometry``.

Planarity: node perturbations of hexahedra make faces non-planar (linear exactness is
not a property of the methods there), so :func:`spec_ok` rejects ``pert`` on 3-d
Cartesian grids unless the spec carries ``"nonplanar_ok": true`` (used only by C16,
whose claim -- translation invariance -- does not need planar faces). Affine images
keep faces planar.
"""

from __future__ import annotations

import itertools

import numpy as np

# d x d matrices (upper-left block used for lower dimensions) and shifts: a shear with
# stretch; chosen with small integers/tenths so that the image is far from K-orthogonal.
AFFINE = {
    "id": (np.eye(3), np.zeros(3)),
    "shear": (np.array([[1.0, 0.3, 0.2], [0.0, 1.2, 0.1], [0.0, 0.0, 0.8]]), np.array([0.5, -0.25, 0.125])),
    "skew": (np.array([[1.1, -0.2, 0.1], [0.4, 0.9, -0.3], [0.2, 0.1, 1.3]]), np.array([-1.0, 2.0, 0.5])),
}


def _rot(axis, angle):
    axis = np.asarray(axis, float)
    axis = axis / np.linalg.norm(axis)
    K = np.array([[0, -axis[2], axis[1]], [axis[2], 0, -axis[0]], [-axis[1], axis[0], 0]])
    return np.eye(3) + np.sin(angle) * K + (1 - np.cos(angle)) * K @ K


# Rigid motions used to embed 1-d and 2-d grids in 3-d.
EMBED = {
    "none": (np.eye(3), np.zeros(3)),
    "Rz": (_rot([0, 0, 1], 0.7), np.array([0.3, -0.2, 0.0])),
    "Rx": (_rot([1, 0, 0], 1.1), np.array([0.0, 0.1, 0.4])),
    "Rgen": (_rot([1, 2, 3], 2.0), np.array([-0.5, 0.25, 1.0])),
}


def dim_of(spec) -> int:
    return 3 if spec["kind"] == "prism" else len(spec["n"])


def spec_ok(spec) -> bool:
    d = dim_of(spec)
    if spec["kind"] == "cart" and d == 3 and spec.get("pert") and not spec.get("nonplanar_ok"):
        return False
    if spec["kind"] == "tri" and d != 2:
        return False
    if spec["kind"] == "tet" and d != 3:
        return False
    if spec["kind"] == "prism":
        z = spec.get("z", [])
        return len(spec["n"]) == 2 and len(z) >= 2 and z[0] == 0 and z[-1] == 1 and all(a < b for a, b in zip(z, z[1:]))
    return True


def name(spec) -> str:
    k = {"cart": "C", "tri": "T", "tet": "Tet", "prism": "Prism"}[spec["kind"]]
    s = k + "(" + ",".join(str(i) for i in spec["n"]) + ")"
    if spec["kind"] == "prism":
        s = s[:-1] + ";z=" + ",".join(f"{v:g}" for v in spec["z"]) + ")"
    if spec.get("pert"):
        s += ("~np~" if spec.get("nonplanar_ok") else "~") + ";".join(f"{i}:{','.join(str(o) for o in off)}" for i, off in spec["pert"])
    if spec.get("set"):
        s += "!" + ";".join(f"{i}:{','.join(f'{o:g}' for o in pos)}" for i, pos in spec["set"])
    if spec.get("map", "id") != "id":
        s += "@" + spec["map"]
    if spec.get("embed", "none") != "none":
        s += ">" + spec["embed"]
    if spec.get("scale", 1) != 1:
        s += f"x{spec['scale']:g}"
    return s


def _raw(spec):
    import porepy as pp

    n = list(spec["n"])
    d = len(n)
    kind = spec["kind"]
    if kind == "prism":
        base = pp.StructuredTriangleGrid(np.array(n), physdims=[1.0, 1.0])
        h = 1.0 / np.array(n, float)
        for i, off in spec.get("pert", []):
            base.nodes[:2, int(i)] += 0.1 * h * np.array(off, float)
        base.compute_geometry()
        g, _, _ = pp.grid_extrusion.extrude_grid(base, np.array(spec["z"], float))
        return g
    if kind == "cart":
        return pp.CartGrid(np.array(n), physdims=[1.0] * d)
    if kind == "tri":
        return pp.StructuredTriangleGrid(np.array(n), physdims=[1.0] * d)
    if kind == "tet":
        return pp.StructuredTetrahedralGrid(np.array(n), physdims=[1.0] * d)
    raise ValueError(kind)


def reference_nodes(spec) -> np.ndarray:
    """Node coordinates (3 x num_nodes) of the unperturbed unit-box grid.

    Pure numpy replica of the lexicographic node numbering used by the structured
    grids; verified against the real grid in :func:`build`.
    """
    n = list(spec["n"])
    d = len(n)
    axes = [np.linspace(0, 1, k + 1) for k in n]
    if spec["kind"] == "prism":  # layer-major: the 2-d node set repeated for every height
        X, Y = np.meshgrid(axes[0], axes[1])
        z = np.array(spec["z"], float)
        return np.vstack([np.tile(X.ravel(), z.size), np.tile(Y.ravel(), z.size), np.repeat(z, X.size)])
    if d == 1:
        x = axes[0]
        return np.vstack([x, np.zeros_like(x), np.zeros_like(x)])
    if d == 2:
        X, Y = np.meshgrid(axes[0], axes[1])
        return np.vstack([X.ravel(), Y.ravel(), np.zeros(X.size)])
    X, Y, Z = np.meshgrid(axes[0], axes[1], axes[2], indexing="ij")
    return np.vstack([X.ravel(order="F"), Y.ravel(order="F"), Z.ravel(order="F")])


def interior_nodes(spec) -> list:
    """Indices of nodes strictly inside the unit box (deterministic, ascending)."""
    x = reference_nodes(spec)
    d = dim_of(spec)
    inside = np.all((x[:d] > 1e-9) & (x[:d] < 1 - 1e-9), axis=0)
    return [int(i) for i in np.where(inside)[0]]


def lattice(d, nonzero_only=False):
    pts = list(itertools.product((0, 1, -1), repeat=d))
    if nonzero_only:
        pts = [p for p in pts if any(p)]
    return [list(p) for p in pts]


def build(spec):
    """Build the real porepy grid for ``spec`` (geometry computed)."""
    assert spec_ok(spec), spec
    g = _raw(spec)
    d = g.dim
    ref = reference_nodes(spec)
    prism = spec["kind"] == "prism"
    if prism and spec.get("pert"):  # replica of the base-grid perturbation, column-wise
        nb = ref.shape[1] // len(spec["z"])
        hb = 1.0 / np.array(spec["n"], float)
        for i, off in spec["pert"]:
            ref[:2, int(i) :: nb] += (0.1 * hb * np.array(off, float))[:, None]
    if g.nodes.shape != ref.shape or np.abs(g.nodes - ref).max() > 1e-14:
        raise RuntimeError("node numbering of the structured grid differs from the harness replica")
    nodes = g.nodes.copy()
    h = 1.0 / np.array(spec["n"], float)
    for i, off in [] if prism else spec.get("pert", []):
        nodes[:d, int(i)] += 0.1 * h * np.array(off, float)
    for i, pos in spec.get("set", []):
        nodes[:d, int(i)] = np.array(pos, float)
    A, b = AFFINE[spec.get("map", "id")]
    if spec.get("map", "id") != "id":
        Ad = np.eye(3)
        Ad[:d, :d] = A[:d, :d]
        bd = np.zeros(3)
        bd[:d] = b[:d]
        nodes = Ad @ nodes + bd[:, None]
    R, t = EMBED[spec.get("embed", "none")]
    if spec.get("embed", "none") != "none":
        nodes = R @ nodes + t[:, None]
    if spec.get("scale", 1) != 1:
        nodes = float(spec["scale"]) * nodes
    g.nodes = nodes
    g.compute_geometry()
    if not np.all(g.cell_volumes > 0):
        raise RuntimeError("invalid grid spec: non-positive cell volume")
    if spec.get("set"):
        _check_valid(g, spec)
    return g


def _check_valid(g, spec):
    """Exact validity test for grids with freely placed nodes (possibly non-convex
    cells): positive volumes, volumes add up to the measure of the (affinely mapped,
    scaled) unit box, every cell closed (sum of outward area-weighted normals = 0), and
    in 2-d no cell boundary self-intersects (all proper edge pairs are disjoint)."""
    d = g.dim
    A, _ = AFFINE[spec.get("map", "id")]
    measure = abs(np.linalg.det(A[:d, :d])) * float(spec.get("scale", 1)) ** d
    if abs(g.cell_volumes.sum() - measure) > 1e-12 * measure:
        raise RuntimeError("invalid grid spec: cell volumes do not add up to the domain measure")
    cf = g.cell_faces.tocsc()
    for c in range(g.num_cells):
        sl = slice(cf.indptr[c], cf.indptr[c + 1])
        tot = (g.face_normals[:, cf.indices[sl]] * cf.data[sl]).sum(axis=1)
        if np.abs(tot).max() > 1e-12 * np.abs(g.face_normals).max():
            raise RuntimeError("invalid grid spec: cell is not closed")
    if d == 2 and spec.get("embed", "none") == "none":
        fn = g.face_nodes.tocsc()

        def orient(p, q, r):
            return (q[0] - p[0]) * (r[1] - p[1]) - (q[1] - p[1]) * (r[0] - p[0])

        for c in range(g.num_cells):
            fs = cf.indices[cf.indptr[c] : cf.indptr[c + 1]]
            segs = [fn.indices[fn.indptr[f] : fn.indptr[f + 1]] for f in fs]
            for i in range(len(segs)):
                for j in range(i + 1, len(segs)):
                    if set(segs[i]) & set(segs[j]):
                        continue
                    p1, p2 = g.nodes[:2, segs[i][0]], g.nodes[:2, segs[i][1]]
                    p3, p4 = g.nodes[:2, segs[j][0]], g.nodes[:2, segs[j][1]]
                    if orient(p1, p2, p3) * orient(p1, p2, p4) < 0 and orient(p3, p4, p1) * orient(p3, p4, p2) < 0:
                        raise RuntimeError("invalid grid spec: cell boundary self-intersects")


def nonconvex_cells(g) -> list:
    """Cells (2-d) whose centroid lies on the outer side of one of their own faces."""
    cf = g.cell_faces.tocoo()
    v = g.face_centers[:, cf.row] - g.cell_centers[:, cf.col]
    s = np.einsum("ij,ij->j", v, g.face_normals[:, cf.row]) * cf.data
    return sorted(set(int(c) for c in cf.col[s <= 0]))


def outward_sign(g) -> np.ndarray:
    """+1 / -1 per boundary face (0 on interior faces): does the face normal point out
    of the domain? Computed from geometry only: all grids of this alphabet cover a convex
    domain (affine image of a box, up to 0.1h node offsets), so the outward normal of a
    boundary face satisfies n . (x_f - c) > 0 with c the mean of the boundary face
    centres. (A cell-centre based test would be wrong for non-convex cells.)"""
    sgn = np.zeros(g.num_faces)
    bf = boundary_faces(g)
    c = g.face_centers[:, bf].mean(axis=1)
    for f in bf:
        v = g.face_centers[:, f] - c
        sgn[f] = 1.0 if float(v @ g.face_normals[:, f]) > 0 else -1.0
    return sgn


def boundary_faces(g) -> np.ndarray:
    fc = g.cell_faces.tocsr()
    return np.where(np.diff(fc.indptr) == 1)[0]


def edge_adjacent_pairs(g) -> set:
    """Pairs (f1 < f2) of boundary faces of a 3-d grid that share an edge (>= 2 nodes);
    for a 2-d grid: pairs sharing a node."""
    bf = boundary_faces(g)
    fn = g.face_nodes.tocsc()
    nodes = {int(f): set(fn.indices[fn.indptr[f] : fn.indptr[f + 1]].tolist()) for f in bf}
    need = 2 if g.dim == 3 else 1
    out = set()
    for a, b in itertools.combinations([int(f) for f in bf], 2):
        if len(nodes[a] & nodes[b]) >= need:
            out.add((a, b))
    return out


def h_min(g) -> float:
    """Smallest distance from a cell centre to one of its face centres."""
    cf = g.cell_faces.tocoo()
    dist = np.linalg.norm(g.face_centers[:, cf.row] - g.cell_centers[:, cf.col], axis=0)
    return float(dist.min())


# ------------------------------------------------------------------ purity digests


def _feed(h, x):
    import scipy.sparse as sps

    if x is None:
        h.update(b"None")
    elif sps.issparse(x):
        # canonical content (sorted triplets), not the storage layout: an in-place
        # sort_indices() / format-preserving re-ordering is not a modification
        c = sps.coo_matrix(x, copy=True)
        c.sum_duplicates()
        order = np.lexsort((c.col, c.row))
        h.update(repr(c.shape).encode())
        for part in (c.row[order], c.col[order], c.data[order]):
            h.update(np.ascontiguousarray(part).tobytes())
    else:
        a = np.ascontiguousarray(np.asarray(x))
        h.update(str(a.dtype).encode() + repr(a.shape).encode() + a.tobytes())


def digest(*objs) -> str:
    """Bitwise digest of grids (topology + geometry arrays + tags), porepy tensors
    (``values``, ``mu``, ``lmbda``), boundary-condition objects (type flags, Robin
    weight, basis), ndarrays and sparse matrices. Used as a purity oracle: a
    discretization must not modify the grid / parameters it is given."""
    import hashlib

    h = hashlib.blake2b(digest_size=16)
    for o in objs:
        if hasattr(o, "cell_faces") and hasattr(o, "face_nodes"):  # grid
            for att in ("nodes", "cell_faces", "face_nodes", "face_normals", "face_centers", "face_areas",
                        "cell_centers", "cell_volumes"):
                _feed(h, getattr(o, att, None))
            for k in sorted(getattr(o, "tags", {})):
                h.update(k.encode())
                _feed(h, o.tags[k])
        elif hasattr(o, "is_dir") and hasattr(o, "is_neu"):  # boundary condition
            for att in ("is_dir", "is_neu", "is_rob", "is_internal", "robin_weight", "basis"):
                _feed(h, getattr(o, att, None))
        elif hasattr(o, "values") and not isinstance(o, np.ndarray):  # tensor
            for att in ("values", "mu", "lmbda"):
                _feed(h, getattr(o, att, None))
        else:
            _feed(h, o)
    return h.hexdigest()


# ------------------------------------------------------- sequences on one object

# Pairs of grids discretized one after the other with ONE discretization object (and,
# where the sizes allow, the same tensor objects): hidden state kept on the object must
# not leak from the first grid into the second. kind of pair:
#   "topo": same numbers of cells / faces / cell-face pairs, different topology
#   "geom": same topology, different geometry (different cell volumes)
#   "moved": the SAME grid object, nodes moved + compute_geometry() between the calls
SEQ_PAIRS_2D = [
    ("topo", {"kind": "cart", "n": [3, 2]}, {"kind": "cart", "n": [2, 3]}),
    ("geom", {"kind": "cart", "n": [3, 3]}, {"kind": "cart", "n": [3, 3], "pert": [[5, [1, -1]]], "map": "shear"}),
    ("geom", {"kind": "tri", "n": [2, 2]}, {"kind": "tri", "n": [2, 2], "pert": [[4, [1, -1]]], "scale": 2.0}),
    ("moved", {"kind": "cart", "n": [2, 2]}, {"kind": "cart", "n": [2, 2], "pert": [[4, [1, -1]]], "map": "skew"}),
    ("moved", {"kind": "tri", "n": [2, 2], "pert": [[4, [1, 1]]]}, {"kind": "tri", "n": [2, 2], "map": "shear"}),
]
SEQ_PAIRS_3D = [
    ("topo", {"kind": "cart", "n": [3, 2, 2]}, {"kind": "cart", "n": [2, 2, 3]}),
    ("geom", {"kind": "tet", "n": [1, 1, 1]}, {"kind": "tet", "n": [1, 1, 1], "pert": [[7, [1, -1, 1]]], "map": "shear"}),
    ("moved", {"kind": "cart", "n": [2, 2, 2]}, {"kind": "cart", "n": [2, 2, 2], "map": "skew"}),
]


def get_grid(spec, shared=None):
    """Grid for ``spec``. With ``shared`` (state of a sequence case): if the sequence is
    of kind "moved" and a grid object exists already, that SAME object gets the nodes of
    ``spec`` and ``compute_geometry()`` is called on it."""
    if shared is None:
        return build(spec)
    if shared.get("kind") == "moved" and shared.get("g") is not None:
        g = shared["g"]
        g2 = build(spec)
        if g2.num_cells != g.num_cells or g2.num_faces != g.num_faces:
            raise RuntimeError("moved pair must have identical topology")
        g.nodes = g2.nodes.copy()
        g.compute_geometry()
        return g
    g = build(spec)
    shared["g"] = g
    return g
