"""Group B helper: small fully coupled, non-linear equation systems on the md-grids of
``grpB_dofmodel`` for the assembly checks C06 / C07.

Every equation is ``sum_v (A_v @ v) * (B_v @ v) + c`` over all md-variables v of the system
with dense *integer* coefficient matrices, evaluated at integer states: all arithmetic is
exact in float64, every Jacobian block is structurally full and all rows / columns of the
full Jacobian are pairwise different (verified when the system is built), so a wrong or
permuted slice cannot coincide with the right one.

Nothing here serves as an oracle for values: the reference of C06 is the fully assembled
system itself, the reference of C07 a dense ``numpy.linalg.solve``. What *is* reference
material is the row bookkeeping (``row_blocks``), computed from grid sizes only.
"""

from __future__ import annotations

import numpy as np

from mc.oracles import grpB_dofmodel as dm

# equation alphabet: name -> (grid ranks in the order *passed* to set_equation, dofs)
EQS = {
    "G1": {
        "e_sub": ((0, 1), {"cells": 1}),
        "e_top": ((0,), {"cells": 1}),
        "e_int": ((2,), {"cells": 1}),
        "e_face": ((0, 1), {"faces": 1}),
        "e_two": ((1, 0), {"cells": 2}),
    },
    "G2": {
        "e_sub": ((0, 1, 2, 3), {"cells": 1}),
        "e_top": ((0,), {"cells": 1}),
        "e_int": ((4, 5, 6, 7), {"cells": 1}),
        "e_face": ((3, 2, 1, 0), {"faces": 1}),
        "e_two": ((1, 0), {"cells": 2}),
    },
}

ORDERS = {
    "O1": [["set", "e_sub"], ["set", "e_top"], ["set", "e_int"], ["set", "e_face"], ["set", "e_two"]],
    "O2": [["set", "e_two"], ["set", "e_int"], ["set", "e_face"], ["set", "e_top"], ["set", "e_sub"]],
    # ends as e_int, e_face, e_two, e_sub (removed and set again), e_top (updated -> moved last)
    "O3": [["set", "e_sub"], ["set", "e_top"], ["set", "e_int"], ["set", "e_face"], ["set", "e_two"],
           ["remove", "e_sub"], ["set", "e_sub"], ["update", "e_top"]],
}

VARS = {
    "G1": {
        "V1": [["create", "a", 0], ["create", "b", 4], ["create", "c", 2]],
        "V2": [["create", "a", 3], ["create", "c", 4], ["create", "b", 1]],
        # name a lives on a subdomain *and* on the interface; creation order != block order
        "V3": [["create", "a", 0], ["create", "b", 0], ["create", "a", 4], ["rm_atomic", 0], ["create", "c", 1]],
    },
    "G2": {
        "V1": [["create", "a", 0], ["create", "b", 4], ["create", "c", 3]],
    },
}


def eq_order(program) -> list[str]:
    """Reference: names in the order the equations were (last) set."""
    order: list[str] = []
    for op, name in program:
        if op == "set":
            order.append(name)
        elif op == "remove":
            order.remove(name)
        elif op == "update":
            order.remove(name)
            order.append(name)
    return order


def coeff(r: int, c: int, seed: int) -> np.ndarray:
    i = np.arange(r)[:, None]
    j = np.arange(c)[None, :]
    return (((i + 1) * (j + 2) * (seed + 3) + 5 * i * i + 3 * j * j) % 97 % 11 + 1).astype(float)


class System:
    def __init__(self, grid: str, dofmap: str, vkey: str, okey: str, extra_eqs=None):
        import porepy as pp
        import scipy.sparse as sps

        self.pp, self.sps = pp, sps
        self.grid, self.vkey, self.okey = grid, vkey, okey
        self.sys = dm.Sys(grid, dofmap)
        for op in VARS[grid][vkey]:
            e = self.sys.apply(op)
            if e is not None:
                raise RuntimeError(f"system construction failed: {op}: {e!r}")
        self.es = self.sys.es
        self.mdg = self.sys.mdg
        self.domains = self.sys.domains
        self.nsd = self.sys.nsd
        self.live = self.sys.live
        self.N = self.es.num_dofs()
        # variable groups (name, kind) in creation order of their first member
        self.groups: dict = {}
        for k, v in enumerate(self.live):
            kind = "sd" if self.sys.rank_of(v) < self.nsd else "intf"
            self.groups.setdefault((v.name, kind), []).append(k)
        self.mdvars = {key: self.es.md_variable(key[0], [self.live[k].domain for k in ks])
                       for key, ks in self.groups.items()}
        self.eqspec = dict(EQS[grid])
        if extra_eqs:
            self.eqspec.update(extra_eqs)
        self.program = [list(o) for o in ORDERS[okey]] if isinstance(okey, str) else [list(o) for o in okey]
        self.ops: dict = {}
        self._seed = 0
        for op, name in self.program:
            if op == "set":
                self._set(name)
            elif op == "remove":
                self.es.remove_equation(name)
            elif op == "update":
                self.es.update_equation(name, self._operator(name))
                self.ops[name] = self.es.equations[name]
        self.order = eq_order(self.program)

    # ---- reference row bookkeeping (from grid sizes only)
    def grid_rows(self, name: str, rank: int) -> int:
        d = self.eqspec[name][1]
        g = self.domains[rank]
        n = g.num_cells * d.get("cells", 0)
        if rank < self.nsd:
            n += g.num_faces * d.get("faces", 0) + g.num_nodes * d.get("nodes", 0)
        return int(n)

    def eq_ranks(self, name: str) -> list[int]:
        """Grids of an equation in md-grid order."""
        return sorted(self.eqspec[name][0])

    def eq_rows(self, name: str) -> int:
        return sum(self.grid_rows(name, r) for r in self.eq_ranks(name))

    def local_rows(self, name: str, ranks) -> list[int]:
        """Row numbers inside the equation's own block belonging to the given grids, in
        md-grid order (independent of the order of ``ranks``)."""
        out: list[int] = []
        pos = 0
        for r in self.eq_ranks(name):
            n = self.grid_rows(name, r)
            if r in ranks:
                out.extend(range(pos, pos + n))
            pos += n
        return out

    def offsets(self) -> dict:
        off, pos = {}, 0
        for name in self.order:
            off[name] = pos
            pos += self.eq_rows(name)
        return off

    # ---- operators
    def _operator(self, name: str):
        pp, sps = self.pp, self.sps
        rows = self.eq_rows(name)
        self._seed += 17
        eq = None
        for k, (key, mv) in enumerate(self.mdvars.items()):
            size = int(sum(self.es.dofs_of([self.live[i]]).size for i in self.groups[key]))
            A = pp.ad.SparseArray(sps.csr_matrix(coeff(rows, size, self._seed + 2 * k)))
            B = pp.ad.SparseArray(sps.csr_matrix(coeff(rows, size, self._seed + 2 * k + 1)))
            t = (A @ mv) * (B @ mv)
            eq = t if eq is None else eq + t
        eq = eq + pp.ad.DenseArray(np.arange(rows) + 1.0 + self._seed)
        eq.set_name(name)
        return eq

    def _set(self, name: str):
        ranks, dof = self.eqspec[name]
        op = self._operator(name)
        self.es.set_equation(op, [self.domains[r] for r in ranks], dict(dof))
        self.ops[name] = op

    # ---- states
    def x_storage(self) -> np.ndarray:
        return np.arange(self.N) % 7 + 1.0

    def x_given(self) -> np.ndarray:
        return (np.arange(self.N) * 3) % 5 + 2.0

    def store(self, x: np.ndarray):
        self.es.set_variable_values(x.copy(), None, time_step_index=0, iterate_index=0)
