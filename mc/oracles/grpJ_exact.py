"""Exact rational helpers shared by the group J checks (C31-C34).

Everything here works on ``fractions.Fraction`` built from the *actual* float64 (or
integer) inputs handed to PorePy, so the answers are the exact answers for exactly those
inputs. Nothing in this module imports porepy.
"""

from __future__ import annotations

from fractions import Fraction as F


def fr(x) -> F:
    """Exact rational value of a Python/numpy number."""
    if isinstance(x, F):
        return x
    if isinstance(x, int):
        return F(x)
    try:
        import numpy as np

        if isinstance(x, np.integer):
            return F(int(x))
    except Exception:  # pragma: no cover
        pass
    return F(float(x))


def vec(p) -> tuple:
    return tuple(fr(x) for x in p)


def sub(p, q) -> tuple:
    return tuple(a - b for a, b in zip(p, q))


def dot(p, q) -> F:
    return sum((a * b for a, b in zip(p, q)), F(0))


def cross(p, q) -> tuple:
    return (p[1] * q[2] - p[2] * q[1], p[2] * q[0] - p[0] * q[2], p[0] * q[1] - p[1] * q[0])


def dist2(p, q) -> F:
    d = sub(p, q)
    return dot(d, d)


def sign(x) -> int:
    return (x > 0) - (x < 0)


# ----------------------------------------------------------------------- orientation


def orient2d(a, b, c) -> F:
    """Twice the signed area of triangle abc (positive = counter-clockwise)."""
    return (b[0] - a[0]) * (c[1] - a[1]) - (b[1] - a[1]) * (c[0] - a[0])


def orient3d(a, b, c, d) -> F:
    """Six times the signed volume of tetrahedron abcd: (b-a) x (c-a) . (d-a)."""
    return dot(cross(sub(b, a), sub(c, a)), sub(d, a))


def on_segment_2d(p, a, b) -> bool:
    if orient2d(a, b, p) != 0:
        return False
    return min(a[0], b[0]) <= p[0] <= max(a[0], b[0]) and min(a[1], b[1]) <= p[1] <= max(a[1], b[1])


def point_in_polygon_2d(p, poly) -> str:
    """'in' / 'out' / 'boundary' for a simple polygon (list of exact 2-vectors).

    Winding number by the crossing rule with exact orientation tests; orientation
    (cw / ccw) of the polygon is irrelevant.
    """
    n = len(poly)
    wn = 0
    for i in range(n):
        a, b = poly[i], poly[(i + 1) % n]
        if on_segment_2d(p, a, b):
            return "boundary"
        if a[1] <= p[1]:
            if b[1] > p[1] and orient2d(a, b, p) > 0:
                wn += 1
        else:
            if b[1] <= p[1] and orient2d(a, b, p) < 0:
                wn -= 1
    return "in" if wn != 0 else "out"


def polygon_area2(poly) -> F:
    """Twice the signed area (positive = ccw)."""
    s = F(0)
    n = len(poly)
    for i in range(n):
        a, b = poly[i], poly[(i + 1) % n]
        s += a[0] * b[1] - a[1] * b[0]
    return s


def point_in_triangle_3d(p, a, b, c) -> bool:
    """p (assumed coplanar with abc) lies in the closed triangle abc."""
    n = cross(sub(b, a), sub(c, a))
    s1 = dot(cross(sub(b, a), sub(p, a)), n)
    s2 = dot(cross(sub(c, b), sub(p, b)), n)
    s3 = dot(cross(sub(a, c), sub(p, c)), n)
    return s1 >= 0 and s2 >= 0 and s3 >= 0


def winding_number_3d(p, verts, tris) -> F | None:
    """Exact winding number of a closed triangulated surface around p, or None if p lies on
    the surface.

    A ray is shot from p in a generic rational direction; every triangle whose interior is
    crossed contributes +1 if the ray leaves through its front side (normal (b-a)x(c-a)
    pointing along the ray) and -1 otherwise. If the ray line meets an edge or a vertex of
    a candidate triangle the direction is discarded and the next one is tried, so no
    tie-breaking rule is needed. A consistently outward oriented simple surface gives 1
    inside and 0 outside.

    verts: list of exact 3-vectors; tris: list of index triples.
    """
    for t in tris:
        a, b, c = (verts[i] for i in t)
        if orient3d(a, b, c, p) == 0 and point_in_triangle_3d(p, a, b, c):
            return None
    # generic direction: try a list of 'irrational-looking' rational directions
    dirs = [(F(1009, 1000), F(337, 1000), F(173, 1000)), (F(-311, 1000), F(1013, 1000), F(571, 1000)),
            (F(97, 1000), F(-433, 1000), F(1019, 1000)), (F(701, 997), F(-211, 991), F(-419, 983))]
    for d in dirs:
        q = tuple(pi + di for pi, di in zip(p, d))  # second point on the ray
        wn = 0
        degenerate = False
        for t in tris:
            a, b, c = (verts[i] for i in t)
            # signed volumes
            va = orient3d(p, q, a, b)
            vb = orient3d(p, q, b, c)
            vc = orient3d(p, q, c, a)
            if va == 0 or vb == 0 or vc == 0:
                # ray line passes through an edge/vertex line of this triangle: only a
                # problem if it could be a hit; be conservative and switch direction
                if (va >= 0 and vb >= 0 and vc >= 0) or (va <= 0 and vb <= 0 and vc <= 0):
                    degenerate = True
                    break
                continue
            if (va > 0) == (vb > 0) == (vc > 0):
                # the line hits the triangle interior; is it on the positive side of p?
                n = cross(sub(b, a), sub(c, a))
                denom = dot(n, d)
                if denom == 0:
                    degenerate = True
                    break
                tpar = dot(n, sub(a, p)) / denom
                if tpar > 0:
                    wn += 1 if denom > 0 else -1
        if not degenerate:
            return F(wn)
    raise RuntimeError("no generic ray direction found")
