"""Closed-form affine vector / scalar fields and boundary-assignment enumerators
shared by the group F checks (C13, C15, C16, C18)."""

from __future__ import annotations

import itertools

import numpy as np

from mc.oracles import grpF_grids as G


def affine_vector_basis(d, rotations=True):
    """[(label, kind, a (d,), Gm (d,d))]: u(x) = a + Gm x.

    Basis of the affine vector fields (translations e_i, x_j e_i); optionally the
    infinitesimal rigid rotations (x_j e_i - x_i e_j), which are linear combinations of
    the basis and have zero stress.
    """
    out = []
    for i in range(d):
        a = np.zeros(d)
        a[i] = 1.0
        out.append((f"e{i}", "transl", a, np.zeros((d, d))))
    for i in range(d):
        for j in range(d):
            Gm = np.zeros((d, d))
            Gm[i, j] = 1.0
            out.append((f"x{j}e{i}", "lin", np.zeros(d), Gm))
    if rotations:
        for i in range(d):
            for j in range(i + 1, d):
                Gm = np.zeros((d, d))
                Gm[i, j] = -1.0
                Gm[j, i] = 1.0
                out.append((f"rot{i}{j}", "rot", np.zeros(d), Gm))
    return out


def hooke(mu, lam, Gm):
    d = Gm.shape[0]
    eps = 0.5 * (Gm + Gm.T)
    return 2.0 * mu * eps + lam * np.trace(eps) * np.eye(d)


# --------------------------------------------------------------------- assignments


def sides(spec, g):
    """Boundary faces grouped by the side of the reference unit box they lie on
    (decided on the unperturbed reference node coordinates, so it is well defined for
    perturbed / mapped grids). Returns list of sorted face-index lists, 2*d entries."""
    ref = G.reference_nodes(spec)
    d = g.dim
    fn = g.face_nodes.tocsc()
    out = []
    for k in range(d):
        for val in (0.0, 1.0):
            fs = []
            for f in G.boundary_faces(g):
                nn = fn.indices[fn.indptr[f] : fn.indptr[f + 1]]
                if np.all(np.abs(ref[k, nn] - val) < 1e-9):
                    fs.append(int(f))
            out.append(fs)
    return out


def admissible(neu, adj):
    """No two Neumann faces in ``adj`` (set of sorted pairs)."""
    neu = sorted(neu)
    return not any((a, b) in adj for a, b in itertools.combinations(neu, 2))


def enumerate_assignments(assign, spec, g, restrict3d=True):
    """Deterministic list of Neumann-face sets (sorted tuples of face indices) for the
    assignment descriptor ``assign``; all other boundary faces are Dirichlet.

    modes:
      {"mode": "masks", "lo": a, "hi": b}  bit i of mask <-> i-th boundary face Neumann
      {"mode": "indep", "max_size": k, "part": i, "nparts": m}
            every admissible set of <= k Neumann faces (3-d: pairwise not sharing an
            edge; lower dimensions: any set), the i-th residue class of the enumeration
      {"mode": "sides", "part": i, "nparts": m}
            every admissible union of whole sides of the reference box

    ``restrict3d=False`` drops the 3-d "no two Neumann faces share an edge" restriction
    (it belongs to the MPSA property C13 only).
    """
    bf = [int(f) for f in G.boundary_faces(g)]
    adj = G.edge_adjacent_pairs(g) if (g.dim == 3 and restrict3d) else set()
    mode = assign["mode"]
    if mode == "masks":
        res = []
        for m in range(assign["lo"], assign["hi"]):
            neu = tuple(bf[i] for i in range(len(bf)) if (m >> i) & 1)
            if admissible(neu, adj):
                res.append(neu)
        return res
    if mode == "indep":
        allsets = []
        for k in range(assign["max_size"] + 1):
            for c in itertools.combinations(bf, k):
                if admissible(c, adj):
                    allsets.append(tuple(c))
        return allsets[assign.get("part", 0) :: assign.get("nparts", 1)]
    if mode == "sides":
        sd = sides(spec, g)
        allsets = []
        for m in range(2 ** len(sd)):
            neu = tuple(sorted(set(f for i in range(len(sd)) if (m >> i) & 1 for f in sd[i])))
            if admissible(neu, adj) and neu not in allsets:
                allsets.append(neu)
        return allsets[assign.get("part", 0) :: assign.get("nparts", 1)]
    raise ValueError(mode)
