"""Lattice polygons / polyhedra for the group J checks and their exact classification.

No porepy import. All coordinates are small integers (or half-integers for queries), so
``fractions.Fraction`` arithmetic is exact for exactly the values handed to PorePy.
"""

from __future__ import annotations

import itertools
from fractions import Fraction as F

from mc.oracles import grpJ_exact as X


# ----------------------------------------------------------------------- 2-d polygons


def _seg_intersect_closed(a, b, c, d) -> bool:
    """Closed segments ab and cd share at least one point (exact)."""
    o1, o2 = X.orient2d(a, b, c), X.orient2d(a, b, d)
    o3, o4 = X.orient2d(c, d, a), X.orient2d(c, d, b)
    if X.sign(o1) * X.sign(o2) < 0 and X.sign(o3) * X.sign(o4) < 0:
        return True
    return (
        (o1 == 0 and X.on_segment_2d(c, a, b)) or (o2 == 0 and X.on_segment_2d(d, a, b))
        or (o3 == 0 and X.on_segment_2d(a, c, d)) or (o4 == 0 and X.on_segment_2d(b, c, d))
    )


def is_simple_polygon(poly) -> bool:
    """Vertices pairwise distinct, non-adjacent edges disjoint, adjacent edges meet only in
    their common vertex (no back-tracking), non-zero area."""
    n = len(poly)
    if n < 3 or len(set(poly)) != n:
        return False
    if X.polygon_area2(poly) == 0:
        return False
    for i in range(n):
        a, b = poly[i], poly[(i + 1) % n]
        for j in range(i + 1, n):
            c, d = poly[j], poly[(j + 1) % n]
            adjacent = (j == i + 1) or (i == 0 and j == n - 1)
            if not adjacent:
                if _seg_intersect_closed(a, b, c, d):
                    return False
            else:
                # share exactly one vertex; overlap only if collinear and pointing back
                if j == i + 1:
                    p, q, r = a, b, d  # a->b->d, common vertex b
                else:
                    p, q, r = c, a, b  # c->a->b (d == a), common vertex a
                if X.orient2d(p, q, r) == 0:
                    # collinear: must continue forward (q strictly between p and r)
                    if not (X.on_segment_2d(q, p, r) and q != p and q != r):
                        return False
    return True


def lattice_polygons(m, k, first):
    """All simple polygons with k distinct vertices on {0..m}^2 whose first vertex has
    lattice index ``first`` (vertex order and orientation as enumerated: every cyclic shift
    and both orientations of a polygon appear as separate members over all ``first``)."""
    pts = [(x, y) for x in range(m + 1) for y in range(m + 1)]
    p0 = pts[first]
    others = [p for p in pts if p != p0]
    out = []
    for rest in itertools.permutations(others, k - 1):
        poly = [p0] + list(rest)
        fp = [(F(x), F(y)) for x, y in poly]
        if k == 3:
            if X.orient2d(*fp) == 0:
                continue
        elif not is_simple_polygon(fp):
            continue
        out.append(poly)
    return out


# curated non-convex / degenerate-vertex shapes on {0..3}^2 (counter-clockwise as listed)
SHAPES = {
    "L": [(0, 0), (2, 0), (2, 1), (1, 1), (1, 2), (0, 2)],
    "L3": [(0, 0), (3, 0), (3, 1), (1, 1), (1, 3), (0, 3)],
    "U": [(0, 0), (3, 0), (3, 3), (2, 3), (2, 1), (1, 1), (1, 3), (0, 3)],
    "T": [(0, 2), (1, 2), (1, 0), (2, 0), (2, 2), (3, 2), (3, 3), (0, 3)],
    "dart": [(0, 0), (3, 1), (0, 3), (1, 1)],
    "arrow": [(0, 0), (2, 1), (3, 0), (2, 3)],
    "square_mid": [(0, 0), (1, 0), (2, 0), (2, 2), (1, 2), (0, 2), (0, 1)],  # collinear vertices
    "tri_mid": [(0, 0), (2, 0), (3, 0), (3, 3), (2, 2)],  # collinear vertices on two sides
    "zig": [(0, 0), (1, 1), (2, 0), (3, 1), (3, 3), (2, 2), (1, 3), (0, 2)],
    "stair": [(0, 0), (3, 0), (3, 3), (2, 3), (2, 2), (1, 2), (1, 1), (0, 1)],
}


def symmetries(poly, m=3):
    """Images under the 8 symmetries of the square [0,m]^2 (reflections reverse orientation)."""
    out = []
    for k in range(8):
        q = []
        for (x, y) in poly:
            if k & 4:
                x, y = y, x
            if k & 1:
                x = m - x
            if k & 2:
                y = m - y
            q.append((x, y))
        out.append(q)
    return out


def half_lattice_2d(lo, hi):
    """Half-integer lattice points (as exact doubles) of [lo, hi]^2."""
    n = int(round((hi - lo) * 2)) + 1
    return [(lo + i / 2.0, lo + j / 2.0) for i in range(n) for j in range(n)]


# ----------------------------------------------------------------------- polyhedra


def voxel_surface(voxels):
    """Boundary unit squares of a union of unit voxels; every face listed counter-clockwise
    seen from outside. Returns list of faces, each a list of four integer 3-tuples."""
    S = set(voxels)
    faces = []
    for (i, j, k) in voxels:
        for ax in range(3):
            for s in (0, 1):
                nb = [i, j, k]
                nb[ax] += 1 if s else -1
                if tuple(nb) in S:
                    continue
                o = [i, j, k]
                o[ax] += s
                a1, a2 = [(ax + 1) % 3, (ax + 2) % 3]
                corners = [(0, 0), (1, 0), (1, 1), (0, 1)]
                if not s:
                    corners = corners[::-1]
                f = []
                for (d1, d2) in corners:
                    p = list(o)
                    p[a1] += d1
                    p[a2] += d2
                    f.append(tuple(p))
                faces.append(f)
    return faces


def _scaled(faces, s):
    return [[tuple(s * c for c in p) for p in f] for f in faces]


def polyhedra():
    """name -> (faces [outward, ccw from outside], convex?)"""
    tet_v = [(0, 0, 0), (2, 0, 0), (0, 2, 0), (0, 0, 2)]
    tet = [[tet_v[0], tet_v[2], tet_v[1]], [tet_v[0], tet_v[1], tet_v[3]], [tet_v[0], tet_v[3], tet_v[2]], [tet_v[1], tet_v[2], tet_v[3]]]
    # a skew tetrahedron: only its base is parallel to a coordinate plane
    tet2_v = [(0, 0, 0), (2, 1, 0), (1, 2, 0), (1, 1, 2)]
    tet2 = [[tet2_v[0], tet2_v[2], tet2_v[1]], [tet2_v[0], tet2_v[1], tet2_v[3]], [tet2_v[0], tet2_v[3], tet2_v[2]], [tet2_v[1], tet2_v[2], tet2_v[3]]]
    return {
        "cube2": (_scaled(voxel_surface([(0, 0, 0)]), 2), True),
        "box211": (voxel_surface([(0, 0, 0), (1, 0, 0)]), True),
        "tet": (tet, True),
        "tet2": (tet2, True),
        "Lprism": (voxel_surface([(0, 0, 0), (1, 0, 0), (0, 1, 0)]), False),
        "corner3d": (voxel_surface([(0, 0, 0), (1, 0, 0), (0, 1, 0), (0, 0, 1)]), False),
        "Uprism": (voxel_surface([(0, 0, 0), (1, 0, 0), (2, 0, 0), (0, 1, 0), (2, 1, 0)]), False),
        # scaled copies: more strictly interior half-integer points
        "tet_x2": (_scaled(tet, 2), True),
        "tet2_x2": (_scaled(tet2, 2), True),
        "Lprism_x2": (_scaled(voxel_surface([(0, 0, 0), (1, 0, 0), (0, 1, 0)]), 2), False),
    }


def fan_triangles(faces):
    """Vertex list and outward-oriented triangles (fan triangulation of convex faces)."""
    verts, index, tris = [], {}, []
    for f in faces:
        ids = []
        for p in f:
            if p not in index:
                index[p] = len(verts)
                verts.append(tuple(F(c) for c in p))
            ids.append(index[p])
        for k in range(1, len(ids) - 1):
            tris.append((ids[0], ids[k], ids[k + 1]))
    return verts, tris


def classify_point_polyhedron(p, verts, tris) -> str:
    wn = X.winding_number_3d(tuple(X.fr(c) for c in p), verts, tris)
    if wn is None:
        return "boundary"
    if wn == 1:
        return "in"
    if wn == 0:
        return "out"
    raise AssertionError(f"harness: winding number {wn} for a simple outward-oriented surface")


def half_lattice_3d(lo, hi):
    rng = [[l + i / 2.0 for i in range(int(round((h - l) * 2)) + 1)] for l, h in zip(lo, hi)]
    return [(x, y, z) for x in rng[0] for y in rng[1] for z in rng[2]]


def face_planes(faces):
    """Outward normal (integer, not normalised) and a point for every face."""
    out = []
    for f in faces:
        a, b, c = (tuple(F(x) for x in f[i]) for i in range(3))
        n = X.cross(X.sub(b, a), X.sub(c, a))
        out.append((n, a))
    return out
