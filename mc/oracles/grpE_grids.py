"""Group E helpers: grid alphabet, permeability alphabet, boundary-assignment alphabet.

Everything here is *input construction* (letters of the alphabets) plus closed-form
reference values for linear fields. Nothing in this file calls a discretization.

Grid spec (JSON-able dict)::

    {"kind": "C" | "T" | "Tet" | "Tensor" | "Prism", "n": [nx, ny(, nz)],   # C/T/Tet; Prism: + "z": [z0, z1, ...]
     "coords": [[...], [...]],                                         # Tensor
     "pert": [[node, [ix, iy, iz]], ...],     # node offsets in units of 0.1 (h = 1)
     "affine": "id" | "shear" | "rotscale",  # exact dyadic affine image
     "scale": 1e-3 | 1e3,                    # uniform scaling of all node coordinates
     "periodic": [axis, ...],                # C/Tensor only: identify low/high sides
     "embed": "rx45" | "gen" | "gen2"}       # 2-d only: rotate into a tilted plane of 3-d space and translate

All grids have unit spacing before perturbation (except Tensor). Perturbing nodes of
hexahedra would make faces non-planar, so ``pert`` is only admitted for 2-d grids and for
simplex grids; affine images keep planarity for every cell type.
"""

from __future__ import annotations

import itertools

import numpy as np

# ----------------------------------------------------------------------------- grids

AFFINE = {
    2: {
        "id": np.eye(3),
        # exact dyadic entries, det > 0, moderate condition number
        "shear": np.array([[1.0, 0.5, 0.0], [0.25, 1.0, 0.0], [0.0, 0.0, 1.0]]),
        "rotscale": np.array([[0.75, -0.5, 0.0], [0.5, 1.25, 0.0], [0.0, 0.0, 1.0]]),
    },
    3: {
        "id": np.eye(3),
        "shear": np.array([[1.0, 0.5, 0.25], [0.0, 1.0, 0.5], [0.25, 0.0, 1.0]]),
        "rotscale": np.array([[0.75, -0.5, 0.25], [0.5, 1.25, 0.0], [-0.25, 0.25, 1.0]]),
    },
    1: {"id": np.eye(3)},
}


def _rodrigues(axis, angle):
    a = np.array(axis, dtype=float)
    a /= np.linalg.norm(a)
    A = np.array([[0, -a[2], a[1]], [a[2], 0, -a[0]], [-a[1], a[0], 0]])
    return np.eye(3) + np.sin(angle) * A + (1 - np.cos(angle)) * (A @ A)


# orthogonal maps (all non-symmetric) used to embed planar 2-d grids in a tilted plane of 3-d space
EMBED = {
    "rx45": _rodrigues([1.0, 0.0, 0.0], np.pi / 4),
    "gen": _rodrigues([1.0, 2.0, 0.5], 0.7),
    "gen2": _rodrigues([-1.0, 0.5, 2.0], 2.1),
}
EMBED_SHIFT = np.array([0.3, -1.2, 0.7])


def grid_name(spec) -> str:
    if spec["kind"] == "Tensor":
        s = "Tensor(" + ";".join(",".join(f"{v:g}" for v in c) for c in spec["coords"]) + ")"
    elif spec["kind"] == "Prism":
        s = f"Prism({','.join(str(v) for v in spec['n'])};z=" + ",".join(f"{v:g}" for v in spec["z"]) + ")"
    else:
        s = f"{spec['kind']}({','.join(str(v) for v in spec['n'])})"
    if spec.get("pert"):
        s += "~" + "".join(f"[{k}:{','.join(str(v) for v in o)}]" for k, o in spec["pert"])
    if spec.get("affine", "id") != "id":
        s += "@" + spec["affine"]
    if spec.get("scale", 1.0) != 1.0:
        s += f"*{spec['scale']:g}"
    if spec.get("periodic"):
        s += "/per" + "".join("xyz"[a] for a in spec["periodic"])
    if spec.get("embed"):
        s += "^" + spec["embed"]
    return s


def build_grid(spec):
    """Return (grid with geometry, info). info: 'side' = array over boundary faces giving
    the side index (2*axis + (0 low | 1 high)) measured on the unperturbed, unmapped
    grid; 'bfaces' = boundary faces (sorted); 'sgn' = +1/-1 outward orientation of the
    boundary face normal (from the cell-face incidence); 'interior_nodes'."""
    import porepy as pp

    kind = spec["kind"]
    if kind == "C":
        n = spec["n"]
        g = pp.CartGrid(n[0]) if len(n) == 1 else pp.CartGrid(np.array(n))
        ext = [(0.0, float(v)) for v in n]
    elif kind == "T":
        g = pp.StructuredTriangleGrid(np.array(spec["n"]))
        ext = [(0.0, float(v)) for v in spec["n"]]
    elif kind == "Tet":
        g = pp.StructuredTetrahedralGrid(np.array(spec["n"]))
        ext = [(0.0, float(v)) for v in spec["n"]]
    elif kind == "Prism":
        # triangular prisms: structured triangle grid extruded along z (quadrilateral
        # lateral faces, triangular top/bottom faces)
        gb = pp.StructuredTriangleGrid(np.array(spec["n"]))
        gb.compute_geometry()
        zs = np.array(spec["z"], dtype=float)
        g, _, _ = pp.grid_extrusion.extrude_grid(gb, zs)
        ext = [(0.0, float(v)) for v in spec["n"]] + [(float(zs[0]), float(zs[-1]))]
    elif kind == "Tensor":
        cs = [np.array(c, dtype=float) for c in spec["coords"]]
        g = pp.TensorGrid(*cs)
        ext = [(float(c[0]), float(c[-1])) for c in cs]
    else:
        raise ValueError(kind)
    g.compute_geometry()
    dim = g.dim
    bfaces = np.sort(g.get_all_boundary_faces())
    fc = g.face_centers[:, bfaces]
    side = -np.ones(bfaces.size, dtype=int)
    for ax in range(dim):
        side[np.abs(fc[ax] - ext[ax][0]) < 1e-12] = 2 * ax
        side[np.abs(fc[ax] - ext[ax][1]) < 1e-12] = 2 * ax + 1
    assert np.all(side >= 0)
    bnodes = set(int(v) for v in g.get_all_boundary_nodes())
    interior_nodes = [k for k in range(g.num_nodes) if k not in bnodes]

    pert = spec.get("pert") or []
    if pert:
        if dim == 3 and kind != "Tet":  # (prisms have quadrilateral faces as well)
            raise ValueError("node perturbation of hexahedra gives non-planar faces")
        for node, off in pert:
            o = np.zeros(3)
            o[: len(off)] = 0.1 * np.array(off, dtype=float)
            g.nodes[:, node] += o
    A = AFFINE[dim][spec.get("affine", "id")]
    if spec.get("affine", "id") != "id":
        g.nodes = A @ g.nodes
    scale = float(spec.get("scale", 1.0))
    if scale != 1.0:
        g.nodes = scale * g.nodes
    plane_normal = None
    if spec.get("embed"):
        assert dim == 2
        Q = EMBED[spec["embed"]]
        g.nodes = Q @ g.nodes + scale * EMBED_SHIFT[:, None]
        plane_normal = Q[:, 2].copy()
    if pert or spec.get("affine", "id") != "id" or scale != 1.0 or spec.get("embed"):
        g.compute_geometry()
    periodic_pairs = None
    per = spec.get("periodic") or []
    if per:
        assert kind in ("C", "Tensor") and not pert and spec.get("affine", "id") == "id"
        pairs = []
        for ax in per:
            lo = bfaces[side == 2 * ax]
            hi = bfaces[side == 2 * ax + 1]
            assert lo.size == hi.size and lo.size > 0
            others = [a for a in range(dim) if a != ax]
            for a_, b_ in zip(lo, hi):  # matching faces: same transverse coordinates
                assert np.allclose(g.face_centers[others, a_], g.face_centers[others, b_])
                pairs.append((int(a_), int(b_)))
        pairs.sort()
        pm = np.array(pairs, dtype=int).T
        assert np.all(np.diff(pm[0]) > 0) and np.all(np.diff(pm[1]) > 0)
        g.set_periodic_map(pm)
        periodic_pairs = pm
        keep = ~np.isin(bfaces, pm.ravel())
        bfaces, side = bfaces[keep], side[keep]
    cf = g.cell_faces.tocsr()
    sgn = np.array([cf[f].data[0] for f in bfaces], dtype=float)
    # sanity of the letter itself (not of the code under test): positive volumes
    assert np.all(g.cell_volumes > 0)
    info = {"bfaces": bfaces, "side": side, "sgn": sgn, "interior_nodes": interior_nodes, "dim": dim,
            "periodic_pairs": periodic_pairs, "plane_normal": plane_normal}
    return g, info


def offsets(dim, nonzero_only=False):
    """Lattice offsets {0, +-1}^dim (in units of 0.1 h), simplest first."""
    offs = sorted(itertools.product((0, 1, -1), repeat=dim), key=lambda o: (sum(map(abs, o)), o))
    if nonzero_only:
        offs = [o for o in offs if any(o)]
    return [list(o) for o in offs]


# ----------------------------------------------------------------------------- tensors

K_LETTERS = ("I", "diag", "full", "rot")


def k_matrix(letter: str, dim: int) -> np.ndarray:
    """Constant 3x3 SPD tensor (for dim < 3 the unused block is the identity)."""
    K = np.eye(3)
    if letter == "I":
        pass
    elif letter == "diag":
        K = np.diag([1.0, 4.0, 9.0 if dim == 3 else 1.0])
        if dim == 1:
            K = np.diag([4.0, 1.0, 1.0])
    elif letter == "full":
        if dim == 3:
            K = np.array([[2.0, 0.5, 0.5], [0.5, 1.0, 0.5], [0.5, 0.5, 3.0]])
        elif dim == 2:
            K = np.array([[2.0, 0.5, 0.0], [0.5, 1.0, 0.0], [0.0, 0.0, 1.0]])
        else:
            K = np.diag([2.0, 1.0, 1.0])
    elif letter == "rot":
        # rotated anisotropic tensor, anisotropy ratio 10 (cond = 10)
        c, s = 0.8, 0.6  # exact rotation (3-4-5)
        R2 = np.array([[c, -s, 0.0], [s, c, 0.0], [0.0, 0.0, 1.0]])
        if dim == 3:
            R3 = np.array([[1.0, 0.0, 0.0], [0.0, c, -s], [0.0, s, c]])
            R = R2 @ R3
            K = R @ np.diag([1.0, 10.0, 3.0]) @ R.T
        elif dim == 2:
            K = R2 @ np.diag([1.0, 10.0, 1.0]) @ R2.T
        else:
            K = np.diag([10.0, 1.0, 1.0])
    elif letter == "plane":
        # anisotropic within the xy-plane, not aligned with its axes, plane normal principal
        K = np.array([[3.0, 1.2, 0.0], [1.2, 2.0, 0.0], [0.0, 0.0, 0.7]])
    else:
        raise ValueError(letter)
    K = 0.5 * (K + K.T)
    assert np.all(np.linalg.eigvalsh(K) > 0)
    return K


def tensor_from_matrix(K: np.ndarray, nc: int):
    import porepy as pp

    o = np.ones(nc)
    return pp.SecondOrderTensor(
        kxx=K[0, 0] * o, kyy=K[1, 1] * o, kzz=K[2, 2] * o, kxy=K[0, 1] * o, kxz=K[0, 2] * o, kyz=K[1, 2] * o
    )


def hetdiag_values(nc: int, dim: int) -> np.ndarray:
    """Cell-wise heterogeneous diagonal tensor entries, shape (3, nc); small integers."""
    c = np.arange(nc)
    v = np.ones((3, nc))
    v[0] = 1.0 + (c % 3)
    if dim >= 2:
        v[1] = 1.0 + ((2 * c + 1) % 5)
    if dim >= 3:
        v[2] = 1.0 + ((3 * c + 2) % 4)
    return v


def tensor_hetdiag(nc: int, dim: int):
    import porepy as pp

    v = hetdiag_values(nc, dim)
    return pp.SecondOrderTensor(kxx=v[0], kyy=v[1], kzz=v[2])


# ----------------------------------------------------------------------------- boundary assignments


def all_assignments(nb: int):
    """All 2^nb Dirichlet(1)/Neumann(0) assignments as integers (bit i = boundary face i)."""
    return list(range(1 << nb))


def side_assignments(side: np.ndarray, dim: int):
    """All 2^(2 dim) side-wise assignments, as bit masks over the boundary faces."""
    out = []
    for m in range(1 << (2 * dim)):
        mask = 0
        for i, s in enumerate(side):
            if (m >> int(s)) & 1:
                mask |= 1 << i
        out.append(mask)
    return out


def flip_assignments(side: np.ndarray, dim: int, pairs: bool = True, bases=None):
    """side-wise assignments U all single-face flips U all pairs of flips of the base
    assignments ``bases`` (default: all-Dirichlet and all-Neumann)."""
    nb = len(side)
    full = (1 << nb) - 1
    res = list(side_assignments(side, dim))
    seen = set(res)
    for base in (bases if bases is not None else (full, 0)):
        for i in range(nb):
            m = base ^ (1 << i)
            if m not in seen:
                seen.add(m)
                res.append(m)
        if pairs:
            for i in range(nb):
                for j in range(i + 1, nb):
                    m = base ^ (1 << i) ^ (1 << j)
                    if m not in seen:
                        seen.add(m)
                        res.append(m)
    return res


def mask_to_dir(mask: int, nb: int) -> np.ndarray:
    return np.array([(mask >> i) & 1 for i in range(nb)], dtype=bool)


def make_bc(g, bfaces: np.ndarray, is_dir: np.ndarray):
    import porepy as pp

    if len(bfaces) == 0:
        return pp.BoundaryCondition(g)
    labels = np.where(is_dir, "dir", "neu").tolist()
    return pp.BoundaryCondition(g, bfaces, labels)


def num_boundary_faces(spec) -> int:
    """Number of (non-periodic) boundary faces of a grid letter, from the letter alone."""
    kind = spec["kind"]
    if kind in ("C", "Tensor"):
        n = [len(c) - 1 for c in spec["coords"]] if kind == "Tensor" else list(spec["n"])
        per = set(spec.get("periodic") or [])
        if len(n) == 1:
            return 0 if 0 in per else 2
        tot = 0
        for ax in range(len(n)):
            if ax in per:
                continue
            tot += 2 * int(np.prod([n[a] for a in range(len(n)) if a != ax]))
        return tot
    n = spec["n"]
    if kind == "Prism":
        nz = len(spec["z"]) - 1
        return 2 * (n[0] + n[1]) * nz + 2 * (2 * n[0] * n[1])
    if kind == "T":
        return 2 * (n[0] + n[1])
    if kind == "Tet":
        return 4 * (n[0] * n[1] + n[0] * n[2] + n[1] * n[2])
    raise ValueError(kind)


# ----------------------------------------------------------------------------- linear fields


def basis_fields(dim: int):
    """(name, p0, gradient) for the basis {1, x, y[, z]} of linear fields."""
    out = [("1", 1.0, np.zeros(3))]
    for ax in range(dim):
        e = np.zeros(3)
        e[ax] = 1.0
        out.append(("xyz"[ax], 0.0, e))
    return out


def exact_flux(g, K: np.ndarray, grad: np.ndarray) -> np.ndarray:
    """-n_f . K grad p integrated over every face (constant K, linear p)."""
    return -(g.face_normals.T @ (K @ grad))


# ----------------------------------------------------------------------------- purity digest


def digest(*objs) -> str:
    """Bitwise digest of arguments: ndarrays (dtype, shape, bytes), scipy sparse matrices
    (format, shape, and data/indices/indptr in sorted-index order), dicts/lists/tuples, scalars and
    strings, and recursively the ``__dict__`` of any other object (grids, tensors, boundary
    condition objects). Callables and modules are ignored."""
    import hashlib

    import scipy.sparse as sps

    h = hashlib.blake2b(digest_size=16)
    seen = set()

    def feed(x, depth=0):
        if x is None or isinstance(x, (bool, int, float, complex, str, np.generic)):
            h.update(repr(x).encode())
        elif isinstance(x, np.ndarray):
            h.update(str((x.dtype.str, x.shape)).encode())
            if x.dtype == object:
                for v in x.ravel():
                    feed(v, depth + 1)
            else:
                h.update(np.ascontiguousarray(x).tobytes())
        elif sps.issparse(x):
            # semantic content in a canonical storage order: scipy itself sorts the indices
            # of a csr/csc matrix in place on fancy indexing, which is not a mutation of the
            # matrix; stored explicit zeros and duplicates are kept as they are
            h.update(str((x.format, x.shape)).encode())
            if x.format in ("csr", "csc", "bsr"):
                c = x.copy()
                c.sort_indices()
                x = c
            elif x.format == "coo":
                o = np.lexsort((x.col, x.row))
                feed(np.asarray(x.row)[o], depth + 1)
                feed(np.asarray(x.col)[o], depth + 1)
                feed(np.asarray(x.data)[o], depth + 1)
                return
            for name in ("data", "indices", "indptr", "offsets"):
                if hasattr(x, name):
                    feed(np.asarray(getattr(x, name)), depth + 1)
        elif isinstance(x, dict):
            for k in sorted(x, key=repr):
                h.update(repr(k).encode())
                feed(x[k], depth + 1)
        elif isinstance(x, (list, tuple)):
            h.update(str(len(x)).encode())
            for v in x:
                feed(v, depth + 1)
        elif callable(x) or isinstance(x, type(np)):
            pass
        elif hasattr(x, "__dict__"):
            if id(x) in seen or depth > 6:
                return
            seen.add(id(x))
            h.update(type(x).__name__.encode())
            feed(vars(x), depth + 1)
        else:
            h.update(repr(type(x)).encode())

    for o in objs:
        feed(o)
    return h.hexdigest()


def dense_copy(md) -> dict:
    """Flat dict of dense copies of a (possibly nested) matrix dictionary."""
    out = {}
    for k, v in md.items():
        if isinstance(v, dict):
            for kk, vv in v.items():
                out[f"{k}/{kk}"] = np.array(vv.toarray())
        else:
            out[k] = np.array(v.toarray())
    return out


def k_matrix_embedded(letter: str, spec) -> np.ndarray:
    """Constant 3x3 SPD tensor in *global* coordinates for an embedded 2-d grid.
    'Qplane' / 'Qdiag': the tensor 'plane' / diag(1,4,9) carried along with the plane (Q K Q^T);
    other letters: the 3-d tensor of that name taken as it is in global coordinates, so that its
    restriction to the tilted plane is anisotropic and not aligned with the plane axes."""
    Q = EMBED[spec["embed"]]
    if letter == "Qplane":
        K = Q @ k_matrix("plane", 3) @ Q.T
    elif letter == "Qdiag":
        K = Q @ k_matrix("diag", 3) @ Q.T
    else:
        K = k_matrix(letter, 3)
    return 0.5 * (K + K.T)
