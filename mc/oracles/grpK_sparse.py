"""Small sparse matrices with full control over their compressed storage (C35, C37).

A matrix is described by ``(r, c, mask, zmask, fmt, order)``:

* bit ``i*c + j`` of ``mask`` says that entry (i, j) is *stored*;
* bit ``i*c + j`` of ``zmask`` (a subset of ``mask``) says the stored value is an explicit 0;
* all other stored values are the distinct integers ``base + 1 + i*c + j``;
* ``fmt`` in {"csr", "csc", "coo"}; ``order`` in {"sorted", "reversed"} is the order of
  the minor indices inside each row (csr) / column (csc).

The dense meaning and the storage lists are produced here, by plain loops, so that the
oracle never asks scipy (or porepy) what a matrix means.
"""

from __future__ import annotations

import itertools

import numpy as np
import scipy.sparse as sps


def dense(r, c, mask, zmask=0, base=0):
    D = np.zeros((r, c))
    for i in range(r):
        for j in range(c):
            b = 1 << (i * c + j)
            if mask & b and not zmask & b:
                D[i, j] = base + 1 + i * c + j
    return D


def storage(r, c, mask, zmask, fmt, order, base=0):
    """Per-line lists [(minor index, value), ...] in storage order (csr: per row)."""
    D = dense(r, c, mask, zmask, base)
    lines = []
    if fmt == "csr":
        for i in range(r):
            ent = [(j, D[i, j]) for j in range(c) if mask & (1 << (i * c + j))]
            lines.append(ent[::-1] if order == "reversed" else ent)
    else:
        for j in range(c):
            ent = [(i, D[i, j]) for i in range(r) if mask & (1 << (i * c + j))]
            lines.append(ent[::-1] if order == "reversed" else ent)
    return lines


def build(r, c, mask, zmask=0, fmt="csr", order="sorted", base=0):
    """The scipy matrix with exactly this storage."""
    if fmt == "coo":
        rows, cols, vals = [], [], []
        D = dense(r, c, mask, zmask, base)
        for i in range(r):
            for j in range(c):
                if mask & (1 << (i * c + j)):
                    rows.append(i), cols.append(j), vals.append(D[i, j])
        if order == "reversed":
            rows, cols, vals = rows[::-1], cols[::-1], vals[::-1]
        return sps.coo_matrix((np.array(vals, dtype=float), (np.array(rows, dtype=np.int32), np.array(cols, dtype=np.int32))), shape=(r, c))
    lines = storage(r, c, mask, zmask, fmt, order, base)
    indptr = np.zeros(len(lines) + 1, dtype=np.int32)
    indices, data = [], []
    for k, ent in enumerate(lines):
        for idx, v in ent:
            indices.append(idx)
            data.append(v)
        indptr[k + 1] = len(indices)
    cls = sps.csr_matrix if fmt == "csr" else sps.csc_matrix
    return cls((np.array(data, dtype=float), np.array(indices, dtype=np.int32), indptr), shape=(r, c))


def zmasks(mask):
    """No explicit zero, or the lowest stored entry is an explicit zero."""
    if mask == 0:
        return [0]
    return [0, mask & -mask]


def ordered_subsets(n, repeat_len=0):
    """All ordered subsets of range(n) (every subset in every order), then all sequences
    with repetition of length 2..repeat_len that are not already listed."""
    out = []
    for k in range(0, n + 1):
        out += [list(p) for p in itertools.permutations(range(n), k)]
    seen = {tuple(x) for x in out}
    for k in range(2, repeat_len + 1):
        for p in itertools.product(range(n), repeat=k):
            if p not in seen:
                out.append(list(p))
    return out


def is_wellformed(M):
    """Structural sanity of a compressed matrix returned by the code under test."""
    if M.format not in ("csr", "csc"):
        return None
    n = M.shape[0] if M.format == "csr" else M.shape[1]
    minor = M.shape[1] if M.format == "csr" else M.shape[0]
    ip = np.asarray(M.indptr)
    if ip.size != n + 1:
        return "indptr has %d entries for %d lines" % (ip.size, n)
    if ip[0] != 0 or np.any(np.diff(ip) < 0):
        return "indptr not monotone from 0"
    if ip[-1] != M.indices.size or M.indices.size != M.data.size:
        return "indptr[-1], len(indices), len(data) inconsistent"
    if M.indices.size and (M.indices.min() < 0 or M.indices.max() >= minor):
        return "minor index out of range"
    for k in range(n):
        seg = M.indices[ip[k]: ip[k + 1]]
        if len(set(seg.tolist())) != seg.size:
            return "duplicate minor index inside a line"
    return None


def digest(x):
    """Bitwise content of an argument (purity oracle): arrays, sparse storage, AdArrays,
    scalars, lists."""
    if x is None or isinstance(x, (bool, int, float, str)):
        return repr(x)
    if isinstance(x, np.generic):
        return repr(x.item())
    if isinstance(x, np.ndarray):
        return ("nd", x.dtype.str, x.shape, x.tobytes())
    if sps.issparse(x):
        parts = [x.format, tuple(x.shape)]
        for name in ("data", "indices", "indptr", "row", "col", "offsets"):
            a = getattr(x, name, None)
            if a is not None:
                a = np.asarray(a)
                parts.append((name, a.dtype.str, a.shape, a.tobytes()))
        return tuple(parts)
    if isinstance(x, (list, tuple)):
        return tuple(digest(v) for v in x)
    if hasattr(x, "val") and hasattr(x, "jac"):
        return ("ad", digest(np.asarray(x.val)), digest(x.jac))
    return ("obj", repr(x))
