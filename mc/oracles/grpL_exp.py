"""Grid alphabet for C38 (exporter round trip). Builders are deterministic, so that calling
them twice gives two independent md-grids with the same geometry and the same ordering."""

from __future__ import annotations

import numpy as np
import scipy.sparse as sps

LETTERS_2D = ("Q", "T", "P", "M")
LETTERS_3D = ("H", "E", "Y")  # hexahedra, tetrahedra, polyhedral


def _mixed_tri_quad_tri():
    """Triangle | quad | triangle in a row: cell types interleave inside one grid."""
    import porepy as pp

    nodes = np.array(
        [[0.0, 1.0, 1.0, 2.0, 2.0, 3.0], [0.5, 0.0, 1.0, 0.0, 1.0, 0.5], [0.0] * 6]
    )
    # faces: 0:(0,1) 1:(1,2) 2:(2,0) 3:(1,3) 4:(3,4) 5:(4,2) 6:(3,5) 7:(5,4)
    fn = [(0, 1), (1, 2), (2, 0), (1, 3), (3, 4), (4, 2), (3, 5), (5, 4)]
    rows = [n for f in fn for n in f]
    cols = [k for k in range(len(fn)) for _ in range(2)]
    face_nodes = sps.csc_matrix((np.ones(len(rows), dtype=bool), (rows, cols)), shape=(6, 8))
    # cells: 0 = triangle (faces 0,1,2), 1 = quad (faces 1,3,4,5), 2 = triangle (faces 4,6,7)
    cf = {0: [(0, 1), (1, 1), (2, 1)], 1: [(1, -1), (3, 1), (4, 1), (5, 1)], 2: [(4, -1), (6, 1), (7, 1)]}
    r, c, d = [], [], []
    for cell, lst in cf.items():
        for f, s in lst:
            r.append(f)
            c.append(cell)
            d.append(s)
    cell_faces = sps.csc_matrix((d, (r, c)), shape=(8, 3))
    return pp.Grid(2, nodes, face_nodes, cell_faces, "tri-quad-tri")


def single_grid(letter, shift):
    import porepy as pp
    from porepy.applications.test_utils.grids import polytop_grid_2d, polytop_grid_3d

    if letter == "Q":
        g = pp.CartGrid([2, 1])
    elif letter == "T":
        g = pp.StructuredTriangleGrid([1, 1])
    elif letter == "P":
        g = polytop_grid_2d()  # triangle, pentagon, quad, quad (in this cell order)
    elif letter == "M":
        g = _mixed_tri_quad_tri()
    elif letter == "H":
        g = pp.CartGrid([1, 1, 2])
    elif letter == "E":
        g = pp.StructuredTetrahedralGrid([1, 1, 1])
    elif letter == "Y":
        g = polytop_grid_3d()
    else:
        raise KeyError(letter)
    g.nodes = g.nodes.copy()
    g.nodes[0] += 4.0 * shift
    g.compute_geometry()
    return g


def mdg_from_sequence(seq):
    import porepy as pp

    mdg = pp.MixedDimensionalGrid()
    mdg.add_subdomains([single_grid(l, k) for k, l in enumerate(seq)])
    return mdg


FRACTURED = ("cart2-1f", "cart2-x", "cart3-1f", "simplex2-1f", "cart2-1f+T")


def mdg_fractured(name):
    import porepy as pp

    if name == "cart2-1f":
        return pp.meshing.cart_grid([np.array([[1, 1], [0, 1]])], [2, 2])
    if name == "cart2-x":
        return pp.meshing.cart_grid([np.array([[0, 2], [1, 1]]), np.array([[1, 1], [0, 2]])], [2, 2])
    if name == "cart3-1f":
        return pp.meshing.cart_grid([np.array([[1, 1, 1, 1], [0, 2, 2, 0], [0, 0, 2, 2]])], [2, 2, 2])
    if name == "simplex2-1f":
        fr = [pp.LineFracture(np.array([[0.25, 0.75], [0.5, 0.5]]))]
        dom = pp.Domain({"xmin": 0, "xmax": 1, "ymin": 0, "ymax": 1})
        net = pp.create_fracture_network(fr, dom)
        return net.mesh({"mesh_size_frac": 0.5, "mesh_size_bound": 0.5, "mesh_size_min": 0.5})
    if name == "cart2-1f+T":
        # a fractured Cartesian md-grid plus an unconnected triangle grid of the same dimension
        mdg = pp.meshing.cart_grid([np.array([[1, 1], [0, 1]])], [2, 2])
        mdg.add_subdomains([single_grid("T", 2)])
        return mdg
    raise KeyError(name)
