"""Group C helpers: driving the real ``TimeManager`` with scripted solver answers.

Contents
--------
* ``Monitor``      - the independent oracle for property C09: a small pure-Python
                     run-time monitor fed with what was observed on the real objects.
                     It knows the *configuration* (schedule, prescribed dt bounds,
                     recomputation budget) and nothing about the implementation.
* ``StubModel``    - a model whose ``after_nonlinear_convergence`` /
                     ``after_nonlinear_failure`` are the **shipped**
                     ``pp.SolutionStrategy`` hooks (so the two ``compute_time_step``
                     calls are issued by the real code); only the storage back-end and
                     the exporter are stubbed.
* ``Stepper``      - one iteration of the time loop on a snapshot of a real TimeManager
                     (used by the explicit-state search).
* ``run_real_loop``- a scripted answer sequence pushed through the real
                     ``run_time_dependent_model``.
"""

from __future__ import annotations

import math

# --------------------------------------------------------------------------- answers

FAIL = "F"
LO, IN, HI = "lo", "in", "hi"
ANSWERS = (LO, IN, HI, FAIL)

ITER_RANGE = (4, 7)  # TimeManager default optimal iteration range
ITER_MAX = 15


def iterations_for(answer) -> int:
    """Iteration count reported by the environment for a converged answer.

    ``lo``/``hi`` sit exactly on the endpoints of the optimal range (the endpoints are
    the sharp values), ``in`` strictly inside. An integer answer is an iteration count.
    """
    if isinstance(answer, int):
        return answer
    return {LO: ITER_RANGE[0], IN: ITER_RANGE[0] + 1, HI: ITER_RANGE[1]}[answer]


# --------------------------------------------------------------------------- configs


def prescribed_dt_bounds(cfg):
    """(dt_min, dt_max) as prescribed by the user or, if not given, by the documented
    defaults (0.1 % resp. 10 % of the final time, dt_min capped by dt_init)."""
    if cfg.get("dt_min_max") is not None:
        return tuple(cfg["dt_min_max"])
    tf = cfg["schedule"][-1]
    return (min(cfg["dt_init"], 0.001 * tf), 0.1 * tf)


def documented_valid(cfg) -> tuple[bool, str]:
    """Validity of a configuration according to the TimeManager documentation (used to
    cross-check the constructor; disagreement is a harness error, not a verdict)."""
    s = cfg["schedule"]
    dt = cfg["dt_init"]
    if len(s) < 2 or any(t < 0 for t in s) or any(a >= b for a, b in zip(s, s[1:])):
        return False, "schedule"
    if dt <= 0 or dt > s[-1]:
        return False, "dt_init"
    if cfg.get("constant_dt"):
        # every scheduled time must be a multiple of dt_init after the start
        for t in s[1:]:
            k = (t - s[0]) / dt
            if abs(k - round(k)) > 1e-9:
                return False, "constant-incompatible"
        return True, ""
    lo, hi = prescribed_dt_bounds(cfg)
    if dt < lo:
        return False, "dt_init<dt_min"
    if dt > hi:
        return False, "dt_init>dt_max"
    under, over = cfg["iter_relax_factors"]
    if lo * over > hi:
        return False, "dt_min*over>dt_max"
    if hi * under < lo:
        return False, "dt_max*under<dt_min"
    return True, ""


def make_tm(cfg):
    import porepy as pp

    kw = dict(
        schedule=list(cfg["schedule"]),
        dt_init=cfg["dt_init"],
        constant_dt=bool(cfg.get("constant_dt", False)),
        dt_min_max=None if cfg.get("dt_min_max") is None else tuple(cfg["dt_min_max"]),
        iter_max=cfg.get("iter_max", ITER_MAX),
        iter_optimal_range=tuple(cfg.get("iter_optimal_range", ITER_RANGE)),
        iter_relax_factors=tuple(cfg.get("iter_relax_factors", (0.7, 1.3))),
        recomp_factor=cfg.get("recomp_factor", 0.5),
        recomp_max=cfg.get("recomp_max", 10),
    )
    if cfg.get("atol") is not None:
        kw["atol"] = cfg["atol"]
    return pp.TimeManager(**kw)


# --------------------------------------------------------------------------- monitor


class Monitor:
    """Run-time monitor for the C09 invariants. Pure Python, implementation-agnostic.

    State: last accepted time, number of scheduled times hit so far, number of
    consecutive failed steps, the step size in force. ``clone``-able and hashable via
    ``key()`` so that it can be part of a search state.
    """

    __slots__ = ("cfg", "sched", "tf", "tol", "dt_min", "dt_max", "rmax", "const",
                 "t_last", "hit", "fails", "dt", "n_acc", "done")

    def __init__(self, cfg, t0, dt0):
        self.cfg = cfg
        self.sched = [float(t) for t in cfg["schedule"]]
        self.tf = self.sched[-1]
        # "hits scheduled time s" / "does not exceed the final time" are decided with the
        # manager's own notion of equality, loosened by a factor 10:
        # |t - s| <= 10 * (rtol*|s| + atol), rtol = 1e-10 (TimeManager default), atol = the
        # value given to the constructor (default 1e-16). No other absolute constant
        # enters, so the monitor is invariant under a change of time unit.
        self.tol = None  # see tol_at
        self.dt_min, self.dt_max = prescribed_dt_bounds(cfg)
        self.rmax = cfg.get("recomp_max", 10)
        self.const = bool(cfg.get("constant_dt", False))
        self.t_last = float(t0)
        self.hit = 1  # the initial time is scheduled time number 0
        self.fails = 0
        self.dt = float(dt0)
        self.n_acc = 0
        self.done = False

    def clone(self):
        m = Monitor.__new__(Monitor)
        for a in Monitor.__slots__:
            setattr(m, a, getattr(self, a))
        return m

    def key(self):
        return (self.t_last, self.hit, self.fails)

    # -- helpers
    def tol_at(self, s):
        atol = self.cfg.get("atol")
        return 10.0 * (1e-10 * abs(s) + (1e-16 if atol is None else atol))

    def _lands_on_schedule(self, t):
        return any(abs(t - s) <= self.tol_at(s) for s in self.sched)

    def check_dt(self, time, dt):
        """Step size about to be used from ``time``. Returns a violation text or None."""
        if self.const:
            return None  # bounds are documented to be bypassed for constant dt
        if not (dt > 0) or not math.isfinite(dt):
            return "non-positive step size"
        if dt > self.dt_max * (1 + 1e-12):
            return "step size above the prescribed maximum"
        if dt < self.dt_min * (1 - 1e-12) and not self._lands_on_schedule(time + dt):
            return "step size below the prescribed minimum without landing on a scheduled time"
        return None

    def classify_dt(self, time, dt):
        if self.const:
            return "const"
        if dt < self.dt_min * (1 - 1e-12):
            return "dt<min(sched)"
        if self._lands_on_schedule(time + dt):
            return "dt->sched"
        if abs(dt - self.dt_min) <= 1e-12 * self.dt_min:
            return "dt=min"
        if abs(dt - self.dt_max) <= 1e-12 * self.dt_max:
            return "dt=max"
        return "dt-free"

    # -- events
    def accepted(self, t_new, final_reached, dt_next):
        """A step converged at clock value ``t_new``; afterwards the manager reports
        ``final_reached`` and will use ``dt_next`` next. Returns list of violations."""
        v = []
        if not (t_new > self.t_last):
            v.append("accepted times do not strictly increase")
        if t_new > self.tf + self.tol_at(self.tf):
            v.append("accepted time exceeds the final time")
        if self.hit < len(self.sched):
            s = self.sched[self.hit]
            if abs(t_new - s) <= self.tol_at(s):
                self.hit += 1
            elif t_new > s:
                v.append("scheduled time skipped")
        self.t_last = float(t_new)
        self.fails = 0
        self.n_acc += 1
        if final_reached:
            self.done = True
            if self.hit < len(self.sched) and not v:
                v.append("loop ended before all scheduled times were hit")
        else:
            w = self.check_dt(t_new, dt_next)
            if w:
                v.append(w)
            self.dt = float(dt_next)
        return v

    def failed(self, dt_used, raised, time_after, dt_next):
        """A step failed. ``raised`` = the exception (or None)."""
        v = []
        budget_left = (not self.const) and self.fails < self.rmax
        at_dt_min = (not self.const) and abs(dt_used - self.dt_min) <= 1e-12 * self.dt_min
        if raised is not None:
            self.done = True
            if not isinstance(raised, ValueError):
                v.append("failed step raised an unexpected exception type")
            elif budget_left and not at_dt_min:
                v.append("failed step raised although recomputation was not exhausted")
            return v
        if not budget_left:
            v.append("failed step did not raise although recomputation was exhausted")
        if abs(time_after - self.t_last) > 1e-12 * (abs(self.t_last) + abs(dt_used)):
            v.append("failed step did not return the clock to the last accepted time")
        self.fails += 1
        w = self.check_dt(time_after, dt_next)
        if w:
            v.append(w)
        self.dt = float(dt_next)
        return v


# --------------------------------------------------------------------------- stub model

_STUB = None


def stub_model_class():
    """Model stub: real SolutionStrategy hooks, dummy storage. Built lazily so that
    importing this module does not import porepy."""
    global _STUB
    if _STUB is not None:
        return _STUB
    import numpy as np
    import porepy as pp

    class _Storage:
        _v = np.zeros(1)

        def get_variable_values(self, **kw):
            return self._v

        def set_variable_values(self, *a, **kw):
            pass

        def shift_time_step_values(self, **kw):
            pass

    class _Stats:
        num_iteration = 0

    class StubModel(pp.SolutionStrategy):
        """Only ``time_manager`` matters; the convergence/failure hooks are inherited
        unchanged from ``pp.SolutionStrategy``."""

        def __init__(self, tm):  # deliberately no super().__init__
            self.time_manager = tm
            self.equation_system = _Storage()
            self.nonlinear_solver_statistics = _Stats()
            self.convergence_status = False

        @property
        def time_step_indices(self):
            return np.array([0])

        def save_data_time_step(self):
            pass

        def _is_nonlinear_problem(self):
            return True

        def after_simulation(self):
            pass

    assert StubModel.after_nonlinear_convergence is pp.SolutionStrategy.after_nonlinear_convergence
    assert StubModel.after_nonlinear_failure is pp.SolutionStrategy.after_nonlinear_failure
    _STUB = StubModel
    return _STUB


def tm_key(tm):
    """Concrete (un-rounded) clock state of a TimeManager."""
    return (float(tm.time), float(tm.dt), int(tm._scheduled_idx), int(tm._recomp_num),
            bool(tm._is_about_to_hit_schedule))


class Stepper:
    """One iteration of the time loop of ``run_time_dependent_model`` on a real
    TimeManager whose attributes are restored from a snapshot:

        increase_time(); increase_time_index(); <solver answer -> real hook>

    The hook is the shipped ``SolutionStrategy`` method; it issues the
    ``compute_time_step`` call.
    """

    def __init__(self, cfg):
        self.cfg = cfg
        self.tm = make_tm(cfg)
        self.model = stub_model_class()(self.tm)

    def snapshot(self):
        return dict(self.tm.__dict__)

    def restore(self, snap):
        d = self.tm.__dict__
        d.clear()
        d.update(snap)

    def step(self, answer):
        """Returns (t_attempt, dt_used, raised_exception_or_None)."""
        tm = self.tm
        dt_used = float(tm.dt)
        tm.increase_time()
        tm.increase_time_index()
        t_attempt = float(tm.time)
        try:
            if answer == FAIL:
                self.model.after_nonlinear_failure()
            else:
                self.model.nonlinear_solver_statistics.num_iteration = iterations_for(answer)
                self.model.after_nonlinear_convergence()
        except Exception as e:  # classified by the monitor
            return t_attempt, dt_used, e
        return t_attempt, dt_used, None


def feed(mon: Monitor, tm, answer, t_attempt, dt_used, raised):
    """Translate one observed loop iteration into monitor events."""
    if answer == FAIL:
        return mon.failed(dt_used, raised, float(tm.time), float(tm.dt))
    if raised is not None:
        mon.done = True
        return [f"converged step raised {raised!r}"]
    return mon.accepted(t_attempt, bool(tm.final_time_reached()), float(tm.dt))


# --------------------------------------------------------------------------- real loop


class ScriptEnd(Exception):
    """Raised by the scripted solver to stop the real loop (step cap)."""


def run_real_loop(cfg, script: dict, default=IN, step_cap=5000):
    """Run ``run_time_dependent_model`` on the stub model. ``script`` maps the index of
    a solver call to an answer, all other calls get ``default``.

    Returns (trace, end) where trace = list of (answer, t_attempt, dt_used,
    time_after, dt_after, final_reached_after, raised) per solver call and end is
    "final" | "raised" | "cap".
    """
    from porepy.models.run_models import run_time_dependent_model

    tm = make_tm(cfg)
    model = stub_model_class()(tm)
    trace = []

    class Solver:
        def __init__(self, params):
            self.k = 0

        def solve(self, mdl):
            if self.k >= step_cap:
                raise ScriptEnd()
            a = script.get(self.k, default)
            self.k += 1
            t_attempt, dt_used = float(tm.time), float(tm.dt)
            try:
                if a == FAIL:
                    mdl.after_nonlinear_failure()
                else:
                    mdl.nonlinear_solver_statistics.num_iteration = iterations_for(a)
                    mdl.after_nonlinear_convergence()
            except Exception as e:
                trace.append((a, t_attempt, dt_used, float(tm.time), float(tm.dt), None, e))
                raise
            trace.append((a, t_attempt, dt_used, float(tm.time), float(tm.dt),
                          bool(tm.final_time_reached()), None))
            return a != FAIL

    end = "final"
    try:
        run_time_dependent_model(model, {"prepare_simulation": False, "nonlinear_solver": Solver})
    except ScriptEnd:
        end = "cap"
    except Exception as e:
        if trace and trace[-1][6] is e:
            end = "raised"
        else:
            raise
    return trace, end, tm


def monitor_trace(cfg, trace, end):
    """Feed a real-loop trace to a fresh monitor. Returns (violations, monitor, classes)."""
    mon = Monitor(cfg, cfg["schedule"][0], cfg["dt_init"])
    viol = []
    w = mon.check_dt(mon.t_last, mon.dt)
    if w:
        viol.append((0, "initial " + w))
    for i, (a, t_att, dt_used, t_after, dt_after, fin, exc) in enumerate(trace):
        # the clock value the solver saw must be last accepted time + step size
        if abs(t_att - (mon.t_last + mon.dt)) > 1e-12 * (abs(t_att) + abs(mon.dt)):
            viol.append((i, "solver was called at a time different from last accepted time + dt"))
        if a == FAIL:
            vs = mon.failed(dt_used, exc, t_after, dt_after)
        elif exc is not None:
            mon.done = True
            vs = [f"converged step raised {exc!r}"]
        else:
            vs = mon.accepted(t_att, fin, dt_after)
        for x in vs:
            viol.append((i, x))
        if viol:
            break
    if not viol:
        if end == "cap":
            viol.append((len(trace), "time loop did not terminate within the step cap"))
        elif end == "final" and not (mon.done and mon.hit == len(mon.sched)):
            viol.append((len(trace), "time loop ended before the final time was accepted"))
    return viol, mon
