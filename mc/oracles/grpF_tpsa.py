"""Harness-side assembly of the three-field TPSA system (C16).

``Tpsa.assemble_matrix_rhs`` raises NotImplementedError by design; the system is put
together here from the matrices ``Tpsa.discretize`` stores, following the recipe in the
``Tpsa`` class docstring / the shipped poromechanics equations:

    unknowns x = [u (nd per cell), r (1 per cell in 2-d, 3 in 3-d), p (1 per cell)]
    generalized face flux  F(x, g) = face_discr @ x + rhs_matrix @ g
    A x = b,  A = div @ face_discr - accum,  b = -div @ rhs_matrix @ g
    accum = blockdiag(0, |c|/mu, |c|/lambda)

:func:`validate_layout` checks this block layout against closed-form non-trivial
solutions (uniform expansion: non-zero solid pressure; simple shear: non-zero rotation)
on a Cartesian (K-orthogonal) grid, where TPSA is exact for linear displacements.
"""

from __future__ import annotations

import numpy as np
import scipy.sparse as sps

KW = "mechanics"


def rot_dim(d):
    return 3 if d == 3 else 1


def discretize(g, mu, lam, bc, twice=False, disc=None):
    """Run the real Tpsa.discretize; ``twice`` repeats it on the same discretization object,
    grid and data dictionary (the matrices of the second call are returned)."""
    import porepy as pp

    nc = g.num_cells
    stiff = pp.FourthOrderTensor(mu * np.ones(nc), lam * np.ones(nc))
    data = {pp.PARAMETERS: {KW: {"fourth_order_tensor": stiff, "bc": bc}}, pp.DISCRETIZATION_MATRICES: {KW: {}}}
    if disc is None:  # a caller may pass ONE Tpsa object that it reuses for several grids
        disc = pp.Tpsa(KW)
    disc.discretize(g, data)
    if twice:
        stiff0 = stiff.values.copy()
        disc.discretize(g, data)
        if not np.array_equal(stiff0, stiff.values):
            raise AssertionError("Tpsa.discretize modified the stiffness tensor it was given")
    return disc, data[pp.DISCRETIZATION_MATRICES][KW]


def assemble(disc, M, g, mu, lam):
    """Return (face_discr, rhs_matrix, div, accum) as sparse matrices. ``lam`` may be
    None, in which case ``accum`` is returned as None (no solve possible)."""
    d, nc, nf = g.dim, g.num_cells, g.num_faces
    rd = rot_dim(d)
    Z = sps.csr_matrix
    face_discr = sps.bmat(
        [
            [M[disc.stress_displacement_matrix_key], M[disc.stress_rotation_matrix_key], M[disc.stress_total_pressure_matrix_key]],
            [M[disc.rotation_displacement_matrix_key], M[disc.rotation_rotation_matrix_key], Z((nf * rd, nc))],
            [M[disc.mass_displacement_matrix_key], Z((nf, nc * rd)), M[disc.mass_total_pressure_matrix_key]],
        ],
        format="csr",
    )
    rhs_matrix = sps.vstack(
        [M[disc.bound_stress_matrix_key], M[disc.bound_rotation_displacement_matrix_key], M[disc.bound_mass_displacement_matrix_key]],
        format="csr",
    )
    div = sps.block_diag([g.divergence(dim=d), g.divergence(dim=rd), g.divergence(dim=1)], format="csr")
    accum = None
    if lam:
        accum = sps.block_diag(
            [Z((nc * d, nc * d)), sps.diags(np.repeat(g.cell_volumes / mu, rd)), sps.diags(g.cell_volumes / lam)],
            format="csr",
        )
    shapes_ok = (
        face_discr.shape == (nf * (d + rd + 1), nc * (d + rd + 1))
        and rhs_matrix.shape == (nf * (d + rd + 1), nf * d)
    )
    if not shapes_ok:
        raise ValueError(f"unexpected TPSA block shapes {face_discr.shape} {rhs_matrix.shape}")
    return face_discr, rhs_matrix, div, accum


def solve(face_discr, rhs_matrix, div, accum, bc_vec):
    A = (div @ face_discr - accum).toarray()
    b = -(div @ (rhs_matrix @ bc_vec))
    return np.linalg.solve(A, b), float(np.linalg.cond(A))


_VALID = {}


def validate_layout(d):
    """Solve two closed-form problems on a Cartesian grid with the harness assembly.

    Returns a dict of errors (all must be ~1e-13). Cached per process and dimension.
    u = x (componentwise identity field): r = 0, p = lambda * d.
    u = x_last e_0: r = -mu * curl u (2-d: scalar -mu (d_x u_y - d_y u_x) = +mu;
    3-d: (0, -mu, 0)), p = 0.
    """
    if d in _VALID:
        return _VALID[d]
    import porepy as pp

    n, phys = ([3, 2], [1.5, 1.0]) if d == 2 else ([2, 2, 3], [1.0, 1.5, 1.2])
    g = pp.CartGrid(np.array(n), physdims=phys)
    g.compute_geometry()
    mu, lam = 2.0, 3.0
    nc, nf, rd = g.num_cells, g.num_faces, rot_dim(d)
    bf = g.get_all_boundary_faces()
    bc = pp.BoundaryConditionVectorial(g, bf, ["dir"] * bf.size)
    disc, M = discretize(g, mu, lam, bc)
    fd, rm, div, acc = assemble(disc, M, g, mu, lam)
    res = {}
    for name in ("expansion", "shear"):
        Gm = np.eye(d) if name == "expansion" else np.zeros((d, d))
        if name == "shear":
            Gm[0, d - 1] = 1.0
        uc = Gm @ g.cell_centers[:d]
        uf = Gm @ g.face_centers[:d]
        bcv = np.zeros((d, nf))
        bcv[:, bf] = uf[:, bf]
        x, _ = solve(fd, rm, div, acc, bcv.ravel("F"))
        u = x[: nc * d]
        r = x[nc * d : nc * (d + rd)]
        p = x[nc * (d + rd) :]
        if name == "expansion":
            r_ex = np.zeros(nc * rd)
            p_ex = lam * d * np.ones(nc)
        else:
            p_ex = np.zeros(nc)
            if d == 2:
                r_ex = mu * np.ones(nc)  # -mu * (d_x u_y - d_y u_x), u = (y, 0)
            else:
                r_ex = np.tile([0.0, -mu, 0.0], nc)  # -mu * curl (z, 0, 0)
        res[name] = {
            "u": float(np.abs(u - uc.ravel("F")).max()),
            "r": float(np.abs(r - r_ex).max()),
            "p": float(np.abs(p - p_ex).max()),
        }
    _VALID[d] = res
    return res
