"""Group D: independent oracle for unit strings (C43).

A unit string is a product of factors ``name`` or ``name^power`` separated by ``*``,
spaces ignored; "", "1", "-" are dimensionless. The oracle expands every derived unit
into base-unit exponents, collects exponents per base unit and evaluates the factor
``prod base_scale ** exponent`` — it never calls porepy.
"""

from __future__ import annotations

import math
from fractions import Fraction

BASE = ("m", "s", "kg", "K", "mol", "rad")
# derived unit -> exponents of base units (+ numeric constant)
DERIVED = {
    "Pa": ({"kg": 1, "m": -1, "s": -2}, 1.0),
    "J": ({"kg": 1, "m": 2, "s": -2}, 1.0),
    "N": ({"kg": 1, "m": 1, "s": -2}, 1.0),
    "W": ({"kg": 1, "m": 2, "s": -3}, 1.0),
    # documented as "angle unit, derived from rad": rad * 180 / pi
    "degree": ({"rad": 1}, 180.0 / math.pi),
}
UNIT_NAMES = BASE + tuple(DERIVED)
POWERS = (None, "1", "2", "-1", "-2", "0.5")  # None = no ^ part


def factor_letters():
    """All single factors: unit name x power spelling."""
    out = []
    for u in UNIT_NAMES:
        for p in POWERS:
            out.append(u if p is None else f"{u}^{p}")
    return out


def parse(units: str):
    """-> (dict base -> Fraction exponent, exponent of the numeric constant 180/pi)."""
    s = units.replace(" ", "")
    exps = {b: Fraction(0) for b in BASE}
    cexp = Fraction(0)
    if s in ("", "1", "-"):
        return exps, cexp
    for f in s.split("*"):
        if "^" in f:
            name, p = f.split("^")
            power = Fraction(p)
        else:
            name, power = f, Fraction(1)
        if name in BASE:
            exps[name] += power
        elif name in DERIVED:
            d, c = DERIVED[name]
            for b, e in d.items():
                exps[b] += power * e
            if c != 1.0:
                cexp += power
        else:
            raise KeyError(name)
    return exps, cexp


def factor(units: str, scales: dict) -> float:
    """Size of one simulation unit of dimension ``units`` expressed in SI."""
    exps, cexp = parse(units)
    num = Fraction(1)
    irr = 1.0
    for b, e in exps.items():
        sc = Fraction(scales.get(b, 1)).limit_denominator(10**12) if not isinstance(scales.get(b, 1), int) else Fraction(scales.get(b, 1))
        if e.denominator == 1:
            num *= sc ** int(e)
        else:
            irr *= float(sc) ** float(e)
    res = float(num) * irr
    if cexp != 0:
        res *= (180.0 / math.pi) ** float(cexp)
    return res


def is_dimensionless(units: str) -> bool:
    exps, cexp = parse(units)
    return all(e == 0 for e in exps.values()) and cexp == 0
