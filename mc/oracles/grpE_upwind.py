"""Group E helpers for C17: reference upwind matrices from the definition, and exactly
divergence-free face flux fields with no flow through the boundary (discrete curls)."""

from __future__ import annotations

import itertools

import numpy as np


def face_cells(g):
    """(posc, negc): for each face the cell with incidence +1 / -1 (or -1 if none), read
    from the dense cell-face incidence (independent of Grid.cell_faces_as_dense)."""
    cf = np.asarray(g.cell_faces.toarray())
    nf = cf.shape[0]
    posc = -np.ones(nf, dtype=int)
    negc = -np.ones(nf, dtype=int)
    for f in range(nf):
        for c in np.nonzero(cf[f])[0]:
            if cf[f, c] > 0:
                posc[f] = c
            else:
                negc[f] = c
    return posc, negc, cf


def reference_upwind(posc, negc, nc, signs, is_bnd, is_dir_face, is_neu_face):
    """Definition of single-point upstream weighting.

    Returns (U, dir_diag, neu_support, free) where rows of U are demanded only where
    ``signs != 0``; dir_diag[f] = 1 on Dirichlet inflow faces (demanded where signs != 0);
    neu_support[f] = True on Neumann faces; free = faces with zero flux."""
    nf = len(signs)
    U = np.zeros((nf, nc))
    dir_diag = np.zeros(nf)
    for f in range(nf):
        s = signs[f]
        if s == 0:
            continue
        up = posc[f] if s > 0 else negc[f]  # the cell the flux leaves: cell_faces[f,c]*q_f > 0
        if is_bnd[f] and is_neu_face[f]:
            continue
        if up < 0:
            # boundary inflow: only Dirichlet possible here (Neumann handled above)
            dir_diag[f] = 1.0
            continue
        U[f, up] = 1.0
    return U, dir_diag


def sign_vectors(nf, max_zeros, prefix):
    """All vectors in {-1,0,+1}^nf with the given prefix and at most max_zeros zeros."""
    L = len(prefix)
    z0 = sum(1 for v in prefix if v == 0)
    if z0 > max_zeros:
        return
    for suf in itertools.product((1, -1, 0), repeat=nf - L):
        if z0 + sum(1 for v in suf if v == 0) <= max_zeros:
            yield tuple(prefix) + suf


# ----------------------------------------------------------------------------- discrete curls


def curl_basis(g):
    """Exactly divergence-free face fluxes vanishing on all boundary faces.

    2-d: one field per interior node (stream function = indicator of the node).
    3-d: one field per interior edge (vector potential = indicator of the edge).
    The result is verified with the grid's own incidence: div q == 0 exactly, q == 0 on
    boundary faces (otherwise AssertionError: harness defect)."""
    nf = g.num_faces
    fn = g.face_nodes.tocsc()
    bnodes = set(int(v) for v in g.get_all_boundary_nodes())
    bfaces = set(int(v) for v in g.get_all_boundary_faces())
    fields = []
    if g.dim == 2:
        interior = [k for k in range(g.num_nodes) if k not in bnodes]
        # unit normal of the plane of the grid (the grid may be embedded in a tilted plane of 3-d space)
        X = g.nodes - g.nodes.mean(axis=1, keepdims=True)
        nu = np.linalg.svd(X)[0][:, 2]
        for k in interior:
            q = np.zeros(nf)
            for f in range(nf):
                nodes = fn.indices[fn.indptr[f] : fn.indptr[f + 1]]
                if k not in nodes:
                    continue
                n1, n2 = int(nodes[0]), int(nodes[1])
                t = g.nodes[:, n2] - g.nodes[:, n1]
                nrm = g.face_normals[:, f]
                orient = np.sign(np.cross(nrm, t) @ nu)
                psi1, psi2 = float(n1 == k), float(n2 == k)
                q[f] = orient * (psi2 - psi1)
            fields.append(q)
    elif g.dim == 3:
        # cyclic node order of every face, counter-clockwise about the face normal
        cyc = []
        for f in range(nf):
            nodes = fn.indices[fn.indptr[f] : fn.indptr[f + 1]]
            n = g.face_normals[:, f] / np.linalg.norm(g.face_normals[:, f])
            c = g.face_centers[:, f]
            a = np.eye(3)[int(np.argmin(np.abs(n)))]
            u = np.cross(n, a)
            u /= np.linalg.norm(u)
            v = np.cross(n, u)
            ang = [np.arctan2((g.nodes[:, k] - c) @ v, (g.nodes[:, k] - c) @ u) for k in nodes]
            cyc.append([int(nodes[i]) for i in np.argsort(ang)])
        edges = set()
        for nodes in cyc:
            for i in range(len(nodes)):
                a, b = nodes[i], nodes[(i + 1) % len(nodes)]
                edges.add((min(a, b), max(a, b)))
        bedges = set()
        for f in bfaces:
            nodes = cyc[f]
            for i in range(len(nodes)):
                a, b = nodes[i], nodes[(i + 1) % len(nodes)]
                bedges.add((min(a, b), max(a, b)))
        for e in sorted(edges - bedges):
            q = np.zeros(nf)
            for f in range(nf):
                nodes = cyc[f]
                for i in range(len(nodes)):
                    a, b = nodes[i], nodes[(i + 1) % len(nodes)]
                    if (min(a, b), max(a, b)) == e:
                        q[f] += 1.0 if a < b else -1.0
            fields.append(q)
    div = g.cell_faces.T
    for q in fields:
        assert np.all(div @ q == 0), "harness: curl field not divergence-free"
        assert all(q[f] == 0 for f in bfaces), "harness: curl field crosses the boundary"
        assert np.any(q != 0)
    return fields
