"""Helpers for C39: grid alphabet, independent boundary classification, invariant check.

Nothing in here uses ``porepy.params.bc``; the boundary classification is recomputed
from the cell-face incidence (a face with exactly one neighbouring cell is a boundary
face, which on split fractured grids includes both sides of a fracture; a face with two
neighbours is an interior non-fracture face).
"""

from __future__ import annotations

import numpy as np

_GRIDS: dict = {}

GRID_NAMES = [
    "C22",   # Cartesian 2x2
    "T11",   # two triangles
    "T22",   # structured triangles 2x2
    "C222",  # Cartesian 2x2x2
    "F2a",   # 2-d matrix grid split by a fracture ending inside the domain
    "F1a",   # the 1-d fracture grid of F2a (one tip face, one domain-boundary face)
    "F2x",   # 2-d matrix grid split by two crossing fractures (every face is a boundary face)
    "F1x",   # a 1-d fracture grid of F2x (split at the intersection: fracture faces)
    "F0x",   # the 0-d intersection grid of F2x (no faces)
    "F3a",   # 3-d matrix grid split by a partial fracture plane
    "F2b",   # the 2-d fracture grid of F3a (tip faces, embedded in 3-d)
    "S2",    # gmsh triangle grid split by one immersed fracture
]


def _build(name):
    import porepy as pp

    def geo(g):
        g.compute_geometry()
        return g

    if name == "C22":
        return geo(pp.CartGrid([2, 2]))
    if name == "T11":
        return geo(pp.StructuredTriangleGrid([1, 1]))
    if name == "T22":
        return geo(pp.StructuredTriangleGrid([2, 2]))
    if name == "C222":
        return geo(pp.CartGrid([2, 2, 2]))
    if name in ("F2a", "F1a"):
        mdg = pp.meshing.cart_grid([np.array([[1, 1], [0, 1]])], [2, 2])
        return mdg.subdomains(dim=2 if name == "F2a" else 1)[0]
    if name in ("F2x", "F1x", "F0x"):
        mdg = pp.meshing.cart_grid([np.array([[0, 2], [1, 1]]), np.array([[1, 1], [0, 2]])], [2, 2])
        return mdg.subdomains(dim={"F2x": 2, "F1x": 1, "F0x": 0}[name])[0]
    if name in ("F3a", "F2b"):
        mdg = pp.meshing.cart_grid([np.array([[1, 1, 1, 1], [0, 1, 1, 0], [0, 0, 1, 1]])], [2, 2, 2])
        return mdg.subdomains(dim=3 if name == "F3a" else 2)[0]
    if name == "S2":
        fr = [pp.LineFracture(np.array([[0.25, 0.75], [0.5, 0.5]]))]
        dom = pp.Domain({"xmin": 0, "xmax": 1, "ymin": 0, "ymax": 1})
        net = pp.create_fracture_network(fr, dom)
        mdg = net.mesh({"mesh_size_frac": 0.5, "mesh_size_bound": 0.5, "mesh_size_min": 0.5})
        return mdg.subdomains(dim=2)[0]
    raise KeyError(name)


def grid(name):
    if name not in _GRIDS:
        _GRIDS[name] = _build(name)
    return _GRIDS[name]


def face_kinds(sd):
    """Independent classification: (boundary mask, interior mask) from the incidence."""
    if sd.num_faces == 0:
        z = np.zeros(0, dtype=bool)
        return z, z
    n = np.asarray(abs(sd.cell_faces).sum(axis=1)).ravel()
    return n == 1, n == 2


def window(sd, max_all=12):
    """Faces over whose subsets the constructor arguments are enumerated."""
    bnd, inner = face_kinds(sd)
    if sd.num_faces <= max_all:
        return list(range(sd.num_faces))
    frac = np.where(sd.tags["fracture_faces"])[0]
    tip = np.where(sd.tags["tip_faces"])[0]
    dom = np.array([f for f in np.where(bnd)[0] if f not in set(frac) | set(tip)])
    w = list(dom[:6]) + list(frac[:2]) + list(tip[:1]) + list(np.where(inner)[0][:2])
    return sorted(int(f) for f in w)


def letters(sd):
    """Faces a (domain boundary), b (fracture / tip / second boundary face), i (interior)."""
    bnd, inner = face_kinds(sd)
    frac = [int(f) for f in np.where(sd.tags["fracture_faces"])[0]]
    tip = [int(f) for f in np.where(sd.tags["tip_faces"])[0]]
    special = set(frac) | set(tip)
    dom = [int(f) for f in np.where(bnd)[0] if f not in special]
    a = dom[0] if dom else int(np.where(bnd)[0][0])
    if frac:
        b = frac[0]
    elif tip:
        b = tip[0]
    else:
        b = [f for f in dom if f != a][0]
    if b == a:
        b = [int(f) for f in np.where(bnd)[0] if f != a][0]
    ii = np.where(inner)[0]
    return {"a": a, "b": b, "i": int(ii[0]) if ii.size else None, "frac": frac}


TYPES = ("dir", "neu", "rob")


def flags(bc, vectorial, dim):
    """(3, ncomp, num_faces) boolean array of dir / neu / rob, or a string if malformed."""
    out = []
    for nm in ("is_dir", "is_neu", "is_rob"):
        arr = getattr(bc, nm)
        if not isinstance(arr, np.ndarray) or arr.dtype != bool:
            return f"{nm} is not a boolean array"
        want = (dim, bc.num_faces) if vectorial else (bc.num_faces,)
        if arr.shape != want:
            return f"{nm} has shape {arr.shape}, expected {want}"
        out.append(arr.reshape((dim if vectorial else 1, bc.num_faces)))
    return np.array(out)


def check_partition(fl, bnd, inner, assigned):
    """Return None or (what, face, flags of that face).

    fl: (3, ncomp, nf) flags. assigned: dict face -> set of types assigned so far
    (a face that is absent was never assigned; a one-element set demands that type)."""
    nf = fl.shape[2]
    if nf == 0:
        return None
    cnt = fl.sum(axis=0)  # (ncomp, nf)
    bad = inner & cnt.any(axis=0)
    if bad.any():
        f = int(np.where(bad)[0][0])
        return ("condition on an interior non-fracture face", f, fl[:, :, f])
    bad = bnd & ~(cnt == 1).all(axis=0)
    if bad.any():
        f = int(np.where(bad)[0][0])
        return ("boundary face does not carry exactly one condition type", f, fl[:, :, f])
    exp = np.full(nf, 1)  # Neumann unless assigned
    for f, types in assigned.items():
        exp[f] = TYPES.index(next(iter(types))) if len(types) == 1 else -1
    sel = np.where(bnd & (exp >= 0))[0]
    ok = fl[exp[sel], :, sel].all(axis=1)
    if not ok.all():
        f = int(sel[np.where(~ok)[0][0]])
        what = "unassigned boundary face is not Neumann" if f not in assigned else \
            "face does not carry the (only) type assigned to it"
        return (what, f, fl[:, :, f])
    return None
