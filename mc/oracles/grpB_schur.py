"""Group B helper for C07: square systems with cell-wise variables and (mostly) cell-local
equations, so that many primary/secondary splits have a square, invertible and genuinely
*permuted block-diagonal* secondary block, plus the symbolic enumeration of splits.

Grid GX (one 3-cell grid, variables a,b,c,d, equations q_a..q_d): q_b = 17b + c^2 + d^2 - a has
purely quadratic couplings, q_c = 18c + b - a, q_d = 19d - a; the states SWAP_STATES make, per
cell, exactly one of d q_b/d c, d q_b/d d vanish, so the secondary block keeps its shape and its
number of non-zeros per row while the non-zeros change columns (and the block structure changes).

System (grid G0 = one 3-cell grid, G1 = 2-cell grid + 1-cell fracture + 2-cell interface):
  variables  a, b, c : one dof per cell on every subdomain (created in a chosen order)
             lam     : one dof per interface cell (G1 only, created first)
  equations  q_a, q_b, q_c : one per cell on every subdomain (set in a chosen order)
             q_lam        : one per interface cell (G1 only, set in the middle)
  q_k = sum_v D[k,v]*v*v + E[k,v]*v  (cell-local, E[k,k] dominant)  + const
        + (for the first equation in set order) a non-local coupling  (A@v0)*(B@v1)
        + (G1) couplings to/from lam through small dense integer matrices.
  q_b additionally contains c[cell 1]*c[cell 0] in its cell-0 row: the derivative with respect
  to c[cell 1] is c[cell 0]; state s0 has c[cell 0] == 0, so at s0 that entry is an exactly
  zero *stored* entry and the secondary block decouples into finer blocks than at state s1.

Reference bookkeeping (rows per equation and grid, columns per atomic variable) is derived
from hard-coded grid sizes, verified against the real grids when the system is built.
"""

from __future__ import annotations

import itertools

import numpy as np

CELLS = {"G0": {0: 3}, "G1": {0: 2, 1: 1, 2: 2}, "GX": {0: 3}}  # rank -> number of cells; G1 rank 2 = interface
NSD = {"G0": 1, "G1": 2, "GX": 1}
VARS = ("a", "b", "c")
VARS_OF = {"G0": VARS, "G1": VARS, "GX": ("a", "b", "c", "d")}

# GX: states in which, per cell, exactly one of the two purely quadratic couplings of q_b
# (to c and to d) vanishes: key "t" + one bit per cell (1: c == 0, d != 0; 0: c != 0, d == 0).
# All these states give the secondary block the same shape and the same number of non-zeros
# in every row, in different columns. "tf": both couplings present everywhere.
SWAP_STATES = ["t" + "".join(b) for b in itertools.product("01", repeat=3)] + ["tf"]


def var_names(grid):
    return (["lam"] if grid == "G1" else []) + list(VARS_OF[grid])


def swap_splits(var_order, eq_order):
    """GX splits whose secondary block contains q_b together with c and/or d."""
    return [
        {"eqs": [["q_a", [0]]], "vars": [["a", 0]]},
        {"eqs": [[e, [0]] for e in eq_names("GX", eq_order) if e in ("q_a", "q_c")], "vars": [[v, 0] for v in var_order if v in "ac"]},
        {"eqs": [[e, [0]] for e in eq_names("GX", eq_order) if e in ("q_a", "q_d")], "vars": [[v, 0] for v in var_order if v in "ad"]},
    ]


def eq_names(grid, eq_order):
    names = ["q_" + v for v in eq_order]
    if grid == "G1":
        names.insert(2, "q_lam")
    return names


def eq_ranks(grid, name):
    return [2] if name == "q_lam" else list(range(NSD[grid]))


def atomics(grid, var_order):
    """Atomic variables (name, rank) in creation order."""
    out = []
    if grid == "G1":
        out.append(("lam", 2))
    for v in var_order:
        out.extend((v, r) for r in range(NSD[grid]))
    return out


def col_blocks(grid, var_order):
    """(name, rank) -> [start, end): blocks sorted by (grid rank, creation order)."""
    at = atomics(grid, var_order)
    order = sorted(range(len(at)), key=lambda k: (at[k][1], k))
    pos, out = 0, {}
    for k in order:
        n = CELLS[grid][at[k][1]]
        out[at[k]] = (pos, pos + n)
        pos += n
    return out


def row_blocks(grid, eq_order):
    """(equation, rank) -> [start, end) in the full system (equations in set order, grids
    in md-grid order)."""
    pos, out = 0, {}
    for e in eq_names(grid, eq_order):
        for r in eq_ranks(grid, e):
            n = CELLS[grid][r]
            out[(e, r)] = (pos, pos + n)
            pos += n
    return out


# ------------------------------------------------------------------------- splits


def all_splits(grid, var_order, eq_order):
    """Every (primary equation choice, primary atomic variable subset) with as many primary
    rows as primary columns, both non-empty, and a non-empty secondary block.

    Equation choice: per equation 'absent' or any subset of its grids (the empty subset
    included: the equation is named as primary but contributes all its rows to the
    secondary block). A split is ``{"eqs": [[name, [ranks]]...], "vars": [[name, rank]...]}``
    """
    names = eq_names(grid, eq_order)
    at = atomics(grid, var_order)
    ntot = sum(CELLS[grid][r] for _, r in at)
    opts = []
    for e in names:
        rk = eq_ranks(grid, e)
        subs = [list(c) for n in range(len(rk) + 1) for c in itertools.combinations(rk, n)]
        opts.append([None] + subs)
    var_subsets = [list(c) for n in range(1, len(at)) for c in itertools.combinations(range(len(at)), n)]
    by_size: dict = {}
    for vs in var_subsets:
        by_size.setdefault(sum(CELLS[grid][at[k][1]] for k in vs), []).append(vs)
    out = []
    for choice in itertools.product(*opts):
        eqs = [[e, c] for e, c in zip(names, choice) if c is not None]
        if not eqs:
            continue
        nrows = sum(CELLS[grid][r] for _, c in eqs for r in c)
        if nrows == 0 or nrows >= ntot:
            continue
        for vs in by_size.get(nrows, []):
            out.append({"eqs": eqs, "vars": [list(at[k]) for k in vs]})
    return out


def whole_splits(grid, var_order, eq_order):
    """Splits made of whole equations and whole (md) variables only."""
    names = eq_names(grid, eq_order)
    vn = var_names(grid)
    at = atomics(grid, var_order)
    size_e = {e: sum(CELLS[grid][r] for r in eq_ranks(grid, e)) for e in names}
    size_v = {v: sum(CELLS[grid][r] for n, r in at if n == v) for v in vn}
    out = []
    for ne in range(1, len(names)):
        for es in itertools.combinations(names, ne):
            for nv in range(1, len(vn)):
                for vs in itertools.combinations(vn, nv):
                    if sum(size_e[e] for e in es) == sum(size_v[v] for v in vs):
                        out.append({"eqs": [[e, eq_ranks(grid, e)] for e in es],
                                    "vars": [list(x) for x in at if x[0] in vs]})
    return out


def restricted_samples(grid, var_order, eq_order):
    """A few grid-restricted splits for the history alphabet (G1 only)."""
    if grid != "G1":
        return []
    e = eq_names(grid, eq_order)
    first, second = [x for x in e if x != "q_lam"][:2]
    return [
        {"eqs": [[first, [0]]], "vars": [["a", 0]]},
        {"eqs": [[first, [1]], [second, [0, 1]]], "vars": [["a", 1], ["b", 0], ["b", 1]]},
        {"eqs": [[first, []], [second, [0, 1]]], "vars": [["c", 0], ["c", 1]]},
    ]


# -------------------------------------------------------------------- real system


_MDG: dict = {}


def _mdg(grid):
    import porepy as pp

    if grid not in _MDG:
        if grid in ("G0", "GX"):
            _MDG[grid] = pp.meshing.cart_grid([], [3, 1])
        else:
            _MDG[grid] = pp.meshing.cart_grid([np.array([[1, 1], [0, 1]])], [2, 1])
    mdg = _MDG[grid]
    for _, d in list(mdg.subdomains(return_data=True)) + list(mdg.interfaces(return_data=True)):
        d.clear()
    return mdg


def _ivec(n, seed, lo, hi):
    k = np.arange(n)
    return ((k * 7 + seed * 3 + k * k) % (hi - lo + 1) + lo).astype(float)


def _imat(r, c, seed):
    i = np.arange(r)[:, None]
    j = np.arange(c)[None, :]
    return ((i * 3 + j * 5 + seed + i * j) % 3 + 1).astype(float)


class LocalSystem:
    def __init__(self, grid, var_order, eq_order):
        import porepy as pp
        import scipy.sparse as sps

        self.pp = pp
        self.grid, self.var_order, self.eq_order = grid, tuple(var_order), tuple(eq_order)
        mdg = self.mdg = _mdg(grid)
        self.domains = list(mdg.subdomains()) + list(mdg.interfaces())
        if [g.num_cells for g in self.domains] != [CELLS[grid][r] for r in range(len(self.domains))]:
            raise RuntimeError("harness: grid sizes differ from the declared ones")
        es = self.es = pp.ad.EquationSystem(mdg)
        sds, intfs = mdg.subdomains(), mdg.interfaces()
        self.md: dict = {}
        if grid == "G1":
            self.md["lam"] = es.create_variables("lam", interfaces=intfs)
        for v in var_order:
            self.md[v] = es.create_variables(v, subdomains=sds)
        self.atomic = {}
        for name, mv in self.md.items():
            for sv in mv.sub_vars:
                self.atomic[(name, self.domains.index(sv.domain))] = sv
        n = sum(g.num_cells for g in sds)
        self.N = es.num_dofs()
        names = eq_names(grid, eq_order)
        self.names = names
        self.ops = {}
        D = pp.ad.DenseArray
        S = lambda M: pp.ad.SparseArray(sps.csr_matrix(M))  # noqa: E731
        for pos, ename in enumerate(names):
            if ename == "q_lam":
                lam = self.md["lam"]
                eq = D(_ivec(2, 1, 1, 2)) * lam * lam + D(_ivec(2, 2, 15, 19)) * lam
                eq = eq + S(_imat(2, n, 1)) @ self.md["a"] + D(np.array([3.0, -2.0]))
                es.set_equation(eq_named(eq, ename), intfs, {"cells": 1})
            elif grid == "GX":
                k = ename[2:]
                a, b, c, d = (self.md[v] for v in "abcd")
                if k == "a":
                    eq = D(np.full(n, 20.0)) * a + b + c + d + S(_imat(n, n, 2)) @ b + D(_ivec(n, 1, -5, 5))
                elif k == "b":
                    # purely quadratic couplings: d q_b / d c = 2c, d q_b / d d = 2d
                    eq = D(np.full(n, 17.0)) * b + c * c + d * d - a + D(_ivec(n, 2, -5, 5))
                elif k == "c":
                    eq = D(np.full(n, 18.0)) * c + b - a + D(_ivec(n, 3, -5, 5))
                else:
                    eq = D(np.full(n, 19.0)) * d - a + D(_ivec(n, 4, -5, 5))
                es.set_equation(eq_named(eq, ename), sds, {"cells": 1})
            else:
                k = ename[2:]
                eq = None
                for iv, v in enumerate(VARS):
                    dvec = _ivec(n, 10 * (ord(k) - 96) + iv, 1, 2)
                    if v == k:
                        evec = _ivec(n, 20 * (ord(k) - 96) + iv, 15, 19)
                    else:
                        evec = _ivec(n, 30 * (ord(k) - 96) + iv, 1, 4)
                    t = D(dvec) * self.md[v] * self.md[v] + D(evec) * self.md[v]
                    eq = t if eq is None else eq + t
                if pos == 0:
                    # non-local coupling in the first equation
                    v0, v1 = VARS[0], VARS[1]
                    eq = eq + (S(_imat(n, n, 2)) @ self.md[v0]) * (S(_imat(n, n, 3)) @ self.md[v1])
                if k == "b":
                    # q_b[cell 0] += c[cell 1] * c[cell 0]: the derivative with respect to
                    # c[cell 1] is c[cell 0], an exactly zero (but stored) entry at state s0 which
                    # is the only link between the cell-0 and the cell-1 block of A_ss
                    shift = np.zeros((n, n))
                    shift[0, 1] = 1.0
                    g = np.zeros(n)
                    g[0] = 1.0
                    eq = eq + D(g) * (S(shift) @ self.md["c"]) * self.md["c"]
                if grid == "G1" and k == "a":
                    eq = eq + S(_imat(n, 2, 4)) @ self.md["lam"]
                eq = eq + D(_ivec(n, ord(k), -5, 5))
                es.set_equation(eq_named(eq, ename), sds, {"cells": 1})
            self.ops[ename] = es.equations[ename]
        self.col = col_blocks(grid, var_order)
        self.row = row_blocks(grid, eq_order)
        # states in global dof order
        s1 = np.arange(self.N) % 3 + 1.0
        if grid == "GX":
            self.states = {}
            c0, d0 = self.col[("c", 0)][0], self.col[("d", 0)][0]
            for key in SWAP_STATES:
                x = s1.copy()
                for i in range(n):
                    x[c0 + i], x[d0 + i] = float(i + 1), float(i + 2)
                    if key != "tf":
                        if key[1 + i] == "1":
                            x[c0 + i] = 0.0
                        else:
                            x[d0 + i] = 0.0
                self.states[key] = x
            self.stored_key = "tf"
        else:
            s0 = s1.copy()
            s0[self.col[("c", 0)][0]] = 0.0
            self.states = {"s0": s0, "s1": s1}
            self.stored_key = "s1"
        es.set_variable_values(self.states[self.stored_key].copy(), None, time_step_index=0, iterate_index=0)

    # ---- references
    def primary_rows(self, split):
        rows = []
        for e in self.names:  # set order
            for name, ranks in split["eqs"]:
                if name == e:
                    for r in sorted(ranks):
                        rows.extend(range(*self.row[(e, r)]))
        return np.array(rows, dtype=int)

    def primary_cols(self, split):
        cols = []
        for name, rank in split["vars"]:
            cols.extend(range(*self.col[(name, rank)]))
        return np.array(sorted(cols), dtype=int)

    def full(self, state_key):
        J, r = self.es.assemble(state=self.states[state_key].copy())
        return J.toarray(), np.asarray(r, dtype=float)

    # ---- arguments for the real call
    def eq_arg(self, split, variant):
        whole = all(sorted(ranks) == eq_ranks(self.grid, e) for e, ranks in split["eqs"])
        if whole and variant % 2 == 0:
            return [e for e, _ in split["eqs"]] if variant % 4 == 0 else [self.ops[e] for e, _ in split["eqs"]]
        items = list(split["eqs"])
        if variant % 2:
            items = items[::-1]
        return {(e if variant % 4 < 2 else self.ops[e]): [self.domains[r] for r in reversed(ranks)] for e, ranks in items}

    def var_arg(self, split, variant):
        have = {tuple(x) for x in split["vars"]}
        names = sorted({n for n, _ in have})
        whole = all(((n, r) in have) for n in names for (n2, r) in self.atomic if n2 == n)
        if whole and variant % 3 == 0:
            return names
        if whole and variant % 3 == 1:
            return [self.md[n] for n in reversed(names)]
        return [self.atomic[tuple(x)] for x in reversed(split["vars"])]


def eq_named(eq, name):
    eq.set_name(name)
    return eq
