"""Group A: operator-tree programs for C02 (parser vs mathematical meaning).

Programs are JSON-able nested lists over named leaves (see ``LEAVES``):

    ["leaf", name]
    ["bin", op, l, r]        op in add sub mul div pow matmul  (Python operators on the
                             real objects, so plain numbers / arrays / scipy matrices on
                             the left exercise the reverse overloads)
    ["neg", e]
    ["fn", "exp", e]   ["fn2", "maximum", a, b]     pp.ad.Function wrappers
    ["prev", "t"|"i", k, e]  e.previous_timestep(k) / e.previous_iteration(k)
    ["tinc", e]  ["dt", e]   pp.ad.time_increment(e) / pp.ad.dt(e, Scalar(0.5))
    (function names for "fn": exp sin log abs lam, lam = user lambda x*x+1)

The static side (leaf table, symbolic sizes, admissibility) needs no porepy, so
``cases()`` stays cheap. ``Ctx`` builds the md-grid, the equation system and the stored
values; ``build`` creates the operator; ``Meaning`` is the independent evaluation
(subclass of the C01 complex-step oracle over the whole state vector).
"""

from __future__ import annotations

import numpy as np

from mc.oracles.grpA_adexpr import H, Oracle, Skip  # noqa: F401

GRIDS = ("single", "frac", "line")
# symbolic sizes per grid: N cells of all subdomains, N1 cells of first subdomain, NI
# interface cells, NF faces of first subdomain, M = max(1, N // 2)
SIZES = {
    "single": {"N": 2, "N1": 2, "NI": 0, "NF": 7, "M": 1},
    "frac": {"N": 6, "N1": 4, "NI": 4, "NF": 14, "M": 3},
    "line": {"N": 3, "N1": 3, "NI": 0, "NF": 4, "M": 1},
}

# name: (kind, size symbol(s), plain?)   kind: advec shifted constvec scalar matrix slicer
LEAVES = {
    "p": ("advec", "N", False),
    "s": ("advec", "N", False),
    "p_rev": ("advec", "N", False),
    "p_first": ("advec", "N1", False),
    "p_md1": ("advec", "N1", False),
    "u": ("advec", "2N", False),
    "lam": ("advec", "NI", False),
    "q": ("advec", "NF", False),
    "p_t1": ("shifted", "N", False),
    "p_t2": ("shifted", "N", False),
    "p_i1": ("shifted", "N", False),
    "p_i2": ("shifted", "N", False),
    "p_rev_t1": ("shifted", "N", False),
    "p_rev_t2": ("shifted", "N", False),
    "p_rev_i1": ("shifted", "N", False),
    "p_rev_i2": ("shifted", "N", False),
    "p_first_t1": ("shifted", "N1", False),
    "p_first_i2": ("shifted", "N1", False),
    "dense": ("constvec", "N", False),
    "denseM": ("constvec", "M", False),
    "nparr": ("constvec", "N", True),
    "nparr_i": ("constvec", "N", True),
    "tdd": ("constvec", "N", False),
    "tdd_t1": ("constvec", "N", False),
    "Scalar2": ("scalar", None, False),
    "ScalarN": ("scalar", None, False),
    "pyfloat": ("scalar", None, True),
    "pyint": ("scalar", None, True),
    "S_csr": ("matrix", ("N", "N"), False),
    "S_csc": ("matrix", ("N", "N"), False),
    "S_dia": ("matrix", ("N", "N"), False),
    "S_dia2": ("matrix", ("N", "N"), False),
    "S_coo": ("matrix", ("N", "N"), False),
    "S_bsr": ("matrix", ("N", "N"), False),
    "spmat": ("matrix", ("N", "N"), True),
    "spmat_dia": ("matrix", ("N", "N"), True),
    "S_u": ("matrix", ("N", "2N"), False),
    "S_q": ("matrix", ("N", "NF"), False),
    "proj": ("slicer", ("M", "N"), False),
    "projlist": ("slicer", ("M", "N"), False),
    "projT": ("slicer", ("N", "M"), False),
}
SCALAR_VALUES = {"Scalar2": 2.0, "ScalarN": -1.5, "pyfloat": 0.5, "pyint": 2}

# reduced leaf alphabet used inside depth-2 programs
INNER_LEAVES = ["p", "s", "p_rev", "p_rev_t1", "p_first", "u", "p_t1", "p_i2", "dense", "nparr", "tdd", "Scalar2", "pyfloat", "pyint", "S_csr", "S_dia", "spmat", "S_u", "proj", "projlist"]
ELEMENTWISE = ("add", "sub", "mul", "div", "pow")


def _sym(grid, s):
    if s is None:
        return None
    if isinstance(s, tuple):
        return tuple(_sym(grid, x) for x in s)
    if s == "2N":
        return 2 * SIZES[grid]["N"]
    return SIZES[grid][s]


def leaf_names(grid):
    out = []
    for name, (kind, size, plain) in LEAVES.items():
        sz = _sym(grid, size)
        if sz == 0 or (isinstance(sz, tuple) and 0 in sz):
            continue
        if name.startswith("p_rev") and grid != "frac":
            continue
        out.append(name)
    return out


class Inadmissible(Exception):
    pass


def typ(e, grid):
    """Static type of a program: (kind, size, all_plain, has_current_ad, has_shift).
    kind in vec scalar matrix slicer. Raises Inadmissible for programs outside the set
    of expressions with a defined meaning that the property promises to evaluate."""
    t = e[0]
    if t == "leaf":
        kind, size, plain = LEAVES[e[1]]
        k = {"advec": "vec", "shifted": "vec", "constvec": "vec"}.get(kind, kind)
        return (k, _sym(grid, size), plain, kind == "advec", kind == "shifted" or e[1] == "tdd_t1")
    if t == "neg":
        k, s, plain, ad, sh = typ(e[1], grid)
        if plain or k == "slicer":
            raise Inadmissible
        return (k, s, False, ad, sh)
    if t == "fn":
        k, s, plain, ad, sh = typ(e[2], grid)
        if plain or k != "vec":
            raise Inadmissible
        return ("vec", s, False, ad, sh)
    if t == "fn2":
        a, b = typ(e[2], grid), typ(e[3], grid)
        if a[2] or b[2] or a[0] != "vec" or b[0] != "vec" or a[1] != b[1]:
            raise Inadmissible
        return ("vec", a[1], False, a[3] or b[3], a[4] or b[4])
    if t in ("tinc", "dt"):
        k, s, plain, ad, sh = typ(e[1], grid)
        if plain or sh or k not in ("vec", "scalar"):
            raise Inadmissible
        return (k, s, False, ad, True)
    if t == "prev":
        k, s, plain, ad, sh = typ(e[3], grid)
        if plain or sh or k not in ("vec", "scalar") or e[3][0] == "leaf" and LEAVES[e[3][1]][0] in ("scalar",):
            raise Inadmissible
        return (k, s, False, False, True)
    if t == "bin":
        op = e[1]
        a, b = typ(e[2], grid), typ(e[3], grid)
        if a[2] and b[2]:
            raise Inadmissible  # no Operator involved: plain numpy, not our business
        ad, sh = a[3] or b[3], a[4] or b[4]
        if op == "matmul":
            if a[0] not in ("matrix", "slicer"):
                raise Inadmissible
            if b[0] == "vec":
                if a[1][1] != b[1]:
                    raise Inadmissible
                return ("vec", a[1][0], False, ad, sh)
            if b[0] == "matrix" and a[0] == "matrix" and a[1][1] == b[1][0] and not (a[2] or b[2]):
                return ("matrix", (a[1][0], b[1][1]), False, ad, sh)
            raise Inadmissible
        # elementwise
        ka, kb = a[0], b[0]
        if "slicer" in (ka, kb):
            raise Inadmissible
        if "matrix" in (ka, kb):
            if a[2] or b[2]:
                # plain scipy matrix in elementwise arithmetic / plain number with a
                # matrix: only `@` with a plain scipy matrix is in the promised set
                if not ((ka == "matrix" and kb == "scalar" and b[2] and not a[2]) or (kb == "matrix" and ka == "scalar" and a[2] and not b[2])):
                    raise Inadmissible
            if ka == "matrix" and kb == "matrix":
                if op in ("add", "sub") and a[1] == b[1]:
                    return ("matrix", a[1], False, ad, sh)
                raise Inadmissible
            if ka == "matrix" and kb == "scalar" and op in ("mul", "div"):
                return ("matrix", a[1], False, ad, sh)
            if kb == "matrix" and ka == "scalar" and op == "mul":
                return ("matrix", b[1], False, ad, sh)
            raise Inadmissible
        if ka == "vec" and kb == "vec":
            if a[1] != b[1]:
                raise Inadmissible
            return ("vec", a[1], False, ad, sh)
        if ka == "vec" or kb == "vec":
            return ("vec", a[1] if ka == "vec" else b[1], False, ad, sh)
        return ("scalar", None, False, ad, sh)
    raise KeyError(t)


def admissible(e, grid):
    try:
        return typ(e, grid)
    except Inadmissible:
        return None


def show(e):
    t = e[0]
    if t == "leaf":
        return e[1]
    if t == "neg":
        return f"(-{show(e[1])})"
    if t == "fn":
        return f"F_{e[1]}({show(e[2])})"
    if t == "fn2":
        return f"F_{e[1]}({show(e[2])}, {show(e[3])})"
    if t == "prev":
        return f"{show(e[3])}.prev_{e[1]}({e[2]})"
    if t == "tinc":
        return f"time_increment({show(e[1])})"
    if t == "dt":
        return f"dt({show(e[1])}, 0.5)"
    s = {"add": "+", "sub": "-", "mul": "*", "div": "/", "pow": "**", "matmul": "@"}[e[1]]
    return f"({show(e[2])} {s} {show(e[3])})"


def ops_in(e, acc=None):
    acc = set() if acc is None else acc
    if e[0] == "bin":
        acc.add(e[1])
    elif e[0] in ("neg", "fn", "fn2", "prev", "tinc", "dt"):
        acc.add(e[0] + (e[1] if e[0] in ("prev", "fn") else ""))
    for c in e[1:]:
        if isinstance(c, list):
            ops_in(c, acc)
    return acc


def leaves_in(e, acc=None):
    acc = [] if acc is None else acc
    if e[0] == "leaf":
        acc.append(e[1])
    for c in e[1:]:
        if isinstance(c, list):
            leaves_in(c, acc)
    return acc


# ----------------------------------------------------------------------------- programs


def depth1(grid, names=None):
    names = leaf_names(grid) if names is None else [n for n in names if n in leaf_names(grid)]
    L = [["leaf", n] for n in names]
    progs = []
    for a in L:
        progs.append(["neg", a])
        progs.append(["fn", "exp", a])
        for b in L:
            progs.append(["fn2", "maximum", a, b])
            for op in ELEMENTWISE + ("matmul",):
                progs.append(["bin", op, a, b])
    return [p for p in progs if admissible(p, grid)]


INNER_ROOTS = ("add", "mul", "div", "matmul", "fn", "fn2")

# different wrapped functions applied to key-identical arguments
FUNCTIONS = ("exp", "sin", "log", "abs", "lam")
FN_ARGS = [
    ["leaf", "p"],
    ["leaf", "s"],
    ["leaf", "p_rev"],
    ["bin", "mul", ["leaf", "p"], ["leaf", "s"]],
    ["bin", "add", ["leaf", "p"], ["leaf", "dense"]],
    ["bin", "matmul", ["leaf", "S_csr"], ["leaf", "p"]],
    ["bin", "div", ["leaf", "tdd"], ["leaf", "p"]],
]
DT_STEP = 0.5


def fn_sum_programs(grid, arg):
    """f(arg) o g(arg') for every ordered pair of different functions (arg' is a second,
    structurally identical construction of arg), pushed back in time / iteration."""
    import copy as _copy

    if admissible(arg, grid) is None:
        return []
    bases = []
    for f in FUNCTIONS:
        for g in FUNCTIONS:
            if f == g:
                continue
            for op in ("add", "sub", "mul"):
                bases.append(["bin", op, ["fn", f, _copy.deepcopy(arg)], ["fn", g, _copy.deepcopy(arg)]])
    bases.append(["bin", "add", ["bin", "add", ["fn", "exp", arg], ["fn", "sin", arg]], ["fn", "log", arg]])
    bases.append(["bin", "mul", ["fn", "lam", ["fn", "exp", arg]], ["fn", "lam", ["fn", "sin", arg]]])
    progs = []
    for b in bases:
        progs.append(b)
        for k in (1, 2):
            progs.append(["prev", "t", k, b])
            progs.append(["prev", "i", k, b])
        progs.append(["tinc", b])
        progs.append(["dt", b])
        progs.append(["bin", "sub", ["leaf", "p"] if typ(b, grid)[1] == _sym(grid, "N") else ["leaf", "pyfloat"], ["prev", "t", 1, b]])
    return [p for p in progs if admissible(p, grid)]


def inner_programs(grid):
    out = []
    for p in depth1(grid, INNER_LEAVES):
        root = p[1] if p[0] == "bin" else p[0]
        if root in INNER_ROOTS:
            out.append(p)
    return out


def depth2_for_inner(grid, inner, tier):
    """All depth-2 programs with the given inner node."""
    names = leaf_names(grid)
    progs = [["neg", inner], ["fn", "exp", inner]]
    for k in (1, 2):
        progs.append(["prev", "t", k, inner])
        progs.append(["prev", "i", k, inner])
    for n in names:
        b = ["leaf", n]
        progs.append(["fn2", "maximum", inner, b])
        progs.append(["fn2", "maximum", b, inner])
        for op in ELEMENTWISE + ("matmul",):
            progs.append(["bin", op, inner, b])
            progs.append(["bin", op, b, inner])
    # a shifted copy of the inner tree combined with current leaves (depth 3 by wrapper)
    for kind, k in (("t", 1), ("i", 1), ("i", 2)):
        w = ["prev", kind, k, inner]
        for n in ("p", "pyfloat", "nparr", "S_csr", "proj"):
            if n in names:
                b = ["leaf", n]
                for op in ("add", "sub", "mul", "div", "matmul"):
                    progs.append(["bin", op, w, b])
                    progs.append(["bin", op, b, w])
    return [p for p in progs if admissible(p, grid)]


# ----------------------------------------------------------------------------- context


def _lattice(n, a, b, base=(0.3, 0.7, 1.3, 0.5, 1.1)):
    return np.array([base[(i * a + b) % len(base)] for i in range(n)], dtype=float)


def dense_mat(rows, cols, salt):
    D = np.zeros((rows, cols))
    for i in range(rows):
        for j in range(cols):
            if (i + 2 * j + salt) % 3 != 0 or i == j:
                D[i, j] = (((3 * i + 5 * j + salt) % 7) - 3) * 0.5 + (0.25 if i == j else 0.0)
    return D


def band_mat(n, offsets, salt):
    D = np.zeros((n, n))
    for i in range(n):
        for o in offsets:
            j = i + o
            if 0 <= j < n:
                D[i, j] = 0.5 + 0.25 * ((2 * i + 3 * j + salt) % 5) * (1 if (i + j) % 2 == 0 else -1) + (1.0 if o == 0 else 0.0)
    return D


_CTX = {}


def context(grid):
    if grid not in _CTX:
        _CTX[grid] = Ctx(grid)
    return _CTX[grid]


class Ctx:
    """md-grid + equation system + stored values for one grid letter."""

    def __init__(self, grid):
        import porepy as pp

        self.grid = grid
        if grid == "single":
            g = pp.CartGrid(np.array([2, 1]))
            g.compute_geometry()
            mdg = pp.MixedDimensionalGrid()
            mdg.add_subdomains([g])
        elif grid == "line":
            g = pp.CartGrid(np.array([3]))
            g.compute_geometry()
            mdg = pp.MixedDimensionalGrid()
            mdg.add_subdomains([g])
        else:
            mdg, _ = pp.mdg_library.square_with_orthogonal_fractures("cartesian", {"cell_size": 0.5}, fracture_indices=[1])
        self.mdg = mdg
        sds = mdg.subdomains()
        intfs = mdg.interfaces()
        eqs = pp.ad.EquationSystem(mdg)
        self.eqs = eqs
        # interleave creation order so that dof blocks of one variable are not contiguous
        eqs.create_variables("p", dof_info={"cells": 1}, subdomains=sds)
        eqs.create_variables("u", dof_info={"cells": 2}, subdomains=sds)
        if intfs:
            eqs.create_variables("lam", dof_info={"cells": 1}, interfaces=intfs)
        eqs.create_variables("s", dof_info={"cells": 1}, subdomains=sds)
        eqs.create_variables("q", dof_info={"faces": 1}, subdomains=sds[:1])
        S = SIZES[grid]
        N = sum(sd.num_cells for sd in sds)
        got = {"N": N, "N1": sds[0].num_cells, "NI": sum(i.num_cells for i in intfs), "NF": sds[0].num_faces, "M": max(1, N // 2)}
        if got != S:
            raise RuntimeError(f"size table out of date for grid {grid}: {got} != {S}")
        self.S = S
        self.D = eqs.num_dofs()
        # stored values per atomic variable and storage index
        self.atomic = list(eqs.variables)
        self.stored = {}  # (var id, 't'|'i', index) -> values
        self.dofs = {}
        for j, v in enumerate(self.atomic):
            self.dofs[v.id] = np.asarray(eqs.dofs_of([v]), dtype=int)
            data = mdg.subdomain_data(v.domain) if isinstance(v.domain, pp.Grid) else mdg.interface_data(v.domain)
            for idx in range(3):
                vals = _lattice(v.size, 2, 3 * j + idx + 1) + 0.01 * idx
                pp.set_solution_values(v.name, vals, data, iterate_index=idx)
                self.stored[(v.id, "i", idx)] = vals
            for idx in range(2):
                vals = _lattice(v.size, 3, 2 * j + idx) + 0.02 * (idx + 1)
                pp.set_solution_values(v.name, vals, data, time_step_index=idx)
                self.stored[(v.id, "t", idx)] = vals
        # explicit state, different from every stored vector
        self.state = _lattice(self.D, 1, 2) + 0.005
        self.state0 = np.empty(self.D)
        for v in self.atomic:
            self.state0[self.dofs[v.id]] = self.stored[(v.id, "i", 0)]
        # time-dependent dense array on all subdomains
        self.tdd = {}
        off = 0
        cur, t0, t1 = _lattice(N, 2, 1) + 0.03, _lattice(N, 3, 4) + 0.04, _lattice(N, 1, 3) + 0.06
        for sd in sds:
            data = mdg.subdomain_data(sd)
            pp.set_solution_values("tdd", cur[off : off + sd.num_cells], data, iterate_index=0)
            pp.set_solution_values("tdd", t0[off : off + sd.num_cells], data, time_step_index=0)
            pp.set_solution_values("tdd", t1[off : off + sd.num_cells], data, time_step_index=1)
            off += sd.num_cells
        self.tdd = {"cur": cur, "t0": t0, "t1": t1}
        # constants
        self.const = {
            "dense": np.array([[0.5, 2.0, 1.25, 3.0, 0.75, 1.5][i % 6] for i in range(N)]),
            "denseM": np.array([[1.5, 0.25, 2.5][i % 3] for i in range(S["M"])]),
            "nparr": np.array([[1.5, 0.5, 2.0, 0.75, 3.0, 1.25][i % 6] for i in range(N)]),
            "nparr_i": np.array([[2, 1, 3, 1, 2, 4][i % 6] for i in range(N)], dtype=np.int64),
        }
        self.mats = {
            "S_csr": dense_mat(N, N, 0),
            "S_csc": dense_mat(N, N, 1),
            "spmat": dense_mat(N, N, 2),
            "S_u": dense_mat(N, 2 * N, 3),
            "S_q": dense_mat(N, S["NF"], 4),
            "S_dia": band_mat(N, (-1, 0, 1), 5),
            "S_dia2": band_mat(N, (-1, 1), 6),  # zero main diagonal
            "S_coo": dense_mat(N, N, 7),
            "S_bsr": dense_mat(N, N, 8),
            "spmat_dia": band_mat(N, (0, 1), 9),
        }
        M = S["M"]
        # slicers: (domain_indices, range_indices, domain_size, range_size)
        self.slicers = {
            "Pa": (np.arange(M), np.arange(M), N, M),
            "Pb": (np.arange(N - M, N), np.arange(M)[::-1].copy(), N, M),
        }

    # -- variables
    def var_list(self, name):
        return [v for v in self.atomic if v.name == name]

    def leaf_vars(self, name):
        """Atomic variables (in order) and shift of a variable leaf."""
        base = {"p": "p", "s": "s", "u": "u", "lam": "lam", "q": "q", "p_rev": "p", "p_first": "p", "p_md1": "p"}
        shift = None
        n = name
        for suf, sh in (("_t1", ("t", 1)), ("_t2", ("t", 2)), ("_i1", ("i", 1)), ("_i2", ("i", 2))):
            if name.endswith(suf):
                n, shift = name[: -len(suf)], sh
        vs = self.var_list(base[n])
        if n == "p_rev":
            vs = vs[::-1]
        if n in ("p_first", "p_md1"):
            vs = vs[:1]
        return vs, shift, n == "p_first"

    def slicer_dense(self, key):
        di, ri, ds, rs = self.slicers[key]
        P = np.zeros((rs, ds))
        P[ri, di] = 1.0
        return P


# ----------------------------------------------------------------------------- build (implementation side)


def build(e, ctx):
    """Create the real object for a program (fresh leaves every time)."""
    import operator

    import porepy as pp
    import scipy.sparse as sps

    t = e[0]
    if t == "leaf":
        name = e[1]
        kind = LEAVES[name][0]
        if kind in ("advec", "shifted"):
            vs, shift, atomic = ctx.leaf_vars(name)
            v = vs[0] if atomic else pp.ad.MixedDimensionalVariable(vs)
            if shift is not None:
                v = v.previous_timestep(shift[1]) if shift[0] == "t" else v.previous_iteration(shift[1])
            return v
        if name in ("dense", "denseM"):
            return pp.ad.DenseArray(ctx.const[name].copy())
        if name in ("nparr", "nparr_i"):
            return ctx.const[name].copy()
        if name == "tdd":
            return pp.ad.TimeDependentDenseArray("tdd", ctx.mdg.subdomains())
        if name == "tdd_t1":
            return pp.ad.TimeDependentDenseArray("tdd", ctx.mdg.subdomains()).previous_timestep()
        if name in ("Scalar2", "ScalarN"):
            return pp.ad.Scalar(SCALAR_VALUES[name])
        if name == "pyfloat":
            return float(SCALAR_VALUES[name])
        if name == "pyint":
            return int(SCALAR_VALUES[name])
        if name in ("S_csr", "S_u"):
            return pp.ad.SparseArray(sps.csr_matrix(ctx.mats[name]))
        if name in ("S_csc", "S_q"):
            return pp.ad.SparseArray(sps.csc_matrix(ctx.mats[name]))
        if name == "spmat":
            return sps.csr_matrix(ctx.mats[name])
        if name in ("S_dia", "S_dia2"):
            M = sps.dia_matrix(ctx.mats[name])
            if M.format != "dia" or not np.array_equal(M.toarray(), ctx.mats[name]):
                raise RuntimeError("dia leaf not as intended")
            return pp.ad.SparseArray(M)
        if name == "spmat_dia":
            return sps.dia_matrix(ctx.mats[name])
        if name == "S_coo":
            return pp.ad.SparseArray(sps.coo_matrix(ctx.mats[name]))
        if name == "S_bsr":
            return pp.ad.SparseArray(sps.bsr_matrix(ctx.mats[name]))
        if name in ("proj", "projT"):
            di, ri, ds, rs = ctx.slicers["Pb"]
            P = pp.ad.Projection(domain_indices=di.copy(), range_indices=ri.copy(), domain_size=ds, range_size=rs)
            return P.T if name == "projT" else P
        if name == "projlist":
            ps = []
            for key in ("Pa", "Pb"):
                di, ri, ds, rs = ctx.slicers[key]
                ps.append(pp.ad.Projection(domain_indices=di.copy(), range_indices=ri.copy(), domain_size=ds, range_size=rs))
            return pp.ad.sum_projection_list(ps)
        raise KeyError(name)
    if t == "neg":
        return -build(e[1], ctx)
    if t == "fn":
        from porepy.numerics.ad import functions as F

        funcs = {"exp": F.exp, "sin": F.sin, "log": F.log, "abs": F.abs, "lam": (lambda x: x * x + 1.0)}
        return pp.ad.Function(funcs[e[1]], e[1])(build(e[2], ctx))
    if t == "tinc":
        return pp.ad.time_increment(build(e[1], ctx))
    if t == "dt":
        return pp.ad.dt(build(e[1], ctx), pp.ad.Scalar(DT_STEP))
    if t == "fn2":
        from porepy.numerics.ad import functions as F

        return pp.ad.Function(F.maximum, "maximum")(build(e[2], ctx), build(e[3], ctx))
    if t == "prev":
        inner = build(e[3], ctx)
        return inner.previous_timestep(e[2]) if e[1] == "t" else inner.previous_iteration(e[2])
    f = {"add": operator.add, "sub": operator.sub, "mul": operator.mul, "div": operator.truediv, "pow": operator.pow, "matmul": operator.matmul}[e[1]]
    return f(build(e[2], ctx), build(e[3], ctx))


# ----------------------------------------------------------------------------- meaning (oracle side)


class Meaning(Oracle):
    """Independent evaluation of a program on a given current state vector."""

    def __init__(self, ctx, state):
        D = state.size
        Z = np.repeat(state.astype(float)[:, None], D + 1, axis=1).astype(complex)
        for j in range(D):
            Z[j, j + 1] += 1j * H
        self.Z = Z
        self.ctx = ctx
        self.scale = 1.0
        self.X = Z  # used by the base class only for the number of columns

    def _var(self, name, shift):
        ctx = self.ctx
        vs, own, _ = ctx.leaf_vars(name)
        sh = own if own is not None else shift
        if sh is None:
            rows = np.concatenate([ctx.dofs[v.id] for v in vs])
            return self.Z[rows]
        return np.concatenate([ctx.stored[(v.id, sh[0], sh[1] - 1)] for v in vs])[:, None]

    def m(self, e, shift=None):
        """Value of e: complex (m, K) for AD vectors, real (m, 1) for constant vectors,
        float for scalars, real 2-d ndarray (tagged by type) for matrices."""
        ctx = self.ctx
        t = e[0]
        if t == "leaf":
            name = e[1]
            kind = LEAVES[name][0]
            if kind in ("advec", "shifted"):
                return self._var(name, shift)
            if name in ctx.const:
                return ctx.const[name].astype(float)[:, None]
            if name == "tdd":
                if shift is not None and shift[0] == "t":
                    return ctx.tdd[f"t{shift[1] - 1}"][:, None]
                return ctx.tdd["cur"][:, None]
            if name == "tdd_t1":
                return ctx.tdd["t0"][:, None]
            if name in SCALAR_VALUES:
                return float(SCALAR_VALUES[name])
            if name in ctx.mats:
                return Mat(ctx.mats[name])
            if name == "proj":
                return Mat(ctx.slicer_dense("Pb"))
            if name == "projT":
                return Mat(ctx.slicer_dense("Pb").T)
            if name == "projlist":
                return Mat(ctx.slicer_dense("Pa") + ctx.slicer_dense("Pb"))
            raise KeyError(name)
        if t == "neg":
            v = self.m(e[1], shift)
            return Mat(-v.A) if isinstance(v, Mat) else self._note(-v)
        if t == "fn":
            z = self._vec(self.m(e[2], shift))
            if e[1] == "lam":
                return self._note(z * z + 1.0)
            return self._note(self._fn(e[1], z))
        if t in ("tinc", "dt"):
            if shift is not None:
                raise Skip("nested shift")
            d = self.m(e[1], None) - self.m(e[1], ("t", 1))
            return self._note(d if t == "tinc" else d / DT_STEP)
        if t == "fn2":
            a, b = self._vec(self.m(e[2], shift)), self._vec(self.m(e[3], shift))
            ar, br = a[:, 0].real, b[:, 0].real
            if np.any(np.abs(ar - br) < 1e-6):
                raise Skip("kink:maximum-equal-arguments")
            K = self.Z.shape[1]
            a, b = np.broadcast_to(a, (a.shape[0], K)), np.broadcast_to(b, (b.shape[0], K))
            return self._note(np.where((br > ar)[:, None], b, a))
        if t == "prev":
            if shift is not None:
                raise Skip("nested shift")
            return self.m(e[3], (e[1], e[2]))
        op = e[1]
        a, b = self.m(e[2], shift), self.m(e[3], shift)
        if op == "matmul":
            if isinstance(b, Mat):
                return Mat(a.A @ b.A)
            return self._note(a.A @ self._vec(b))
        if isinstance(a, Mat) or isinstance(b, Mat):
            if isinstance(a, Mat) and isinstance(b, Mat):
                return Mat(a.A + b.A if op == "add" else a.A - b.A)
            if isinstance(a, Mat):
                return Mat(a.A * b if op == "mul" else a.A / b)
            return Mat(a * b.A)
        res = self._bin(op, a, b)
        return self._note(res) if hasattr(res, "shape") else res

    @staticmethod
    def _vec(v):
        return v if np.iscomplexobj(v) else np.asarray(v, dtype=float)

    def run(self, e):
        with np.errstate(all="ignore"):
            z = self.m(e)
        K = self.Z.shape[1]
        if isinstance(z, (int, float)):
            z = np.full((1, 1), float(z))
        z = np.broadcast_to(np.asarray(z, dtype=complex), (np.shape(z)[0], K))
        val = z[:, 0].real.copy()
        jac = z[:, 1:].imag / H
        if not (np.all(np.isfinite(val)) and np.all(np.isfinite(jac))):
            raise Skip("non-finite reference")
        return val, jac


class Mat:
    """Matrix-valued intermediate of the reference evaluation."""

    def __init__(self, A):
        self.A = np.asarray(A, dtype=float)
