"""Dense reference model for ``ArraySlicer`` expressions (property C36).

Nothing in this module looks at the attributes of an ``ArraySlicer``: the projection
matrix is built from the *constructor arguments* and the documented defaults, values are
plain dense numpy arrays, forward-mode AD is re-implemented densely.

Model values are tuples

    ("vec", a)          1-d array
    ("m2d", a)          2-d dense array
    ("sp",  a)          sparse matrix, stored densely
    ("ad",  val, jac)   forward-mode AD array, Jacobian stored densely
    ("sc",  c)          python scalar

A slicer-valued term (a slicer, a product of slicers, a slicer with pending left
operands) is modelled by ``MS``: a function from model values to model values.

Terms (JSON-able):

    ["L", i]            i-th leaf (a slicer object supplied by the caller)
    ["mm", t1, t2]      t1 @ t2                      (slicer @ slicer)
    ["w", name, t]      LEFT[name] <op> t            (pending left operand)
    ["tr", t]           t.T                          (plain slicers only)
    ["cp", t]           t.copy()
"""

from __future__ import annotations

import operator

import numpy as np
import scipy.sparse as sps


class Inadmissible(Exception):
    """The expression is outside what the documentation of the slicer admits."""


# ------------------------------------------------------------------ projection matrices


def effective(dom, rng, range_size, domain_size):
    """Documented defaults of the constructor -> (dom, rng, range_size, domain_size)."""
    if dom is None and rng is None:
        raise Inadmissible("no indices")
    if rng is None:
        rng = list(range(len(dom)))
    if dom is None:
        dom = list(range(len(rng)))
    rs = range_size if range_size is not None else max(rng) + 1
    ds = domain_size if domain_size is not None else max(dom) + 1
    return list(dom), list(rng), int(rs), int(ds)


def projection(dom, rng, range_size, domain_size, ncols=None):
    """Explicit 0/1 projection matrix of ArraySlicer(dom, rng, range_size, domain_size).

    ``ncols`` overrides the number of columns (operand longer than the implied domain
    size, admitted when ``domain_size`` is not given, cf. example 1 of the docstring).
    """
    d, r, rs, ds = effective(dom, rng, range_size, domain_size)
    n = ds if ncols is None else ncols
    P = np.zeros((rs, n))
    for a, b in zip(d, r):
        P[b, a] = 1.0
    return P


def apply_P(P, Y):
    k = Y[0]
    if k == "sc":
        return ("vec", P @ np.full(P.shape[1], float(Y[1])))
    if Y[1].shape[0] != P.shape[1]:
        raise Inadmissible("size mismatch")
    if k in ("vec", "m2d", "sp"):
        return (k, P @ Y[1])
    if k == "ad":
        return ("ad", P @ Y[1], P @ Y[2])
    raise Inadmissible("kind " + k)


# ------------------------------------------------------------------------ operand values


def _pattern(n, m, variant):
    """Sparsity pattern with empty rows, full rows and varying row lengths."""
    bits = [0b101, 0b000, 0b111, 0b010, 0b110, 0b001, 0b011]
    M = np.zeros((n, m))
    for i in range(n):
        b = bits[(i + variant) % len(bits)]
        for j in range(m):
            if (b >> (j % 3)) & 1:
                M[i, j] = 1.0 + i * m + j
    return M


def target_model(kind, n):
    """Model value of the operand ``kind`` with ``n`` rows."""
    if kind == "vec":
        return ("vec", np.arange(1.0, n + 1))
    if kind == "m2d":
        return ("m2d", np.arange(1.0, 2 * n + 1).reshape(n, 2))
    if kind in ("csr", "csc", "coo", "csr_unsorted"):
        return ("sp", _pattern(n, 3, 0))
    if kind == "csr_zero":
        return ("sp", _pattern(n, 3, 2))
    if kind in ("ad", "ad_csc"):
        return ("ad", np.arange(1.0, n + 1), _pattern(n, 3, 1))
    if kind == "float":
        return ("sc", 2.5)
    if kind == "int":
        return ("sc", 3)
    raise KeyError(kind)


def _unsorted_csr(M, stored_zero=False):
    """csr matrix whose column indices are in decreasing order inside every row."""
    indptr, indices, data = [0], [], []
    for i in range(M.shape[0]):
        cols = [j for j in range(M.shape[1]) if M[i, j] != 0]
        if stored_zero and i % 2 == 0:
            zero_cols = [j for j in range(M.shape[1]) if M[i, j] == 0][:1]
            cols = cols + zero_cols
        for j in sorted(cols, reverse=True):
            indices.append(j)
            data.append(M[i, j])
        indptr.append(len(indices))
    A = sps.csr_matrix(
        (np.array(data, dtype=float), np.array(indices, dtype=np.int32), np.array(indptr, dtype=np.int32)),
        shape=M.shape,
    )
    return A


def target_real(kind, n):
    import porepy as pp

    mv = target_model(kind, n)
    if kind == "vec" or kind == "m2d":
        return mv[1].copy()
    if kind == "csr":
        return sps.csr_matrix(mv[1])
    if kind == "csc":
        return sps.csc_matrix(mv[1])
    if kind == "coo":
        return sps.coo_matrix(mv[1])
    if kind == "csr_unsorted":
        return _unsorted_csr(mv[1])
    if kind == "csr_zero":
        return _unsorted_csr(mv[1], stored_zero=True)
    if kind == "ad":
        return pp.ad.AdArray(mv[1].copy(), sps.csr_matrix(mv[2]))
    if kind == "ad_csc":
        return pp.ad.AdArray(mv[1].copy(), sps.csc_matrix(mv[2]))
    if kind == "float":
        return 2.5
    if kind == "int":
        return 3
    raise KeyError(kind)


# name -> (kind of left operand, python operator symbol)
WRAPS = {
    "f*": ("float", "*"),
    "i*": ("int", "*"),
    "f/": ("float", "/"),
    "f**": ("float", "**"),
    "f+": ("float", "+"),
    "f-": ("float", "-"),
    "csr@": ("csr", "@"),
    "csc@": ("csc", "@"),
    "ad*": ("ad", "*"),
    "ad/": ("ad", "/"),
    "ad**": ("ad", "**"),
}
_OPS = {"*": operator.mul, "/": operator.truediv, "**": operator.pow, "+": operator.add,
        "-": operator.sub, "@": operator.matmul}


def _left_dense(kind, n):
    if kind == "float":
        return ("sc", 2.0)
    if kind == "int":
        return ("sc", 3)
    if kind in ("csr", "csc"):
        # square, unsymmetric, every row and column populated, one structural zero
        A = np.array([[1.0 + ((3 * i + 5 * j) % 7) for j in range(n)] for i in range(n)])
        if n > 1:
            A[0, n - 1] = 0.0
        return ("sp", A)
    if kind == "ad":
        val = np.arange(3.0, 3.0 + n)
        jac = _pattern(n, 3, 3) + np.eye(n, 3)
        return ("ad", val, jac)
    raise KeyError(kind)


def left_model(name, n):
    return _left_dense(WRAPS[name][0], n)


def left_real(name, n):
    import porepy as pp

    kind = WRAPS[name][0]
    mv = _left_dense(kind, n)
    if kind == "float":
        return 2.0
    if kind == "int":
        return 3
    if kind == "csr":
        return sps.csr_matrix(mv[1])
    if kind == "csc":
        return sps.csc_matrix(mv[1])
    return pp.ad.AdArray(mv[1].copy(), sps.csr_matrix(mv[2]))


# ---------------------------------------------------------------- dense binary operations


def binop(L, op, R):
    """Model of ``L op R`` for the left operand kinds the documentation admits."""
    lk, rk = L[0], R[0]
    if lk == "sc":
        c = L[1]
        if rk == "sp":
            if op == "*":
                return ("sp", c * R[1])
            raise Inadmissible("scalar %s sparse" % op)
        if rk in ("vec", "m2d"):
            a = R[1]
            if op == "*":
                return (rk, c * a)
            if op == "+":
                return (rk, c + a)
            if op == "-":
                return (rk, c - a)
            if op == "/":
                if np.any(a == 0):
                    raise Inadmissible("div0")
                return (rk, c / a)
            if op == "**":
                return (rk, float(c) ** a)
        if rk == "ad":
            v, J = R[1], R[2]
            if op == "*":
                return ("ad", c * v, c * J)
            if op == "+":
                return ("ad", c + v, J.copy())
            if op == "-":
                return ("ad", c - v, -J)
            if op == "/":
                if np.any(v == 0):
                    raise Inadmissible("div0")
                return ("ad", c / v, (-(c / v**2))[:, None] * J)
            if op == "**":
                p = float(c) ** v
                return ("ad", p, (p * np.log(float(c)))[:, None] * J)
        raise Inadmissible("scalar %s %s" % (op, rk))
    if lk == "sp":
        if op != "@":
            raise Inadmissible("sparse " + op)
        A = L[1]
        if R[1].shape[0] != A.shape[1]:
            raise Inadmissible("size mismatch")
        if rk in ("vec", "m2d", "sp"):
            return (rk, A @ R[1])
        if rk == "ad":
            return ("ad", A @ R[1], A @ R[2])
        raise Inadmissible("sparse @ " + rk)
    if lk == "ad":
        av, aJ = L[1], L[2]
        if rk == "vec":
            rv, rJ = R[1], np.zeros_like(aJ)
        elif rk == "ad":
            rv, rJ = R[1], R[2]
        else:
            raise Inadmissible("ad %s %s" % (op, rk))
        if rv.shape != av.shape or rJ.shape != aJ.shape:
            raise Inadmissible("size mismatch")
        if op == "*":
            return ("ad", av * rv, rv[:, None] * aJ + av[:, None] * rJ)
        if op == "/":
            if np.any(rv == 0):
                raise Inadmissible("div0")
            return ("ad", av / rv, aJ / rv[:, None] - (av / rv**2)[:, None] * rJ)
        if op == "**":
            p = av**rv
            return ("ad", p, (rv * av ** (rv - 1.0))[:, None] * aJ + (p * np.log(av))[:, None] * rJ)
        raise Inadmissible("ad " + op)
    raise Inadmissible("left kind " + lk)


def finite(Y):
    return all(np.all(np.isfinite(np.asarray(a, dtype=float))) for a in Y[1:])


# ----------------------------------------------------------------------- slicer-valued terms


class MS:
    """Model of a slicer-valued term."""

    def __init__(self, fn, rs, ds, pending=False, inexact=False, P=None):
        self.fn, self.rs, self.ds = fn, rs, ds
        self.pending = pending  # carries a pending left operand (incl. slicer products)
        self.inexact = inexact  # involves floating point operations that round
        self.P = P  # projection matrix, for plain slicers only

    @staticmethod
    def leaf(P):
        return MS(lambda Y: apply_P(P, Y), P.shape[0], P.shape[1], P=P)


def model_term(term, leaves):
    """Model of ``term``; ``leaves[i]`` is an ``MS``."""
    tag = term[0]
    if tag == "L":
        m = leaves[term[1]]
        if m is None:
            raise Inadmissible("unset leaf")
        return m
    if tag == "mm":
        a, b = model_term(term[1], leaves), model_term(term[2], leaves)
        if a.ds != b.rs:
            raise Inadmissible("size mismatch")
        return MS(lambda Y: a.fn(b.fn(Y)), a.rs, b.ds, True, a.inexact or b.inexact)
    if tag == "tr":
        t = model_term(term[1], leaves)
        if t.P is None:
            raise Inadmissible("transpose of a slicer with pending operations")
        return MS.leaf(t.P.T.copy())
    if tag == "cp":
        return model_term(term[1], leaves)
    if tag == "w":
        t = model_term(term[2], leaves)
        kind, op = WRAPS[term[1]]
        L = left_model(term[1], t.rs)
        inexact = t.inexact or kind == "ad" or op in ("/", "**") or kind in ("csr", "csc")
        return MS(lambda Y: binop(L, op, t.fn(Y)), t.rs, t.ds, True, inexact)
    raise KeyError(tag)


def real_term(term, leaves, leaves_model):
    """The same term on the real objects, through the Python operators.

    The size of a pending left operand is taken from the model of the wrapped term
    (never from the real object)."""
    tag = term[0]
    if tag == "L":
        return leaves[term[1]]
    if tag == "mm":
        return operator.matmul(
            real_term(term[1], leaves, leaves_model), real_term(term[2], leaves, leaves_model)
        )
    if tag == "tr":
        return real_term(term[1], leaves, leaves_model).T
    if tag == "cp":
        return real_term(term[1], leaves, leaves_model).copy()
    if tag == "w":
        t = real_term(term[2], leaves, leaves_model)
        kind, op = WRAPS[term[1]]
        n = model_term(term[2], leaves_model).rs
        return _OPS[op](left_real(term[1], n), t)
    raise KeyError(tag)


def show(term, names=None):
    """Python source of a term."""
    tag = term[0]
    if tag == "L":
        return names[term[1]] if names else "S%d" % term[1]
    if tag == "mm":
        return "(%s @ %s)" % (show(term[1], names), show(term[2], names))
    if tag == "tr":
        return show(term[1], names) + ".T"
    if tag == "cp":
        return show(term[1], names) + ".copy()"
    kind, op = WRAPS[term[1]]
    return "(%s_%s %s %s)" % ("L", kind, op, show(term[2], names))


# ------------------------------------------------------------------------------ comparison


def to_dense(real):
    """Category and dense content of a result of the real code."""
    import porepy as pp

    from mc.oracles.grpK_sparse import is_wellformed

    if isinstance(real, pp.ad.AdArray):
        if not sps.issparse(real.jac):
            return ("other:AdArray with %s Jacobian" % type(real.jac).__name__, None)
        if is_wellformed(real.jac) is not None:
            return ("malformed sparse Jacobian: " + is_wellformed(real.jac), None)
        return ("ad", np.asarray(real.val, dtype=float), real.jac.toarray())
    if sps.issparse(real):
        # never densify inconsistent index arrays (scipy's C code would corrupt memory)
        if is_wellformed(real) is not None:
            return ("malformed sparse matrix: " + is_wellformed(real), None)
        return ("sp", real.toarray())
    if isinstance(real, np.ndarray):
        if real.ndim == 1:
            return ("vec", real)
        if real.ndim == 2:
            return ("m2d", real)
        return ("nd%d" % real.ndim, real)
    if isinstance(real, (int, float)):
        return ("sc", real)
    return ("other:" + type(real).__name__, None)


def differs(model, real, tol=0.0):
    """None if the real result equals the model value, else a description."""
    got = to_dense(real)
    if got[0] != model[0]:
        return "result category %s, expected %s" % (got[0], model[0])
    for a, b in zip(model[1:], got[1:]):
        a = np.asarray(a, dtype=float)
        try:
            b = np.asarray(b, dtype=float)
        except Exception:
            return "result is not numeric (dtype %s)" % getattr(b, "dtype", type(b))
        if a.shape != b.shape:
            return "shape %s, expected %s" % (b.shape, a.shape)
        if tol == 0.0:
            if not np.array_equal(a, b):
                return "values differ"
        else:
            scale = max(1.0, float(np.max(np.abs(a))) if a.size else 1.0)
            if not np.all(np.abs(a - b) <= tol * scale):
                return "values differ by %.3g" % float(np.max(np.abs(a - b)))
    return None


def dense_json(Y):
    return [Y[0]] + [np.asarray(a, dtype=float).tolist() if not isinstance(a, (int, float)) else a for a in Y[1:]]


# ------------------------------------------------------------------ concrete state (engine H)


def serialize(obj, pool, _stack=None):
    """Complete concrete state of ``obj``: every attribute, recursively.

    Slicers of the pool are referred to by position when they occur inside another
    object, so that aliasing is part of the state. Works for any helper class the
    slicer may use to store pending operations (generic traversal of ``__dict__``).
    """
    import porepy as pp

    if _stack is None:
        _stack = []
    if obj is None or isinstance(obj, (bool, int, float, str)):
        return repr(obj)
    if isinstance(obj, np.generic):
        return repr(obj.item())
    if isinstance(obj, np.ndarray):
        return ("nd", obj.dtype.str, obj.shape, obj.tobytes())
    if sps.issparse(obj):
        return ("sp", obj.format, obj.shape, obj.toarray().tobytes(), obj.data.tobytes(),
                obj.indices.tobytes() if hasattr(obj, "indices") else b"")
    if isinstance(obj, pp.ad.AdArray):
        return ("ad", serialize(obj.val, pool, _stack), serialize(obj.jac, pool, _stack))
    if isinstance(obj, (list, tuple)):
        return tuple(serialize(o, pool, _stack) for o in obj)
    if _stack:
        for j, p in enumerate(pool):
            if obj is p:
                return ("pool", j)
    if any(obj is s for s in _stack):
        return ("cycle", type(obj).__name__)
    if hasattr(obj, "__dict__"):
        _stack.append(obj)
        try:
            d = vars(obj)
            return (type(obj).__name__,) + tuple((k, serialize(d[k], pool, _stack)) for k in sorted(d))
        finally:
            _stack.pop()
    return ("opaque", repr(obj))
