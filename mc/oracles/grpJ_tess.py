"""Exact tessellation helpers for C33: all triangulations of small lattice point sets and
exact overlap measures (no porepy, no shapely; ``fractions.Fraction`` only)."""

from __future__ import annotations

import functools
import itertools
from fractions import Fraction as F

from mc.oracles import grpJ_exact as X


def _f2(p):
    return (F(p[0]), F(p[1]))


# ----------------------------------------------------------------------- convex clipping


def _ccw(poly):
    return poly if X.polygon_area2(poly) > 0 else poly[::-1]


def clip_convex(subject, clip):
    """Sutherland-Hodgman with exact arithmetic; both convex; returns the intersection
    polygon (possibly degenerate / empty list)."""
    out = _ccw(list(subject))
    clip = _ccw(list(clip))
    n = len(clip)
    for i in range(n):
        a, b = clip[i], clip[(i + 1) % n]
        inp, out = out, []
        if not inp:
            break
        for k in range(len(inp)):
            p, q = inp[k], inp[(k + 1) % len(inp)]
            sp, sq = X.orient2d(a, b, p), X.orient2d(a, b, q)
            if sp >= 0:
                out.append(p)
            if (sp > 0 and sq < 0) or (sp < 0 and sq > 0):
                t = sp / (sp - sq)
                out.append((p[0] + t * (q[0] - p[0]), p[1] + t * (q[1] - p[1])))
    return out


def overlap_area(tri_a, tri_b) -> F:
    poly = clip_convex(tri_a, tri_b)
    if len(poly) < 3:
        return F(0)
    return abs(X.polygon_area2(poly)) / 2


def tri_area(t) -> F:
    return abs(X.orient2d(*t)) / 2


# ----------------------------------------------------------------------- triangulations


def _interiors_disjoint(A, B) -> bool:
    return overlap_area(A, B) == 0


def _empty_triangles(points, domain_pieces):
    """Triangles on the point set with no other point of the set in the closed triangle and
    lying inside the domain (given as a list of convex pieces)."""
    pts = [_f2(p) for p in points]
    dom_area = sum(abs(X.polygon_area2([_f2(q) for q in piece])) / 2 for piece in domain_pieces)
    tris = []
    for ids in itertools.combinations(range(len(pts)), 3):
        T = [pts[i] for i in ids]
        if X.orient2d(*T) == 0:
            continue
        ok = True
        for k, p in enumerate(pts):
            if k in ids:
                continue
            # p in closed triangle?
            s = [X.orient2d(T[i], T[(i + 1) % 3], p) for i in range(3)]
            if all(x >= 0 for x in s) or all(x <= 0 for x in s):
                ok = False
                break
        if not ok:
            continue
        inside = sum(overlap_area(T, [_f2(q) for q in piece]) for piece in domain_pieces)
        if inside != tri_area(T):
            continue
        tris.append(ids)
    return tris, dom_area


@functools.lru_cache(maxsize=None)
def all_triangulations(points: tuple, domain_pieces: tuple):
    """Every triangulation of the domain whose vertex set is exactly ``points`` (every
    point is used, no hanging nodes). Returns a list of tuples of index triples."""
    pts = [_f2(p) for p in points]
    cand, dom_area = _empty_triangles(points, domain_pieces)
    areas = [tri_area([pts[i] for i in t]) for t in cand]
    n = len(cand)
    disjoint = [[True] * n for _ in range(n)]
    for i in range(n):
        for j in range(i + 1, n):
            d = _interiors_disjoint([pts[k] for k in cand[i]], [pts[k] for k in cand[j]])
            disjoint[i][j] = disjoint[j][i] = d
    res = []

    def rec(start, chosen, area):
        if area == dom_area:
            used = {k for i in chosen for k in cand[i]}
            if len(used) == len(pts):
                res.append(tuple(cand[i] for i in chosen))
            return
        for i in range(start, n):
            if area + areas[i] > dom_area:
                continue
            if all(disjoint[i][j] for j in chosen):
                rec(i + 1, chosen + [i], area + areas[i])

    rec(0, [], F(0))
    return res


# ----------------------------------------------------------------------- 1-d


def interval_overlap(a, b) -> F:
    """Overlap length of intervals a = (a0, a1), b = (b0, b1) given as exact numbers."""
    lo = max(min(a), min(b))
    hi = min(max(a), max(b))
    return hi - lo if hi > lo else F(0)
