"""Group A (AD framework): expression ASTs, an independent evaluator and the
implementation evaluator for forward-mode AD expressions (C01, reused by C02).

An expression is a JSON-able nested list:

    ["X"] ["Y"]                     independent AD vectors of size n
    ["c", 2.0]  ["ci", 2]           Python float / Python int
    ["af"] ["ai"]                   constant 1-d ndarray (float / int dtype); its size is
                                    that of the AD operand it is combined with
    ["neg", e]
    ["bin", op, l, r]               op in add sub mul div pow
    ["mm", fmt, shape, flav, e]     sparse matrix (format fmt, "sq"|"rect", "m"|"a") @ e
    ["get", kind, e]                row slicing: "i" "sl" "st" "ix"
    ["fn", name, e]                 function library (name from FUNCS)
    ["max", l, r]                   functions.maximum
    ["share", w, body]              DAG: w is evaluated once, every ["W"] inside body is
                                    that very object (the sub-result is used repeatedly)

The oracle (``Oracle``) never touches porepy or scipy: it evaluates the expression on
complex numpy arrays of shape (m, K), column 0 being the real point and column j the
point perturbed by i*h in direction j (complex-step differentiation), with piecewise
analytic continuations for abs / maximum / norms and constants for step functions. Points
on kinks or outside smooth domains raise ``Skip``.
"""

from __future__ import annotations

import math

import numpy as np

H = 1e-30  # complex step
MARGIN = 1e-6  # distance to kinks / domain edges below which a point is skipped

AF = [0.5, -1.5, 2.0, 1.25, -0.75, 3.0, -2.5, 0.25]
AI = [2, -1, 3, 1, -2, 4, -3, 5]

BINOPS = ("add", "sub", "mul", "div", "pow")


class Skip(Exception):
    """Reference point sits on a kink / outside the smooth domain of the expression."""

    def __init__(self, why):
        super().__init__(why)
        self.why = why


# ----------------------------------------------------------------------------- data


def const_array(kind: str, m: int) -> np.ndarray:
    if kind == "af":
        return np.array([AF[i % len(AF)] for i in range(m)], dtype=float)
    return np.array([AI[i % len(AI)] for i in range(m)], dtype=np.int64)


def dense_matrix(shape: str, m: int) -> np.ndarray:
    """Deterministic sparse-ish coefficient matrix acting on vectors of size m."""
    rows = m if shape == "sq" else 2
    D = np.zeros((rows, m))
    for i in range(rows):
        for j in range(m):
            if (i + 2 * j) % 3 != 0 or i == j:
                D[i, j] = (((3 * i + 5 * j) % 7) - 3) * 0.5 + (0.25 if i == j else 0.0)
    return D


def get_key(kind: str, m: int):
    if kind == "i":
        return min(1, m - 1)
    if kind == "sl":
        return slice(0, max(1, m - 1))
    if kind == "st":
        return slice(None, None, 2)
    if kind == "ix":
        return np.array([m - 1, 0, 0])
    if kind == "ineg":
        return -1
    if kind == "sln":
        return slice(-2, None)
    if kind == "ixn":  # integer ndarray with a negative entry (no -1)
        return np.array([-2, 0]) if m >= 2 else np.array([0])
    if kind == "ixm":  # mixed signs, unsorted, repeated, including -1 and -m
        return np.array([-1, 1 % m, -1, 0, -m])
    if kind == "ixb":  # boolean ndarray
        return np.array([i % 2 == 0 for i in range(m)])
    if kind == "lsn":  # Python list with a negative entry
        return [-1, 0]
    raise KeyError(kind)


GET_KINDS = ("i", "sl", "st", "ix", "ineg", "sln", "ixn", "ixm", "ixb", "lsn")


def get_size(kind: str, m: int) -> int:
    return {"i": 1, "sl": max(1, m - 1), "st": (m + 1) // 2, "ix": 3, "ineg": 1, "sln": min(2, m), "ixn": 2 if m >= 2 else 1, "ixm": 5, "ixb": (m + 1) // 2, "lsn": 2}[kind]


# function table: name -> (library function name, leading args, keyword args)
FUNCS = {
    "exp": ("exp", (), {}),
    "log": ("log", (), {}),
    "abs": ("abs", (), {}),
    "l2_norm1": ("l2_norm", (1,), {}),
    "l2_norm2": ("l2_norm", (2,), {}),
    "l2_norm3": ("l2_norm", (3,), {}),
    "safe_power_a": ("safe_power", (2.0, 0.0, 0.5), {}),
    "safe_power_b": ("safe_power", (-1.0, 0.0, 1e-12), {}),
    "sin": ("sin", (), {}),
    "cos": ("cos", (), {}),
    "tan": ("tan", (), {}),
    "arcsin": ("arcsin", (), {}),
    "arccos": ("arccos", (), {}),
    "arctan": ("arctan", (), {}),
    "sinh": ("sinh", (), {}),
    "cosh": ("cosh", (), {}),
    "tanh": ("tanh", (), {}),
    "arcsinh": ("arcsinh", (), {}),
    "arccosh": ("arccosh", (), {}),
    "arctanh": ("arctanh", (), {}),
    "heaviside": ("heaviside", (0.5,), {}),
    "heaviside_smooth": ("heaviside_smooth", (), {}),
    "heaviside_smooth_e": ("heaviside_smooth", (), {"eps": 0.5}),
    "characteristic": ("characteristic_function", (0.5,), {}),
}


def fn_out_size(name: str, m: int):
    if name == "l2_norm2":
        return m // 2 if m % 2 == 0 else None
    if name == "l2_norm3":
        return m // 3 if m % 3 == 0 else None
    return m


# ----------------------------------------------------------------------------- static


def size_of(e, n, wsize=None):
    """Static size of an expression (None for scalars / size-polymorphic arrays);
    raises ValueError for inadmissible (shape-inconsistent) expressions."""
    t = e[0]
    if t in ("X", "Y"):
        return n
    if t == "W":
        if wsize is None:
            raise ValueError("W outside share")
        return wsize
    if t == "share":
        return size_of(e[2], n, size_of(e[1], n, wsize))
    if t in ("c", "ci", "af", "ai"):
        return None
    if t == "neg":
        return size_of(e[1], n, wsize)
    if t in ("bin", "max"):
        l, r = (e[2], e[3]) if t == "bin" else (e[1], e[2])
        sl, sr = size_of(l, n, wsize), size_of(r, n, wsize)
        if sl is None and sr is None:
            raise ValueError("no AD operand")
        if sl is not None and sr is not None and sl != sr:
            raise ValueError("size mismatch")
        return sl if sl is not None else sr
    if t == "mm":
        m = size_of(e[4], n, wsize)
        return m if e[2] == "sq" else 2
    if t == "get":
        return get_size(e[1], size_of(e[2], n, wsize))
    if t == "fn":
        s = fn_out_size(e[1], size_of(e[2], n, wsize))
        if s is None or s == 0:
            raise ValueError("size not divisible")
        return s
    raise KeyError(t)


def is_ad(e) -> bool:
    t = e[0]
    if t in ("X", "Y", "W"):
        return True
    if t in ("c", "ci", "af", "ai"):
        return False
    return any(is_ad(c) for c in e[1:] if isinstance(c, list))


def ops_in(e, acc=None) -> set:
    """Rule classes occurring in the expression."""
    acc = set() if acc is None else acc
    t = e[0]
    if t == "bin":
        acc.add(e[1])
    elif t == "fn":
        acc.add(e[1])
    elif t in ("neg", "mm", "get", "max", "share"):
        acc.add(t)
    for c in e[1:]:
        if isinstance(c, list):
            ops_in(c, acc)
    return acc


def show(e) -> str:
    t = e[0]
    if t in ("X", "Y", "W"):
        return t
    if t == "share":
        return f"[W := {show(e[1])}; {show(e[2])}]"
    if t == "c":
        return repr(float(e[1]))
    if t == "ci":
        return repr(int(e[1]))
    if t in ("af", "ai"):
        return t
    if t == "neg":
        return f"(-{show(e[1])})"
    if t == "bin":
        s = {"add": "+", "sub": "-", "mul": "*", "div": "/", "pow": "**"}[e[1]]
        return f"({show(e[2])} {s} {show(e[3])})"
    if t == "mm":
        return f"({e[1]}_{e[2]}_{e[3]} @ {show(e[4])})"
    if t == "get":
        return f"{show(e[2])}[{e[1]}]"
    if t == "fn":
        return f"{e[1]}({show(e[2])})"
    if t == "max":
        return f"maximum({show(e[1])}, {show(e[2])})"
    raise KeyError(t)


# ----------------------------------------------------------------------------- oracle


def _int_valued(w) -> np.ndarray:
    return np.equal(np.round(w), w)


class Oracle:
    """Complex-step evaluator. ``run(e)`` -> (value (m,), jacobian (m, 2n))."""

    def __init__(self, x: np.ndarray, y: np.ndarray, affine=None):
        """Default: X = x, Y = y are the independents themselves (2n columns).
        ``affine=(z0, Jx, Jy)``: the leaves are the affine functions X = Jx z, Y = Jy z of
        hidden independents z (dense matrices; the Jacobian then has len(z0) columns)."""
        n = x.size
        self.n = n
        base = np.concatenate([x, y]).astype(float) if affine is None else np.asarray(affine[0], dtype=float)
        K = base.size
        Z = np.repeat(base[:, None], K + 1, axis=1).astype(complex)
        for j in range(K):
            Z[j, j + 1] += 1j * H
        if affine is None:
            self.X = Z[:n]
            self.Y = Z[n:]
        else:
            self.X = np.asarray(affine[1], dtype=float) @ Z
            self.Y = np.asarray(affine[2], dtype=float) @ Z
        self.scale = 1.0

    # -- helpers
    def _note(self, z):
        if np.iscomplexobj(z) and z.size:
            a = max(float(np.max(np.abs(z.real))), float(np.max(np.abs(z.imag))) / H)
            if not math.isfinite(a):
                raise Skip("overflow")
            self.scale = max(self.scale, a)
        return z

    @staticmethod
    def _re(z):
        """Real reference values (column 0) of an operand, as 1-d array or scalar."""
        if isinstance(z, (int, float)):
            return float(z)
        if np.iscomplexobj(z):
            return z[:, 0].real
        return np.asarray(z, dtype=float)[:, 0]

    def _pow(self, z, w):
        zr = np.atleast_1d(self._re(z))
        wr = np.atleast_1d(self._re(w))
        zr, wr = np.broadcast_arrays(zr, wr)
        w_const = not np.iscomplexobj(w)
        zero = np.abs(zr) < MARGIN
        if np.any(zero):
            # x**k is smooth at 0 only for a constant integer exponent k >= 1
            if not w_const or not np.all(_int_valued(wr[zero])) or np.any(wr[zero] < 1) or np.any(wr[zero] > 8):
                raise Skip("domain:pow-base-near-zero")
        neg = (zr < 0) & ~zero
        if np.any(neg):
            if not w_const:
                raise Skip("domain:pow-negative-base-ad-exponent")
            if not np.all(_int_valued(wr[neg])):
                raise Skip("domain:pow-negative-base-real-exponent")
        zc = z if not isinstance(z, (int, float)) else np.full((1, 1), float(z))
        zc = np.asarray(zc, dtype=complex)
        wc = w if not isinstance(w, (int, float)) else np.full((1, 1), float(w))
        m = max(zc.shape[0], np.asarray(wc).shape[0])
        negc = np.broadcast_to(neg, (m,))[:, None]
        zeroc = np.broadcast_to(zero, (m,))[:, None]
        zz = np.where(negc, -zc, zc)
        zz = np.where(zeroc, 1.0, zz)
        res = np.exp(wc * np.log(zz))
        if np.any(neg):
            k = np.broadcast_to(np.round(wr), (m,))[:, None]
            sign = np.where(negc, np.where(np.mod(k, 2) == 0, 1.0, -1.0), 1.0)
            res = res * sign
        if np.any(zero):
            # integer powers by repeated multiplication on the rows with a (near-)zero base
            width = max(zc.shape[1], res.shape[1])
            zb = np.broadcast_to(zc, (m, width))
            kk = np.broadcast_to(np.round(wr), (m,)).astype(int)
            res = np.broadcast_to(np.asarray(res, dtype=complex), (m, width)).copy()
            for i in np.flatnonzero(np.broadcast_to(zero, (m,))):
                r = np.ones(res.shape[1], dtype=complex)
                for _ in range(kk[i]):
                    r = r * zb[i]
                res[i] = r
        return res

    def _bin(self, op, a, b):
        if op == "add":
            return a + b
        if op == "sub":
            return a - b
        if op == "mul":
            return a * b
        if op == "div":
            br = np.atleast_1d(self._re(b))
            if np.any(np.abs(br) < MARGIN):
                raise Skip("domain:division-by-near-zero")
            return a / b
        if op == "pow":
            return self._pow(a, b)
        raise KeyError(op)

    def _fn(self, name, z):
        v = z[:, 0].real
        if name == "exp":
            return np.exp(z)
        if name == "log":
            if np.any(v < MARGIN):
                raise Skip("domain:log")
            return np.log(z)
        if name in ("abs", "l2_norm1"):
            if np.any(np.abs(v) < MARGIN):
                raise Skip("kink:abs")
            return z * np.sign(v)[:, None]
        if name in ("l2_norm2", "l2_norm3"):
            d = int(name[-1])
            zz = z.reshape(-1, d, z.shape[1])
            s = np.sum(zz * zz, axis=1)
            if np.any(np.sqrt(s[:, 0].real) < MARGIN):
                raise Skip("kink:l2_norm")
            return np.sqrt(s)
        if name in ("safe_power_a", "safe_power_b"):
            power, zero_val, tol = FUNCS[name][1]
            if np.any(np.abs(np.abs(v) - tol) < MARGIN) or (tol < MARGIN and np.any(np.abs(v) < MARGIN)):
                raise Skip("kink:safe_power")
            inside = np.abs(v) <= tol
            vv = np.where(inside[:, None], 1.0, z)
            p = self._pow(vv, float(power))
            return np.where(inside[:, None], complex(zero_val), p)
        if name == "sin":
            return np.sin(z)
        if name == "cos":
            return np.cos(z)
        if name == "tan":
            if np.any(np.abs(np.cos(v)) < 1e-3):
                raise Skip("domain:tan-pole")
            return np.sin(z) / np.cos(z)
        if name in ("arcsin", "arccos", "arctanh"):
            if np.any(np.abs(v) > 1 - MARGIN):
                raise Skip("domain:" + name)
            if name == "arctanh":
                return 0.5 * (np.log(1 + z) - np.log(1 - z))
            asin = np.arcsin(z)
            return asin if name == "arcsin" else (np.pi / 2 - asin)
        if name == "arctan":
            return np.arctan(z)
        if name == "sinh":
            return np.sinh(z)
        if name == "cosh":
            return np.cosh(z)
        if name == "tanh":
            return np.sinh(z) / np.cosh(z)
        if name == "arcsinh":
            return np.log(z + np.sqrt(z * z + 1))
        if name == "arccosh":
            if np.any(v < 1 + MARGIN):
                raise Skip("domain:arccosh")
            return np.log(z + np.sqrt(z - 1) * np.sqrt(z + 1))
        if name == "heaviside":
            if np.any(np.abs(v) < MARGIN):
                raise Skip("kink:heaviside")
            return np.repeat(np.where(v > 0, 1.0, 0.0)[:, None], z.shape[1], axis=1).astype(complex)
        if name in ("heaviside_smooth", "heaviside_smooth_e"):
            eps = FUNCS[name][2].get("eps", 1e-3)
            return 0.5 * (1 + (2 / np.pi) * np.arctan(z / eps))
        if name == "characteristic":
            tol = FUNCS[name][1][0]
            if np.any(np.abs(np.abs(v) - tol) < MARGIN):
                raise Skip("kink:characteristic")
            return np.repeat(np.where(np.abs(v) <= tol, 1.0, 0.0)[:, None], z.shape[1], axis=1).astype(complex)
        raise KeyError(name)

    # -- recursion
    def ev(self, e, partner_size=None):
        t = e[0]
        if t == "X":
            return self.X
        if t == "Y":
            return self.Y
        if t == "W":
            return self.W
        if t == "share":
            self.W = self.ev(e[1])
            return self.ev(e[2])
        if t == "c":
            return float(e[1])
        if t == "ci":
            return float(int(e[1]))
        if t in ("af", "ai"):
            return const_array(t, partner_size).astype(float)[:, None]
        if t == "neg":
            return self._note(-self.ev(e[1]))
        if t in ("bin", "max"):
            l, r = (e[2], e[3]) if t == "bin" else (e[1], e[2])
            if l[0] in ("af", "ai"):
                b = self.ev(r)
                a = self.ev(l, b.shape[0])
            else:
                a = self.ev(l)
                b = self.ev(r, a.shape[0] if hasattr(a, "shape") else None)
            if t == "bin":
                return self._note(self._bin(e[1], a, b))
            ar, br = np.atleast_1d(self._re(a)), np.atleast_1d(self._re(b))
            m = max(np.shape(a)[0] if hasattr(a, "shape") else 1, np.shape(b)[0] if hasattr(b, "shape") else 1)
            K = self.X.shape[1]
            ac = np.broadcast_to(np.asarray(a, dtype=complex) if hasattr(a, "shape") else complex(a), (m, K))
            bc = np.broadcast_to(np.asarray(b, dtype=complex) if hasattr(b, "shape") else complex(b), (m, K))
            eq = np.broadcast_to(np.abs(ar - br) < MARGIN, (m,))
            if np.any(eq):
                # equal entries: a kink unless values are exactly equal and both arguments
                # have the same derivative there (then the maximum is differentiable)
                same = np.broadcast_to(ar == br, (m,))[eq]
                da, db = ac[eq].imag / H, bc[eq].imag / H
                if not (np.all(same) and np.all(np.abs(da - db) <= 1e-12 * max(1.0, float(np.max(np.abs(da))) if da.size else 1.0))):
                    raise Skip("kink:maximum-equal-arguments")
            pick_b = np.broadcast_to(br > ar, (m,))[:, None]
            return self._note(np.where(pick_b, bc, ac))
        if t == "mm":
            z = self.ev(e[4])
            return self._note(dense_matrix(e[2], z.shape[0]) @ z)
        if t == "get":
            z = self.ev(e[2])
            k = get_key(e[1], z.shape[0])
            if isinstance(k, (int, np.integer)):
                return z[[k]]
            return z[k]
        if t == "fn":
            return self._note(self._fn(e[1], self.ev(e[2])))
        raise KeyError(t)

    def run(self, e):
        with np.errstate(all="ignore"):
            z = self.ev(e)
        z = np.asarray(z, dtype=complex)
        val = z[:, 0].real.copy()
        jac = z[:, 1:].imag / H
        if not (np.all(np.isfinite(val)) and np.all(np.isfinite(jac))):
            raise Skip("non-finite reference")
        return val, jac


# ----------------------------------------------------------------------------- sympy cross-check


def sympy_reference(e, x, y):
    """Third, symbolic evaluation (sympy ``diff``) of the same expression; used only to
    validate the oracle on small programs. Returns (value, jacobian) as float arrays."""
    import sympy as sp

    n = x.size
    sx = sp.symbols(f"x0:{n}", real=True)
    sy = sp.symbols(f"y0:{n}", real=True)
    point = {s: float(v) for s, v in zip(list(sx) + list(sy), list(x) + list(y))}

    def num(expr):
        return float(sp.sympify(expr).subs(point))

    def vec(z, m):
        if isinstance(z, list):
            return z
        return [z] * m

    def spow(a, b):
        bn = num(b)
        if sp.sympify(b).is_number and float(bn).is_integer():
            return a ** int(bn)
        return a**b

    def ev(e, partner=None):
        t = e[0]
        if t == "X":
            return list(sx)
        if t == "Y":
            return list(sy)
        if t == "c":
            return sp.Float(float(e[1]))
        if t == "ci":
            return sp.Integer(int(e[1]))
        if t == "af":
            return [sp.Float(float(v)) for v in const_array("af", partner)]
        if t == "ai":
            return [sp.Integer(int(v)) for v in const_array("ai", partner)]
        if t == "neg":
            return [-v for v in ev(e[1])]
        if t in ("bin", "max"):
            l, r = (e[2], e[3]) if t == "bin" else (e[1], e[2])
            if l[0] in ("af", "ai"):
                b = ev(r)
                a = ev(l, len(b))
            else:
                a = ev(l)
                b = ev(r, len(a) if isinstance(a, list) else None)
            m = len(a) if isinstance(a, list) else len(b)
            a, b = vec(a, m), vec(b, m)
            if t == "max":
                return [bb if num(bb) > num(aa) else aa for aa, bb in zip(a, b)]
            f = {
                "add": lambda p, q: p + q,
                "sub": lambda p, q: p - q,
                "mul": lambda p, q: p * q,
                "div": lambda p, q: p / q,
                "pow": spow,
            }[e[1]]
            return [f(p, q) for p, q in zip(a, b)]
        if t == "mm":
            z = ev(e[4])
            D = dense_matrix(e[2], len(z))
            return [sum(sp.Float(float(D[i, j])) * z[j] for j in range(len(z)) if D[i, j] != 0) + sp.Integer(0) for i in range(D.shape[0])]
        if t == "get":
            z = ev(e[2])
            idx = np.arange(len(z))[get_key(e[1], len(z))]
            return [z[int(i)] for i in np.atleast_1d(idx)]
        if t == "fn":
            z = ev(e[2])
            name = e[1]
            simple = {
                "exp": sp.exp, "log": sp.log, "sin": sp.sin, "cos": sp.cos, "tan": sp.tan,
                "arcsin": sp.asin, "arccos": sp.acos, "arctan": sp.atan, "sinh": sp.sinh,
                "cosh": sp.cosh, "tanh": sp.tanh, "arcsinh": sp.asinh, "arccosh": sp.acosh,
                "arctanh": sp.atanh,
            }
            if name in simple:
                return [simple[name](v) for v in z]
            if name in ("abs", "l2_norm1"):
                return [v if num(v) > 0 else -v for v in z]
            if name in ("l2_norm2", "l2_norm3"):
                d = int(name[-1])
                return [sp.sqrt(sum(z[i * d + k] ** 2 for k in range(d))) for i in range(len(z) // d)]
            if name in ("safe_power_a", "safe_power_b"):
                power, zero_val, tol = FUNCS[name][1]
                p = int(power) if float(power).is_integer() else sp.Float(power)
                return [sp.Float(zero_val) if abs(num(v)) <= tol else v**p for v in z]
            if name == "heaviside":
                return [sp.Integer(1) if num(v) > 0 else sp.Integer(0) for v in z]
            if name in ("heaviside_smooth", "heaviside_smooth_e"):
                eps = FUNCS[name][2].get("eps", 1e-3)
                return [(1 + 2 * sp.atan(v / sp.Float(eps)) / sp.pi) / 2 for v in z]
            if name == "characteristic":
                tol = FUNCS[name][1][0]
                return [sp.Integer(1) if abs(num(v)) <= tol else sp.Integer(0) for v in z]
            raise KeyError(name)
        raise KeyError(t)

    out = ev(e)
    syms = list(sx) + list(sy)
    val = np.array([num(v) for v in out])
    jac = np.array([[num(sp.diff(sp.sympify(v), s)) for s in syms] for v in out]).reshape(len(out), len(syms))
    return val, jac


# ----------------------------------------------------------------------------- implementation


class MalformedJacobian(Exception):
    """An operation returned an AdArray whose Jacobian is not a valid sparse matrix."""


def validate_sparse(M, nrows=None):
    """Structural validity of a scipy sparse matrix, checked on the raw arrays (densifying
    or multiplying a csr with non-monotone indptr can crash the interpreter)."""
    fmt = getattr(M, "format", None)
    if len(M.shape) != 2:
        return f"Jacobian is not 2-d: shape {M.shape}"
    if nrows is not None and M.shape[0] != nrows:
        return f"Jacobian has {M.shape[0]} rows for {nrows} values"
    if fmt in ("csr", "csc", "bsr"):
        major = M.shape[0] if fmt in ("csr", "bsr") else M.shape[1]
        minor = M.shape[1] if fmt in ("csr", "bsr") else M.shape[0]
        ip, ind = np.asarray(M.indptr), np.asarray(M.indices)
        if fmt == "bsr":
            R, C = M.blocksize
            major, minor = major // R, minor // C
        if ip.size != major + 1:
            return f"indptr has size {ip.size}, expected {major + 1}"
        if ip[0] != 0 or np.any(np.diff(ip) < 0):
            return f"indptr is not monotone from 0: {ip.tolist()[:12]}"
        if ip[-1] != ind.size or (fmt != "bsr" and M.data.size != ind.size) or (fmt == "bsr" and M.data.shape[0] != ind.size):
            return f"indptr[-1]={int(ip[-1])} inconsistent with {ind.size} indices / {M.data.shape} data"
        if ind.size and (ind.min() < 0 or ind.max() >= minor):
            return "column/row index out of range"
    elif fmt == "coo":
        if M.row.size != M.data.size or M.col.size != M.data.size:
            return "coo arrays of different length"
        if M.data.size and (M.row.min() < 0 or M.row.max() >= M.shape[0] or M.col.min() < 0 or M.col.max() >= M.shape[1]):
            return "coo index out of range"
    return None


class OperandMutated(Exception):
    """An operation changed one of its operands in place."""


def _snap_sparse(M):
    fmt = getattr(M, "format", type(M).__name__)
    if fmt in ("csr", "csc", "bsr"):
        parts = (M.data, M.indices, M.indptr)
    elif fmt == "coo":
        parts = (M.data, M.row, M.col)
    elif fmt == "dia":
        parts = (M.data, M.offsets)
    else:
        parts = (M.toarray(),)
    return (type(M).__name__, fmt, tuple(M.shape)) + tuple((np.asarray(a).dtype.str, np.asarray(a).shape, np.ascontiguousarray(a).tobytes()) for a in parts)


def snapshot(a):
    """Bitwise fingerprint of an operand (AdArray, ndarray, sparse matrix, number)."""
    if hasattr(a, "val") and hasattr(a, "jac"):
        j = a.jac
        return ("ad", a.val.dtype.str, a.val.shape, a.val.tobytes(), _snap_sparse(j) if hasattr(j, "toarray") else ("dense", np.asarray(j).tobytes()))
    if isinstance(a, np.ndarray):
        return ("nd", a.dtype.str, a.shape, a.tobytes())
    if hasattr(a, "toarray"):
        return _snap_sparse(a)
    return ("num", type(a).__name__, repr(a))


def impl_eval(e, X, Y, mutations=None):
    """Evaluate the expression with porepy's forward-mode AdArray. Exceptions propagate.

    Purity oracle: every operand of every operation / function application is
    fingerprinted (value bytes; Jacobian class, format, shape, data / index arrays)
    before the application and must be bitwise unchanged after it, otherwise
    ``OperandMutated`` is raised (or, if a list ``mutations`` is passed, the finding is
    appended to it and evaluation continues). A ``share`` node evaluates its sub-result once and
    hands the very same object to every use."""
    import operator

    import scipy.sparse as sps
    from porepy.numerics.ad import functions as F

    binf = {"add": operator.add, "sub": operator.sub, "mul": operator.mul, "div": operator.truediv, "pow": operator.pow}
    env = {}

    def size(a):
        return a.val.size

    def note(msg):
        if mutations is None:
            raise OperandMutated(msg)
        mutations.append(msg)

    def apply(what, f, *operands):
        before = [snapshot(o) for o in operands]
        res = f(*operands)
        if hasattr(res, "jac") and hasattr(res.jac, "shape") and hasattr(res, "val"):
            msg = validate_sparse(res.jac, np.asarray(res.val).size)
            if msg:
                raise MalformedJacobian(f"{what}: {msg}")
        for i, (o, b) in enumerate(zip(operands, before)):
            if snapshot(o) != b:
                note(f"{what}: operand {i} ({type(o).__name__}) was modified in place")
        return res

    def ev(e, partner=None):
        t = e[0]
        if t == "X":
            return X
        if t == "Y":
            return Y
        if t == "W":
            return env["W"]
        if t == "share":
            env["W"] = ev(e[1])
            before = snapshot(env["W"])
            res = ev(e[2])
            if snapshot(env["W"]) != before:
                note("shared sub-result was modified in place by a later operation")
            return res
        if t == "c":
            return float(e[1])
        if t == "ci":
            return int(e[1])
        if t in ("af", "ai"):
            return const_array(t, partner)
        if t == "neg":
            return apply("neg", operator.neg, ev(e[1]))
        if t in ("bin", "max"):
            l, r = (e[2], e[3]) if t == "bin" else (e[1], e[2])
            if l[0] in ("af", "ai"):
                b = ev(r)
                a = ev(l, size(b))
            else:
                a = ev(l)
                b = ev(r, size(a) if hasattr(a, "val") else None)
            if t == "bin":
                return apply(e[1], binf[e[1]], a, b)
            return apply("maximum", F.maximum, a, b)
        if t == "mm":
            z = ev(e[4])
            D = dense_matrix(e[2], size(z))
            M = (sps.csr_matrix(D) if e[3] == "m" else sps.csr_array(D)).asformat(e[1])
            return apply("matmul", operator.matmul, M, z)
        if t == "get":
            z = ev(e[2])
            k = get_key(e[1], size(z))
            return apply("getitem", lambda zz, kk: zz[kk], z, k)
        if t == "fn":
            fname, args, kwargs = FUNCS[e[1]]
            return apply(fname, lambda zz: getattr(F, fname)(*args, zz, **kwargs), ev(e[2]))
        raise KeyError(t)

    return ev(e)


# ----------------------------------------------------------------------------- letters

CONSTS = [["c", 2.0], ["c", 0.5], ["c", -1.5], ["ci", 2]]
MM_FORMATS = ("csr", "csc", "coo", "dia", "bsr")


def letters():
    """All one-step extensions e -> letter(e), as JSON-able descriptors."""
    L = [["neg"]]
    for fmt in MM_FORMATS:
        for shape in ("sq", "rect"):
            for flav in ("m", "a"):
                L.append(["mm", fmt, shape, flav])
    for kind in GET_KINDS:
        L.append(["get", kind])
    for name in FUNCS:
        L.append(["fn", name])
    for op in BINOPS:
        for p in [["Y"], ["X"]] + CONSTS + [["af"], ["ai"]]:
            L.append(["binR", op, p])  # e op p
        for p in [["Y"], ["X"]] + CONSTS:
            L.append(["binL", op, p])  # p op e   (ndarray on the left is documented "DO NOT")
    for p in (["Y"], ["X"], ["af"], ["c", 0.5], ["ci", 1]):
        L.append(["maxR", p])  # maximum(e, p)
        L.append(["maxL", p])  # maximum(p, e)
    return L


def apply_letter(letter, e):
    t = letter[0]
    if t == "neg":
        return ["neg", e]
    if t == "mm":
        return ["mm", letter[1], letter[2], letter[3], e]
    if t == "get":
        return ["get", letter[1], e]
    if t == "fn":
        return ["fn", letter[1], e]
    if t == "binR":
        return ["bin", letter[1], e, letter[2]]
    if t == "binL":
        return ["bin", letter[1], letter[2], e]
    if t == "maxR":
        return ["max", e, letter[1]]
    if t == "maxL":
        return ["max", letter[1], e]
    raise KeyError(t)


def swap_xy(e):
    if e[0] == "X":
        return ["Y"]
    if e[0] == "Y":
        return ["X"]
    return [swap_xy(c) if isinstance(c, list) else c for c in e]


# representative letters used as children of genuinely binary depth-2 programs
JOIN_REPS = [
    None,  # the bare variable
    ["neg"],
    ["fn", "exp"],
    ["fn", "log"],
    ["fn", "sin"],
    ["fn", "abs"],
    ["mm", "csc", "sq", "m"],
    ["mm", "csr", "sq", "a"],
    ["mm", "bsr", "rect", "m"],
    ["get", "st"],
    ["binR", "pow", ["c", 2.0]],
    ["binL", "mul", ["c", -1.5]],
    ["binR", "div", ["af"]],
    ["binL", "pow", ["c", 2.0]],
]
JOIN_OPS = BINOPS + ("max",)

# sub-results that are used twice in DAG programs: Jacobians in coo (bare variable, minus,
# scalar multiple), csr (products, sums, functions, slicing, csr @), csc and bsr format
DAG_REPS = [
    None,
    ["neg"],
    ["binR", "mul", ["X"]],
    ["binR", "add", ["Y"]],
    ["binR", "mul", ["Y"]],
    ["fn", "exp"],
    ["fn", "sin"],
    ["get", "st"],
    ["get", "ix"],
    ["mm", "csr", "sq", "m"],
    ["mm", "csc", "sq", "m"],
    ["mm", "bsr", "sq", "m"],
    ["mm", "csr", "sq", "a"],
    ["binR", "pow", ["c", 2.0]],
    ["binL", "mul", ["c", -1.5]],
    ["binR", "div", ["af"]],
]
DAG_OUTER = ("add", "sub", "mul", "div")


def dag_programs(r1, r2s):
    """w = r1(X); z = r2(Y); f = g(w, z); result = f o w and w o f."""
    W = ["W"]
    w = ["X"] if r1 is None else apply_letter(r1, ["X"])
    out = []
    for r2 in r2s:
        z = ["Y"] if r2 is None else apply_letter(r2, ["Y"])
        gs = [["bin", op, a, b] for op in BINOPS for a, b in ((W, z), (z, W))]
        gs += [["max", W, z], ["max", z, W]]
        if r2 is None:
            # pairings of maximum (and arithmetic) with constants and with w itself
            gs += [["max", W, ["af"]], ["max", ["af"], W], ["max", W, ["c", 0.5]], ["max", ["c", 0.5], W], ["max", W, ["ci", 1]], ["max", ["ci", 1], W], ["max", W, ["X"]], ["max", ["X"], W]]
            gs += [["bin", "mul", W, W], ["bin", "mul", W, ["af"]], ["bin", "pow", W, ["c", 2.0]], ["fn", "exp", W], ["neg", W]]
        for g in gs:
            for o in DAG_OUTER:
                out.append(["share", w, ["bin", o, g, W]])
                out.append(["share", w, ["bin", o, W, g]])
    return out


def points(n: int, tier: str):
    """Deterministic evaluation points (x, y) for size n. Values cycle through small
    exact decimal lattices; sign patterns make abs/heaviside/maximum see both branches."""
    mixed, small, large = [0.3, 0.7, 1.3], [0.3, 0.7, 0.5], [1.3, 1.7, 2.1]

    def v(base, shift, sign):
        out = np.array([base[(i + shift) % 3] for i in range(n)])
        if sign == "alt":
            out = out * np.array([(-1.0) ** i for i in range(n)])
        elif sign == "alt2":
            out = out * np.array([(-1.0) ** (i + 1) for i in range(n)])
        elif sign == "neg":
            out = -out
        return out

    P = [
        (v(mixed, 0, "pos"), v(mixed, 1, "pos")),
        (v(small, 0, "pos"), v(large, 1, "pos")),
        (v(large, 2, "pos"), v(small, 0, "pos")),
        (v(mixed, 1, "alt"), v(small, 2, "pos")),
        (v(small, 1, "neg"), v(mixed, 0, "alt2")),
    ]
    if tier == "thorough":
        P += [
            (v(mixed, 2, "pos"), v(mixed, 0, "neg")),
            (v(large, 0, "alt2"), v(large, 1, "pos")),
            (v(small, 2, "alt"), v(small, 0, "alt2")),
            (v(mixed, 0, "neg"), v(large, 2, "neg")),
        ]
    return P


# ----------------------------------------------------------------------------- leaf formats
# AdArrays constructed directly with a user-supplied Jacobian: X = AdArray(Jx z0, Jx) with
# Jx stored in a given scipy format, square (n x n) or wide (n x 2n).
LEAF_FORMATS = ("dia_band", "dia_shift", "bsr", "lil", "dok", "coo_dup", "csr_unsorted", "csc")
LEAF_SHAPES = ("sq", "wide")
# inner letters that keep the storage format of the Jacobian (dia survives + - unary
# minus and multiplication / division by a scalar)
LEAF_INNER = [None, ["neg"], ["binR", "add", ["c", 2.0]], ["binL", "sub", ["c", 2.0]], ["binR", "mul", ["c", 2.0]], ["binL", "mul", ["c", -1.5]], ["binR", "div", ["c", 0.5]], ["binR", "sub", ["ci", 2]]]


def leaf_dense_jacobians(fmt: str, shape: str, n: int):
    """Dense (Jx, Jy) of the leaves, n x K with K = n (sq) or 2n (wide)."""
    K = n if shape == "sq" else 2 * n
    Jx = np.zeros((n, K))
    if fmt.startswith("dia"):
        offs = (-1, 0, 1) if fmt == "dia_band" else (((0, 2) if n > 2 else (0, 1)) if shape == "sq" else (1, n, n + 1))
        for i in range(n):
            for o in offs:
                j = i + o
                if 0 <= j < K:
                    Jx[i, j] = 0.5 + 0.25 * ((2 * i + 3 * j) % 5) * (1 if (i + j) % 2 == 0 else -1) + (1.0 if o == offs[len(offs) // 2] else 0.0)
    else:
        for i in range(n):
            for j in range(K):
                if (i + 2 * j) % 3 != 1 or i == j:
                    Jx[i, j] = (((3 * i + 5 * j) % 7) - 3) * 0.25 + (1.5 if i == j else 0.0)
    if n > 1 and not np.any(Jx - np.diag(np.diag(Jx[:, :n])) if shape == "sq" else True):
        raise RuntimeError("leaf Jacobian has no off-diagonal")
    Jy = np.zeros((n, K))
    for i in range(n):
        Jy[i, (i + 1) % n + (K - n)] = 1.0
        Jy[i, i + (K - n)] += 0.5
    return Jx, Jy


def leaf_sparse(fmt: str, D: np.ndarray):
    """The dense matrix D stored in the scipy format named by the letter."""
    import scipy.sparse as sps

    if fmt in ("dia_band", "dia_shift"):
        M = sps.dia_matrix(D)
    elif fmt == "bsr":
        M = sps.bsr_matrix(D)
    elif fmt == "lil":
        M = sps.lil_matrix(D)
    elif fmt == "dok":
        M = sps.dok_matrix(D)
    elif fmt == "csc":
        M = sps.csc_matrix(D)
    elif fmt == "coo_dup":
        r, c = np.nonzero(D)
        v = D[r, c]
        # every entry is split into two duplicates (0.25 + 0.75 of the value), unsorted
        M = sps.coo_matrix((np.concatenate([0.75 * v, 0.25 * v[::-1]]), (np.concatenate([r, r[::-1]]), np.concatenate([c, c[::-1]]))), shape=D.shape)
    elif fmt == "csr_unsorted":
        data, indices, indptr = [], [], [0]
        for i in range(D.shape[0]):
            cols = list(np.nonzero(D[i])[0])[::-1]  # descending column order
            zero_cols = [j for j in range(D.shape[1]) if D[i, j] == 0][:1]  # one explicit zero
            for j in cols + zero_cols:
                indices.append(j)
                data.append(D[i, j])
            indptr.append(len(indices))
        M = sps.csr_matrix((np.array(data, dtype=float), np.array(indices), np.array(indptr)), shape=D.shape)
    else:
        raise KeyError(fmt)
    if not np.array_equal(M.toarray(), D):
        raise RuntimeError(f"leaf format {fmt} does not represent the intended matrix")
    return M


# letters whose derivative formula has a guarded special case / a branch on the value
GUARDED = {"l2_norm1", "l2_norm2", "l2_norm3", "safe_power_a", "safe_power_b", "abs", "heaviside", "heaviside_smooth", "heaviside_smooth_e", "characteristic", "max"}


def special_points(n: int, tier: str):
    """Points with exact 0.0, 1.0 and -1.0 entries. In Z0..Z2 entry i of x is exactly 0
    when i % 3 == j, so that for l2_norm with dim 2 and 3 a single zero component occurs
    in every position of an otherwise non-zero vector; V has +-1 entries and no zeros
    (abs / heaviside away from their kink); ZZ (thorough) has two zero components per
    3-vector. Evaluated only for programs containing a letter of ``GUARDED``."""
    unit = [1.0, -1.0, 0.5]
    mixed = [0.7, -1.3, 0.3]

    def cyc(base, shift):
        return np.array([base[(i + shift) % 3] for i in range(n)], dtype=float)

    def zero_at(vec, js):
        out = vec.copy()
        for i in range(n):
            if i % 3 in js:
                out[i] = 0.0
        return out

    P = [
        (zero_at(cyc(mixed, 0), (0,)), cyc(unit, 0)),
        (zero_at(cyc(unit, 1), (1,)), cyc(unit, 2)),
        (zero_at(cyc(mixed, 2), (2,)), zero_at(cyc(unit, 1), (0,))),
        (cyc(unit, 0), cyc([-1.0, 0.5, 1.0], 0)),
    ]
    if tier == "thorough":
        P += [
            (zero_at(cyc(mixed, 1), (0, 1)), cyc(unit, 1)),
            (zero_at(cyc(unit, 0), (1, 2)), zero_at(cyc(mixed, 0), (1,))),
            (cyc([0.0, 1.0, -1.0], 0), cyc([1.0, 0.0, -1.0], 1)),
        ]
    return P
