"""Group B helper: plain-Python reference of the EquationSystem variable registry and a
driver replaying a create/remove history on a real ``EquationSystem``.

The reference knows nothing about porepy: a state is the list of live atomic variables
``(name, rank)`` in creation order, where ``rank`` is the position of the variable's grid
in ``mdg.subdomains() + mdg.interfaces()``. The DOF layout demanded by C05 is the stable
sort of that list by rank.

Operations (JSON-able lists):
    ["create", name, w]      w = index into ``wheres(grid)``
    ["rm_name", name]        remove_variables([name])
    ["rm_atomic", k]         remove_variables([k-th live atomic variable])
    ["rm_pair", k, rev]      remove_variables([live[k], live[k+1]])  (reversed if rev)
"""

from __future__ import annotations

NAMES = ("a", "b", "c")

# grid name -> (number of subdomains, number of interfaces); verified against the real
# md-grid by ``Sys``
GRIDS = {"G1": (2, 1), "G2": (4, 4)}

# dof map name -> variable name -> (dof_info on subdomains, dof_info on interfaces)
DOFMAPS = {
    "M1": {
        "a": ({"cells": 1}, {"cells": 1}),
        "b": ({"faces": 1}, {"cells": 2}),
        "c": ({"nodes": 1, "cells": 1}, {"cells": 3}),
    },
    "M2": {
        "a": ({"cells": 2}, {"cells": 2}),
        "b": ({"nodes": 1, "cells": 1}, {"cells": 1}),
        "c": ({"faces": 1}, {"cells": 3}),
    },
}


def wheres(grid: str) -> list[tuple[int, ...]]:
    """Alphabet of domains (tuples of ranks, in the order passed to create_variables)."""
    nsd, nintf = GRIDS[grid]
    w = [tuple(range(nsd)), (0,), (1,), (1, 0), tuple(range(nsd, nsd + nintf))]
    if nintf > 1:
        w.append((nsd,))
    return w


class Model:
    def __init__(self, grid: str):
        self.grid = grid
        self.nsd, self.nintf = GRIDS[grid]
        self.wheres = wheres(grid)
        self.live: list[tuple[str, int]] = []

    def copy(self):
        m = Model(self.grid)
        m.live = list(self.live)
        return m

    def enabled(self) -> list[list]:
        ops: list[list] = []
        for n in NAMES:
            for w in range(len(self.wheres)):
                ops.append(["create", n, w])
        for n in sorted({n for n, _ in self.live}):
            ops.append(["rm_name", n])
        for k in range(len(self.live)):
            ops.append(["rm_atomic", k])
        for k in range(len(self.live) - 1):
            ops.append(["rm_pair", k, False])
            ops.append(["rm_pair", k, True])
        return ops

    def apply(self, op) -> str:
        """Returns 'ok' or 'duplicate' (create must be rejected with KeyError, state unchanged)."""
        if op[0] == "create":
            _, n, w = op
            ranks = self.wheres[w]
            if any((n, r) in self.live for r in ranks):
                return "duplicate"
            self.live.extend((n, r) for r in ranks)
        elif op[0] == "rm_name":
            self.live = [x for x in self.live if x[0] != op[1]]
        elif op[0] == "rm_atomic":
            del self.live[op[1]]
        elif op[0] == "rm_pair":
            k = op[1]
            del self.live[k : k + 2]
        else:  # pragma: no cover
            raise ValueError(op)
        return "ok"

    def canon(self):
        return tuple(self.live)

    def blocks(self, size_of) -> list[tuple[int, int]]:
        """[start, end) of every live atomic variable (in creation order) demanded by the
        property: blocks ordered by grid rank (subdomains, then interfaces), ties broken by
        creation order. ``size_of(name, rank)`` gives the block size."""
        order = sorted(range(len(self.live)), key=lambda k: (self.live[k][1], k))
        out: list = [None] * len(self.live)
        pos = 0
        for k in order:
            n, r = self.live[k]
            s = size_of(n, r)
            out[k] = (pos, pos + s)
            pos += s
        return out


def enumerate_prefixes(grid: str, length: int) -> list[list]:
    """All operation sequences of exactly ``length`` enabled operations (duplicate creates
    included as last letter only, since they are rejected and not continued)."""
    out: list[list] = []

    def rec(m: Model, hist: list):
        if len(hist) == length:
            out.append(hist)
            return
        for op in m.enabled():
            m2 = m.copy()
            r = m2.apply(op)
            if r != "ok":
                out.append(hist + [op])  # terminal: rejected create
                continue
            rec(m2, hist + [op])

    rec(Model(grid), [])
    return out


# ----------------------------------------------------------------------- real system


_MDG: dict = {}


def make_mdg(grid: str):
    """Cached md-grid; data dictionaries are wiped on every call."""
    import numpy as np
    import porepy as pp

    if grid not in _MDG:
        if grid == "G1":
            mdg = pp.meshing.cart_grid([np.array([[1, 1], [0, 1]])], [2, 1])
        elif grid == "G2":
            mdg = pp.meshing.cart_grid([np.array([[1, 1], [0, 2]]), np.array([[0, 2], [1, 1]])], [2, 2])
        else:  # pragma: no cover
            raise ValueError(grid)
        _MDG[grid] = mdg
    mdg = _MDG[grid]
    for _, d in list(mdg.subdomains(return_data=True)) + list(mdg.interfaces(return_data=True)):
        d.clear()
    return mdg


class Sys:
    """A fresh EquationSystem on the (cached) md-grid with the live atomic variables
    tracked in creation order, mirroring ``Model.live``."""

    def __init__(self, grid: str, dofmap: str):
        import porepy as pp

        self.pp = pp
        self.grid, self.dofmap = grid, DOFMAPS[dofmap]
        self.mdg = make_mdg(grid)
        self.domains = list(self.mdg.subdomains()) + list(self.mdg.interfaces())
        self.nsd = len(self.mdg.subdomains())
        if (self.nsd, len(self.mdg.interfaces())) != GRIDS[grid]:
            raise RuntimeError("md-grid structure differs from the declared one")
        self.es = pp.ad.EquationSystem(self.mdg)
        self.wheres = wheres(grid)
        self.live: list = []  # porepy Variable objects, creation order

    def size_of(self, name: str, rank: int) -> int:
        g = self.domains[rank]
        if rank < self.nsd:
            d = self.dofmap[name][0]
            return int(g.num_cells * d.get("cells", 0) + g.num_faces * d.get("faces", 0) + g.num_nodes * d.get("nodes", 0))
        d = self.dofmap[name][1]
        return int(g.num_cells * d.get("cells", 0))

    def apply(self, op):
        """Executes the operation; returns None or the exception raised."""
        es = self.es
        try:
            if op[0] == "create":
                _, n, w = op
                ranks = self.wheres[w]
                grids = [self.domains[r] for r in ranks]
                if ranks[0] < self.nsd:
                    v = es.create_variables(n, dof_info=dict(self.dofmap[n][0]), subdomains=grids)
                else:
                    v = es.create_variables(n, dof_info=dict(self.dofmap[n][1]), interfaces=grids)
                self.live.extend(v.sub_vars)
            elif op[0] == "rm_name":
                es.remove_variables([op[1]])
                self.live = [v for v in self.live if v.name != op[1]]
            elif op[0] == "rm_atomic":
                es.remove_variables([self.live[op[1]]])
                del self.live[op[1]]
            elif op[0] == "rm_pair":
                k = op[1]
                pair = [self.live[k], self.live[k + 1]]
                if op[2]:
                    pair.reverse()
                es.remove_variables(pair)
                del self.live[k : k + 2]
            else:  # pragma: no cover
                raise RuntimeError(op)
        except Exception as e:  # noqa
            return e
        return None

    def rank_of(self, var) -> int:
        for r, g in enumerate(self.domains):
            if var.domain is g:
                return r
        raise RuntimeError("variable on unknown grid")
