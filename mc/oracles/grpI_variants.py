"""Input-representation and similarity-transform variants for the group I checks.

A *variant* = (transform, representation):

* transform: the lattice configuration is translated by 1000 or scaled by 2**-10 / 2**-6 /
  2**10. All of these are exact in binary floating point for (half-)integer lattice
  coordinates, so the exact answer transforms with the input: points map by the same
  similarity, distances scale, "none / point / segment" verdicts are unchanged.
* representation: C- or Fortran-ordered, float64 or int64 (only for integral data),
  optionally read-only (``flags.writeable = False``).

``Purity`` takes a bitwise snapshot of the arguments before a call and reports any
argument whose bytes, dtype or shape changed.
"""

from __future__ import annotations

import numpy as np

# name -> (scale, shift)
TRANSFORMS = {
    "id": (1.0, 0.0),
    "t+1000": (1.0, 1000.0),
    "s2^-10": (2.0**-10, 0.0),
    "s2^-6": (2.0**-6, 0.0),
    "s2^10": (2.0**10, 0.0),
}

# fixed rotation of (transform, order, dtype, read-only)
VARIANTS = [
    ("t+1000", "C", "float", True),
    ("s2^-10", "F", "float", True),
    ("s2^10", "C", "float", False),
    ("id", "F", "int", True),
]


def variant(k, small="s2^-10"):
    tr, order, dt, ro = VARIANTS[k % len(VARIANTS)]
    if tr == "s2^-10":
        tr = small
    return tr, order, dt, ro


def name(v):
    tr, order, dt, ro = v
    return f"{tr}/{order}/{dt}" + ("/ro" if ro else "")


def scale_of(tr):
    return TRANSFORMS[tr][0]


def fwd(arr, tr):
    s, t = TRANSFORMS[tr]
    return np.asarray(arr, dtype=float) * s + t


def inv(arr, tr):
    s, t = TRANSFORMS[tr]
    return (np.asarray(arr, dtype=float) - t) / s


def represent(arr, order="C", dt="float", ro=False):
    """Fresh array with the requested memory layout / dtype / writeability."""
    a = np.asarray(arr)
    if dt == "int" and np.all(a == np.round(a)):
        a = a.astype(np.int64)
    else:
        a = a.astype(float)
    a = np.array(a, order=order, copy=True)
    if ro:
        a.flags.writeable = False
    return a


def make(arr, v):
    tr, order, dt, ro = v
    return represent(fwd(arr, tr) if tr != "id" else arr, order, dt, ro)


class Purity:
    def __init__(self, **args):
        self.args = args
        self.snap = {k: self._snap(a) for k, a in args.items()}

    @staticmethod
    def _snap(a):
        if isinstance(a, (list, tuple)):
            return ("seq", tuple(Purity._snap(x) for x in a))
        if isinstance(a, np.ndarray):
            return (a.dtype.str, a.shape, a.tobytes(), bool(a.flags.f_contiguous), bool(a.flags.c_contiguous))
        return ("obj", repr(a))

    def changed(self):
        """Names of the arguments that are not bitwise identical to the snapshot."""
        return [k for k, a in self.args.items() if self._snap(a) != self.snap[k]]
