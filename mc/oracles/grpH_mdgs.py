"""Group H helper: small mixed-dimensional grids by name (used by C26 and C27).

Every builder returns a freshly meshed ``pp.MixedDimensionalGrid``; nothing is cached
because the checks mutate the grids (replacements).
"""

from __future__ import annotations

import numpy as np

FH = np.array([[0.0, 2.0], [1.0, 1.0]])  # horizontal fracture y = 1, boundary to boundary
FV = np.array([[1.0, 1.0], [0.0, 2.0]])  # vertical fracture x = 1
FT = np.array([[1.0, 1.0], [1.0, 2.0]])  # vertical fracture ending on FH (T)
FI = np.array([[0.5, 1.5], [1.0, 1.0]])  # immersed horizontal fracture
RECT = np.array([[0.0, 2.0, 2.0, 0.0], [0.0, 0.0, 2.0, 2.0], [1.0, 1.0, 1.0, 1.0]])


def cart2d(fracs, n):
    import porepy as pp

    return pp.meshing.cart_grid(list(fracs), list(n), physdims=[2, 2])


def build(name):
    """Named md-grids. Returns the md-grid."""
    import porepy as pp

    if name == "single2d":
        return cart2d([], [2, 2])
    if name == "frac2d":
        return cart2d([FH], [2, 2])
    if name == "frac2d_4x2":
        return cart2d([FH], [4, 2])
    if name == "immersed2d":
        return cart2d([FI], [4, 2])
    if name == "x2d":
        return cart2d([FH, FV], [2, 2])
    if name == "t2d":
        return cart2d([FH, FT], [2, 2])
    if name == "frac3d":
        return pp.meshing.cart_grid([RECT], [2, 2, 2], physdims=[2, 2, 2])
    if name == "simplex2d":
        mdg, _ = pp.mdg_library.square_with_orthogonal_fractures(
            "simplex", {"cell_size": 0.5}, fracture_indices=[0, 1]
        )
        return mdg
    if name == "nonmatching2d":
        # one fracture; mortar sides replaced by 3 cells each (non-nested w.r.t. the 4
        # fracture cells), fracture grid replaced by 5 cells
        mdg = cart2d([FH], [4, 2])
        intf = mdg.interfaces()[0]
        sd1 = mdg.subdomains(dim=1)[0]
        mdg.replace_subdomains_and_interfaces(
            interface_map={intf: {s: line_grid(3) for s in intf.side_grids}}
        )
        mdg.replace_subdomains_and_interfaces(sd_map={sd1: line_grid(5)})
        return mdg
    if name in ("mortarfine2d", "mortarcoarse2d", "secfine2d", "seccoarse2d"):
        # nested refinements / coarsenings of one grid of the interface: then one of the
        # int / avg matrices of a direction consists of ones only while the other does not
        mdg = cart2d([FH], [4, 2] if "coarse" in name else [2, 2])
        intf = mdg.interfaces()[0]
        n = 2 if "coarse" in name else 4
        if name.startswith("mortar"):
            mdg.replace_subdomains_and_interfaces(interface_map={intf: {s: line_grid(n) for s in intf.side_grids}})
        else:
            mdg.replace_subdomains_and_interfaces(sd_map={mdg.subdomains(dim=1)[0]: line_grid(n)})
        return mdg
    if name == "x2d_mortarfine":
        mdg = cart2d([FH, FV], [2, 2])
        for intf in mdg.interfaces(dim=1):
            _, sec = mdg.interface_to_subdomain_pair(intf)
            if np.ptp(sec.nodes[1]) < 1e-12:  # the horizontal fracture
                mdg.replace_subdomains_and_interfaces(interface_map={intf: {s: line_grid(4) for s in intf.side_grids}})
        return mdg
    if name == "mockchain":
        return mock_chain()
    if name == "mockwells":
        return mock_chain([("V3", 0), ("A2", 0), ("L1c", 0), ("P0b", 0)], ["V3-L1c", "A2-P0b"])
    raise KeyError(name)


def line_grid(n, x0=0.0, x1=2.0, y=1.0):
    """1-d grid with n equal cells on the segment (x0,y)-(x1,y)."""
    import porepy as pp

    g = pp.TensorGrid(np.linspace(x0, x1, n + 1))
    g.nodes[1] = y
    g.compute_geometry()
    return g


def mock_chain(grids=None, names=None):
    """3-d, 2-d, 1-d, 0-d grids with two codim-1 interfaces and one codim-2 interface
    (hand-made maps; topology only). ``mockwells``: two codim-2 interfaces."""
    import porepy as pp
    from mc.oracles.grpH_pool import Pool

    grids = grids or [("V3", 0), ("A2", 0), ("L1a", 0), ("P0b", 0)]
    names = names or ["A2-L1a", "V3-A2", "A2-P0b"]
    pool = Pool(grids, names)
    mdg = pp.MixedDimensionalGrid()
    mdg.add_subdomains([pool.grid[g] for g in grids])
    for n in names:
        from mc.oracles.grpH_pool import INTFS

        a, b = INTFS[n][:2]
        mdg.add_interface(pool.mortar[n], (pool.grid[(a, 0)], pool.grid[(b, 0)]), pool.face_cells(n))
    for bg in mdg.boundaries():
        bg.compute_geometry()
        bg.set_projections()
    return mdg
