"""Group C helper: a small non-linear flow model with scripted Newton verdicts (C10).

The model is the shipped ``SinglePhaseFlow`` (compressible fluid, quadratic pressure sink,
time-dependent Dirichlet value, 2x2 Cartesian grid) driven by the real ``NewtonSolver`` / ``run_time_dependent_model`` /
``TimeManager``. Only ``check_convergence`` is scripted (it still delegates to the real
method for the bookkeeping of norms), and the two hooks ``after_nonlinear_convergence`` /
``after_nonlinear_failure`` take snapshots around ``super()``.
"""

from __future__ import annotations

import os

# Newton outcomes of one solve. ("c", k): converged verdict at the k-th check;
# ("d", j): diverged verdict at the j-th check; ("x",): never a verdict -> iteration limit.
DEFAULT = ("c", 2)
DEVIATIONS = (("c", 1), ("c", 3), ("d", 1), ("d", 2), ("x",))
MAX_ITER = 3

TM_CONFIGS = {
    # optimal range (1, 3): c1 -> relax, c2 -> keep, c3 -> restrict
    "r2": dict(schedule=[0.0, 1.0, 1.5], dt_init=0.6, dt_min_max=[0.2, 0.8], iter_relax_factors=[0.7, 1.3],
               recomp_factor=0.5, recomp_max=2, iter_optimal_range=[1, 3], iter_max=3, constant_dt=False),
    "r1": dict(schedule=[0.0, 1.0, 1.5], dt_init=0.6, dt_min_max=[0.2, 0.8], iter_relax_factors=[0.7, 1.3],
               recomp_factor=0.5, recomp_max=1, iter_optimal_range=[1, 3], iter_max=3, constant_dt=False),
}


def answer_of(outcome):
    """The TimeManager-level answer (iteration count or 'F') a Newton outcome amounts to."""
    outcome = tuple(outcome)
    if outcome[0] == "c":
        return int(outcome[1])
    return "F"


_MODEL = None


def model_class():
    global _MODEL
    if _MODEL is not None:
        return _MODEL
    import numpy as np
    import porepy as pp
    from porepy.models.fluid_mass_balance import SinglePhaseFlow

    class ScriptedFlow(SinglePhaseFlow):
        # ---- physics: non-linear, time dependent, every accepted solution different
        def _is_nonlinear_problem(self):
            return True

        @property
        def time_step_indices(self):
            return np.array([0, 1, 2])

        @property
        def iterate_indices(self):
            return np.array([0, 1])

        def bc_values_pressure(self, bg):
            v = np.zeros(bg.num_cells)
            sides = self.domain_boundary_sides(bg)
            # time dependent: every accepted solution differs from the previous one
            v[sides.west] = 2.0 + float(self.time_manager.time)
            v[sides.east] = 0.5
            return v

        def ic_values_pressure(self, sd):
            return 1.0 + 0.1 * np.arange(sd.num_cells)

        def darcy_flux_discretization(self, subdomains):
            # two-point flux: same code path in the driver, much cheaper set-up than MPFA
            return pp.ad.TpfaAd(self.darcy_keyword, subdomains)

        def fluid_source(self, subdomains):
            src = super().fluid_source(subdomains)
            p = self.pressure(subdomains)
            return src + self.volume_integral(pp.ad.Scalar(-0.3) * p * p, subdomains, dim=1)

        # ---- instrumentation
        def _snap(self):
            es = self.equation_system
            return {
                "ts": [es.get_variable_values(time_step_index=int(i)).copy() for i in self.time_step_indices],
                "it": [es.get_variable_values(iterate_index=int(i)).copy() for i in self.iterate_indices],
                "time": float(self.time_manager.time),
                "dt": float(self.time_manager.dt),
            }

        def before_nonlinear_loop(self):
            super().before_nonlinear_loop()
            self._solve_idx += 1
            self._checks = 0
            self._conv_iterate = None
            self._outcome = tuple(self._script.get(self._solve_idx, DEFAULT))
            self._guess = self._snap()

        def check_convergence(self, nonlinear_increment, residual, reference_residual, nl_params):
            # real method first (logs norms; its verdict is overridden by the script)
            super().check_convergence(nonlinear_increment, residual, reference_residual, nl_params)
            self._checks += 1
            o = self._outcome
            if o[0] == "c" and self._checks >= o[1]:
                self._conv_iterate = self.equation_system.get_variable_values(iterate_index=0).copy()
                return True, False
            if o[0] == "d" and self._checks >= o[1]:
                return False, True
            return False, False

        def after_nonlinear_convergence(self):
            pre = self._snap()
            ev = {"kind": "conv", "solve": self._solve_idx, "outcome": self._outcome, "checks": self._checks,
                  "num_iteration": int(self.nonlinear_solver_statistics.num_iteration), "guess": self._guess,
                  "pre": pre, "conv_iterate": self._conv_iterate, "raised": None}
            self.events.append(ev)
            try:
                super().after_nonlinear_convergence()
            except Exception as e:
                ev["raised"] = e
                raise
            ev["post"] = self._snap()

        def after_nonlinear_failure(self):
            pre = self._snap()
            ev = {"kind": "fail", "solve": self._solve_idx, "outcome": self._outcome, "checks": self._checks,
                  "num_iteration": int(self.nonlinear_solver_statistics.num_iteration), "guess": self._guess,
                  "pre": pre, "raised": None}
            self.events.append(ev)
            try:
                super().after_nonlinear_failure()
            except Exception as e:
                ev["raised"] = e
                raise
            ev["post"] = self._snap()

    _MODEL = ScriptedFlow
    return _MODEL


def execute(tm_cfg, script: dict):
    """One execution of the full stack. Returns (model, end, exception)."""
    import porepy as pp

    from mc.oracles import grpC_tm as T

    tm = T.make_tm(tm_cfg)
    fluid = pp.FluidComponent(compressibility=1.0, density=1.0, viscosity=1.0)
    params = {
        "time_manager": tm,
        "material_constants": {"fluid": fluid},
        "grid_type": "cartesian",
        "meshing_arguments": {"cell_size": 0.5},
        "times_to_export": [],
        "folder_name": os.path.join(os.getcwd(), "c10_viz"),
        "max_iterations": MAX_ITER,
        "nl_convergence_tol": 1e-8,
    }
    model = model_class()(params)
    model._script = {int(k): tuple(v) for k, v in script.items()}
    model._solve_idx = -1
    model.events = []
    model.prepare_simulation()
    model.initial = model._snap()
    params["prepare_simulation"] = False
    end, exc = "final", None
    try:
        pp.run_time_dependent_model(model, params)
    except Exception as e:  # classified by the caller
        end, exc = "raised", e
    return model, end, exc
