"""Group D helpers: building the shipped physics models on tiny md-grids, deterministic
non-solution states, and the kink indicators of the contact / aperture laws.

Nothing here is an oracle: the functions only *construct inputs* (configurations and
states) and tell in which smooth region of the constitutive laws a state lies. The
oracles (finite differences, conservation sums) live in the check modules.
"""

from __future__ import annotations

import os

import numpy as np

FAMILIES = ("flow", "mae", "mom", "poro", "thm")

_CACHE: dict = {}


def _family_class(fam):
    import porepy as pp

    return {
        "flow": pp.SinglePhaseFlow,
        "mae": pp.MassAndEnergyBalance,
        "mom": pp.MomentumBalance,
        "poro": pp.Poromechanics,
        "thm": pp.Thermoporomechanics,
    }[fam]


def cfg_key(cfg) -> str:
    return "|".join(f"{k}={cfg[k]}" for k in sorted(cfg))


def constants(cfg):
    """Material constants away from the all-ones / zeros defaults (DESIGN C03)."""
    import porepy as pp

    comp = cfg.get("fluid", "comp") == "comp"
    rich = cfg.get("laws", "basic") == "rich"
    fluid = pp.FluidComponent(
        compressibility=0.3 if comp else 0.0,
        thermal_expansion=0.1 if comp else 0.0,
        density=1.3,
        specific_heat_capacity=1.7,
        thermal_conductivity=0.6,
        normal_thermal_conductivity=0.8,
        viscosity=0.9,
    )
    solid = pp.SolidConstants(
        biot_coefficient=0.8,
        density=2.1,
        specific_heat_capacity=0.7,
        thermal_conductivity=1.4,
        thermal_expansion=0.05,
        porosity=0.2,
        permeability=0.7,
        normal_permeability=1.2,
        lame_lambda=1.5,
        shear_modulus=1.2,
        specific_storage=0.4,
        residual_aperture=float(cfg.get("ares", 0.1)),
        fracture_gap=0.02,
        friction_coefficient=0.6,
        # "rich": every optional fracture law switched on
        dilation_angle=0.2 if rich else 0.0,
        fracture_normal_stiffness=1.1,
        maximum_elastic_fracture_opening=0.05 if rich else 0.0,
        fracture_tangential_stiffness=10.0 if rich else -1.0,
    )
    numerical = pp.NumericalConstants(characteristic_displacement=0.5 if rich else 1.0)
    ref = pp.ReferenceVariableValues(pressure=0.5, temperature=0.7)
    return fluid, solid, numerical, ref


def build(cfg, extra_mixins=(), tag="", extra_params=None, cache=True):
    """Build (and cache per process) the model of a configuration.

    cfg keys: fam, dim (2|3), fracs (list of fracture indices), grid ("cart"|"simplex"|
    "nonmatch": unit square with non-matching fracture/mortar grids, fracs from {0,1}),
    fluid ("comp"|"incomp"), laws ("basic"|"rich"|"adtpfa"), grav (bool), dt (float).
    """
    key = cfg_key(cfg) + "#" + tag
    if cache and key in _CACHE:
        return _CACHE[key]
    import porepy as pp
    from porepy.applications.md_grids.model_geometries import (
        OrthogonalFractures3d,
        RectangularDomainThreeFractures,
    )

    geo = RectangularDomainThreeFractures if cfg["dim"] == 2 else OrthogonalFractures3d
    nonmatch = cfg.get("grid", "cart") in ("nonmatch", "square")
    if cfg.get("grid", "cart") == "square":
        # the matching twin of "nonmatch": same unit square and fractures, conforming grids
        from porepy.applications.md_grids.model_geometries import SquareDomainOrthogonalFractures

        geo = SquareDomainOrthogonalFractures
    elif nonmatch:
        # unit square, orthogonal fractures, fracture and mortar grids refined by
        # different ratios: mortar cells do not match the cells on either side
        from porepy.applications.md_grids.model_geometries import (
            NonMatchingSquareDomainOrthogonalFractures,
        )

        geo = NonMatchingSquareDomainOrthogonalFractures
    bases = tuple(extra_mixins)
    adtpfa = cfg.get("laws", "basic") == "adtpfa"
    if adtpfa:
        # shipped differentiable two-point flux laws with the aperture (cubic law) /
        # porosity dependent diffusivities; base discretization TPFA, for which the
        # implementation promises the exact derivative (with an MPFA base the Jacobian is
        # a documented approximation and is not part of the property).
        from porepy.applications.discretizations.flux_discretization import FluxDiscretization

        bases = bases + (FluxDiscretization, pp.constitutive_laws.CubicLawPermeability, pp.constitutive_laws.DarcysLawAd)
        if cfg["fam"] in ("mae", "thm"):
            bases = bases + (pp.constitutive_laws.FouriersLawAd,)
    well = cfg.get("grid", "cart") == "well3d"
    if well:
        # unit cube, simplex grid, one horizontal fracture cut by one vertical well: 1-d well
        # segments, the 0-d well/fracture intersection, codimension-2 (well) interfaces
        from porepy.applications.test_utils import well_models

        class CoarseVerticalWell(well_models.OneVerticalWell):
            def meshing_arguments(self):
                h = self.units.convert_units(0.5, "m")
                return {"cell_size_fracture": h, "cell_size_boundary": h, "cell_size_min": 0.2 * h}

            def set_well_network(self):
                points = np.array([[0.5, 0.5], [0.5, 0.5], [0.2, 1]])
                self.well_network = pp.WellNetwork3d(
                    domain=self.domain, wells=[pp.Well(points)],
                    parameters={"mesh_size": self.units.convert_units(0.3, "m")},
                )

        bases = bases + (CoarseVerticalWell,)
    bases = bases + (geo,)
    if cfg.get("grav", False):
        bases = bases + (pp.constitutive_laws.GravityForce,)
    bases = bases + (_family_class(cfg["fam"]),)
    Model = type("GrpDModel", bases, {})
    fluid, solid, numerical, ref = constants(cfg)
    dt = float(cfg.get("dt", 0.5))
    params = {
        "times_to_export": [],
        "folder_name": os.path.join(os.getcwd(), "viz_grpD"),
        "fracture_indices": list(cfg["fracs"]),
        "cartesian": cfg.get("grid", "cart") == "cart",
        "material_constants": {"fluid": fluid, "solid": solid, "numerical": numerical},
        "reference_variable_values": ref,
        "time_manager": pp.TimeManager(schedule=[0.0, 2 * dt], dt_init=dt, constant_dt=True),
    }
    if well:
        params.pop("cartesian")
        params.pop("grid_type", None)
    if nonmatch:
        params["fracture_refinement_ratio"] = 2
        params["interface_refinement_ratio"] = 3
        params["grid_type"] = "cartesian"
        length = (extra_params or {}).get("units", pp.Units()).m
        params["meshing_arguments"] = {"cell_size": 0.25 / length}
    if adtpfa:
        params["darcy_flux_discretization"] = "tpfa"
        params["fourier_flux_discretization"] = "tpfa"
    if cfg["dim"] == 3 and cfg.get("grid", "cart") != "cart":
        params["grid_type"] = "simplex"
    elif cfg["dim"] == 3:
        params["grid_type"] = "cartesian"
    if extra_params:
        params.update(extra_params)
    m = Model(params)
    m.prepare_simulation()
    m.ad_time_step.set_value(dt)
    if cache:
        _CACHE[key] = m
    return m


# ----------------------------------------------------------------------------- states


def _centers(model, var):
    g = var.domain
    return np.asarray(g.cell_centers, dtype=float)


def _pattern(name, xc, comp, salt):
    """Deterministic smooth-ish field on cell centres; values in about [-1, 1].

    ``name``: const | lin | alt | spike | wave
    """
    n = xc.shape[1]
    x, y, z = xc[0], xc[1], xc[2]
    if name == "const":
        return np.full(n, 0.6 - 0.25 * comp)
    if name == "lin":
        return 0.45 * x - 0.8 * y + 0.3 * z + 0.2 + 0.15 * comp
    if name == "alt":
        return np.where((np.arange(n) + comp) % 2 == 0, 0.7, -0.5)
    if name == "spike":
        v = np.full(n, 0.1)
        v[(salt + comp) % n] = 1.0
        return v
    if name == "wave":
        return 0.6 * np.sin(2.3 * x + 1.1 * comp + 0.7 * salt) + 0.35 * np.cos(3.1 * y - 0.4 * z + salt)
    raise ValueError(name)


# state letters: (pattern for scalar cell variables, pattern for fluxes, pattern for
# displacements, amplitude)
STATE_LETTERS = {
    "wave-0.3": ("wave", "alt", "wave", 0.3),
    "lin-1": ("lin", "wave", "lin", 1.0),
    "alt-0.1": ("alt", "lin", "alt", 0.1),
    "spike-1": ("spike", "spike", "spike", 1.0),
    "const-1": ("const", "const", "wave", 1.0),
    "wave-1": ("wave", "wave", "wave", 1.0),
}

# letters with EXACT zeros in individual components of the tangential vectors on
# fractures (3-d models: two tangential components): letter -> (base letter, axis).
# In every fracture cell the tangential displacement jump and the tangential contact
# traction are aligned with local tangential basis vector number ``axis`` (the other
# component is exactly 0.0, at the current and the previous time level), in the sliding,
# the sticking and the open-with-compressive-traction regimes; cells in the clearly open
# regime (tensile normal traction) get all-zero tangential vectors. Such states are
# inside the smooth region (the norm is only non-smooth at the zero vector, and there
# its term is switched off by the open-state characteristic function), but they are
# where special-case code lives.
ALIGNED_LETTERS = {"axis1": ("lin-1", 0), "axis2": ("wave-0.3", 1)}

# letters with normal displacement jumps inside (-residual_aperture, 0) in most fracture
# cells (non-converged Newton iterates under compression): the aperture law
# max(jump + a_res, a_res) then sits on its constant branch with a positive first
# argument. letter -> (base letter, fractions of a_res used for the negative jumps).
# Every third cell keeps a positive jump (mixed signs across cells); all jumps stay away
# from the kink at 0.
NEGJUMP_LETTERS = {"negjump": ("lin-1", (-0.5, -0.8)), "negjump2": ("wave-0.3", (-0.3, -0.65))}

SCALAR_VARS = ("pressure", "temperature")
FLUX_VARS = ("interface_darcy_flux", "interface_fourier_flux", "interface_enthalpy_flux", "well_flux", "well_enthalpy_flux")


def base_letter(letter):
    if letter in ALIGNED_LETTERS:
        return ALIGNED_LETTERS[letter][0]
    if letter in NEGJUMP_LETTERS:
        return NEGJUMP_LETTERS[letter][0]
    return letter


def raw_state(model, letter, salt=0):
    """State vector = initial state + pattern * amplitude, variable by variable.

    The contact traction and the interface displacement are filled by
    :func:`contact_fill` afterwards (they decide the regime of the contact laws).
    """
    es = model.equation_system
    ps, pf, pu, amp = STATE_LETTERS[base_letter(letter)]
    x = np.array(es.get_variable_values(iterate_index=0), dtype=float)
    for iv, var in enumerate(es.variables):
        dofs = es.dofs_of([var])
        xc = _centers(model, var)
        nc = xc.shape[1]
        if var.name in SCALAR_VARS:
            k = SCALAR_VARS.index(var.name)
            x[dofs] += amp * _pattern(ps, xc, k, salt + k)
        elif var.name in FLUX_VARS:
            k = FLUX_VARS.index(var.name)
            x[dofs] += amp * _pattern(pf, xc, k, salt + 2 * k + 1)
        elif var.name == "u":
            nd = dofs.size // nc
            vals = np.vstack([0.3 * amp * _pattern(pu, xc, c, salt + c) for c in range(nd)])
            x[dofs] += vals.ravel("F")
        elif var.name in ("u_interface", "contact_traction"):
            pass
        else:  # unknown variable: give it something non-zero anyway
            vals = amp * _pattern("wave", np.repeat(xc, dofs.size // nc, axis=1), 0, salt + iv)
            x[dofs] += vals
    return x


# regimes cycled over the fracture cells
REGIMES = ("open", "stick", "slip", "open-compressive")

# per regime: local normal jump, |tangential jump|, normal traction, tangential traction
# (sign of the tangential quantities alternates with the cell index). Tuned so that all
# kink indicators (see ``indicators``) keep a margin >= 0.03 for both "basic" and
# "rich" fracture laws.
REGIME_VALUES = {
    #            u_n   |u_t|  t_n    t_t
    "open": (0.12, 0.15, 0.20, 0.10),
    "stick": (0.05, 0.12, -1.50, 0.05),
    "slip": (0.08, 0.20, -0.40, 0.90),
    "open-compressive": (0.20, 0.10, -0.06, 0.30),
}


def contact_fill(model, x, xprev, salt=0, axis=None, neg=None):
    """Fill u_interface and contact_traction of ``x`` such that every fracture cell sits
    clearly inside one regime of the contact laws (cycling open / stick / slip /
    open-with-compressive-traction over the cells); ``xprev`` gets a different jump so
    that the tangential increment is non-zero.

    The model's displacement-jump operator (linear in u_interface) is used to construct
    the input only: u_interface = background + pinv(J) (target - J background).
    """
    es = model.equation_system
    names = {v.name for v in es.variables}
    nd = model.nd
    fracs = model.mdg.subdomains(dim=nd - 1)
    if "u_interface" not in names or not fracs:
        return x, xprev
    x = x.copy()
    xprev = xprev.copy()
    uvars = [v for v in es.variables if v.name == "u_interface"]
    udofs = es.dofs_of(uvars)
    jump_op = model.displacement_jump(fracs)
    ad = es.evaluate(jump_op, True, x)
    J = ad.jac.tocsc()[:, udofs].toarray()
    nf = sum(sd.num_cells for sd in fracs)
    tvars = [v for v in es.variables if v.name == "contact_traction"]
    tdofs = es.dofs_of(tvars)
    assert tdofs.size == nd * nf and J.shape[0] == nd * nf
    for which, vec in (("x", x), ("prev", xprev)):
        target = np.zeros((nd, nf))
        trac = np.zeros((nd, nf))
        for f in range(nf):
            reg = REGIMES[(f + salt) % len(REGIMES)]
            un, ut, tn, tt = REGIME_VALUES[reg]
            s = 1.0 if (f + salt) % 2 == 0 else -1.0
            un = un + 0.01 * (f % 3)
            if neg is not None and f % 3 != 2:
                # compressed cell: jump inside (-a_res, 0); a clearly tensile traction keeps
                # the "open" cells open although the jump is below the gap
                un = neg[f % 2] * float(model.solid.residual_aperture)
                if reg == "open":
                    tn = 0.6
            ut = s * (ut + 0.01 * (f % 4))
            tt = s * tt
            if which == "prev":
                un, ut = 0.8 * un, 0.4 * ut - 0.03
                tn, tt = 0.9 * tn, 0.7 * tt
            target[nd - 1, f] = un
            target[0, f] = ut
            trac[nd - 1, f] = tn
            trac[0, f] = tt
            if nd == 3:
                target[1, f] = -0.6 * ut
                trac[1, f] = 0.5 * tt
            if axis is not None:
                # exact zeros: everything tangential along basis vector ``axis`` only;
                # nothing tangential at all in the clearly open (tensile) cells
                keep_j, keep_t = target[0, f], trac[0, f]
                target[: nd - 1, f] = 0.0
                trac[: nd - 1, f] = 0.0
                if reg != "open":
                    target[axis, f] = keep_j
                    trac[axis, f] = keep_t
        bg = np.zeros(udofs.size)
        pos = 0
        for v in uvars:
            xc = np.asarray(v.domain.cell_centers)
            n = xc.shape[1]
            vals = np.vstack([0.05 * _pattern("wave", xc, c, salt + 3) for c in range(nd)])
            bg[pos : pos + nd * n] = vals.ravel("F")
            pos += nd * n
        # positions in udofs follow the order of uvars (dofs_of concatenates per variable)
        tgt = target.ravel("F")
        if axis is not None:
            bg[:] = 0.0
        corr = np.linalg.pinv(J) @ (tgt - J @ bg)
        uint = bg + corr
        if axis is not None:
            # remove round-off dust of the pseudo-inverse so that the zero components of
            # the jump are sums of exact zeros
            uint[np.abs(uint) < 1e-13] = 0.0
        vec[udofs] = uint
        vec[tdofs] = trac.ravel("F")
    return x, xprev


def exact_zero_report(model, x):
    """(number of tangential components that are exactly 0.0 in the jump, in the traction,
    in t_t + c*du_t) over the fracture cells whose tangential vector is not all-zero."""
    import porepy as pp

    es = model.equation_system
    nd = model.nd
    fracs = model.mdg.subdomains(dim=nd - 1)
    if nd != 3 or not fracs or "contact_traction" not in {v.name for v in es.variables}:
        return (0, 0, 0)
    ev = lambda op: np.atleast_1d(np.asarray(es.evaluate(op, False, x), dtype=float))
    tng = model.tangential_component(fracs)
    out = []
    c = float(np.atleast_1d(ev(model.contact_mechanics_numerical_constant(fracs)))[0])
    u_tp = tng @ model.plastic_displacement_jump(fracs)
    t_t = ev(tng @ model.contact_traction(fracs))
    vecs = [ev(tng @ model.displacement_jump(fracs)), t_t, t_t + c * ev(pp.ad.time_increment(u_tp))]
    for v in vecs:
        m = v.reshape((nd - 1, -1), order="F")
        nonzero_vec = np.any(m != 0.0, axis=0)
        out.append(int(np.sum((m == 0.0)[:, nonzero_vec])))
    return tuple(out)


def indicators(model, x):
    """Arguments of every non-smooth function in the fracture laws, per fracture cell.

    A state is inside the smooth region iff none of them is (close to) zero. Evaluated
    with the model's operators; used only to restrict the domain of the check.
    """
    import porepy as pp
    from functools import partial

    es = model.equation_system
    names = {v.name for v in es.variables}
    nd = model.nd
    fracs = model.mdg.subdomains(dim=nd - 1)
    if "contact_traction" not in names or not fracs:
        return {}
    ev = lambda op: np.atleast_1d(np.asarray(es.evaluate(op, False, x), dtype=float))
    nrm = model.normal_component(fracs)
    tng = model.tangential_component(fracs)
    t = model.contact_traction(fracs)
    t_n = ev(nrm @ t)
    t_t = ev(tng @ t)
    jump = model.displacement_jump(fracs)
    u_n = ev(nrm @ jump)
    u_tp = model.tangential_component(fracs) @ model.plastic_displacement_jump(fracs)
    du_t = ev(pp.ad.time_increment(u_tp))
    u_tp_v = ev(u_tp)
    c = float(np.atleast_1d(ev(model.contact_mechanics_numerical_constant(fracs)))[0])
    gap = ev(model.fracture_gap(fracs))
    nf = t_n.size
    if gap.size == 1:
        gap = np.full(nf, gap[0])
    b = ev(model.friction_bound(fracs))
    tsum = (t_t + c * du_t).reshape((nd - 1, nf), order="F")
    ntsum = np.sqrt((tsum**2).sum(axis=0))
    nut = np.sqrt((u_tp_v.reshape((nd - 1, nf), order="F") ** 2).sum(axis=0))
    out = {
        "normal": -t_n - c * (u_n - gap),
        "bound": b,
        "slip": np.maximum(b, 0.0) - ntsum,
        "tsum": ntsum,
        "ut": nut,
        "jump_n": u_n,
    }
    dmax = float(model.solid.maximum_elastic_fracture_opening)
    if dmax > 0:
        k = float(model.solid.fracture_normal_stiffness)
        tchar = float(np.atleast_1d(ev(model.characteristic_contact_traction(fracs)))[0])
        out["bb_pole"] = k / tchar * dmax - t_n
    return out


def regime_names(ind):
    """Regime label per fracture cell from the indicator signs."""
    if not ind:
        return []
    res = []
    for f in range(ind["normal"].size):
        nopen = ind["normal"][f] < 0
        if ind["bound"][f] <= 0:
            tang = "free"
        elif ind["slip"][f] > 0:
            tang = "stick"
        else:
            tang = "slip"
        res.append(("open" if nopen else "closed") + "/" + tang)
    return res


def margin(ind, dilation=True):
    """Smallest |argument| of a non-smooth function that is ACTIVE in its cell.

    Inactive arguments: in cells with negative friction bound the tangential equation is
    ``characteristic * t_t`` with characteristic == 1 exactly (b_p = max(b, 0) = 0), so
    the norm / max of the tangential sum are multiplied by an exact zero in value and
    Jacobian; the norm of the tangential jump only enters the fracture gap, i.e. the
    argument of the normal max, which is switched off in open cells and multiplied by
    tan(0) = 0 without dilation.
    """
    if not ind:
        return np.inf
    n = ind["normal"].size
    free = ind["bound"] < 0
    opened = ind["normal"] < 0
    vals = []
    for k, v in ind.items():
        a = np.abs(np.asarray(v, dtype=float))
        if k in ("slip", "tsum"):
            a = a[~free]
        elif k == "ut":
            a = a[~opened] if dilation else a[:0]
        if a.size:
            vals.append(float(a.min()))
    return min(vals) if vals else np.inf


def make_states(model, letter, salt=0):
    """(x0, xprev): the state where the Jacobian is tested and a different state for the
    previous time step."""
    axis = neg = None
    if letter in ALIGNED_LETTERS:
        axis = ALIGNED_LETTERS[letter][1]
        salt = salt + 7 + axis
    elif letter in NEGJUMP_LETTERS:
        neg = NEGJUMP_LETTERS[letter][1]
        salt = salt + 10 + list(NEGJUMP_LETTERS).index(letter)
    else:
        salt = salt + list(STATE_LETTERS).index(letter)
    x0 = raw_state(model, letter, salt)
    base = base_letter(letter)
    prev_letter = {"wave-0.3": "lin-1", "lin-1": "wave-0.3"}.get(base, "wave-0.3")
    xp = raw_state(model, prev_letter, salt + 5)
    x0, xp = contact_fill(model, x0, xp, salt, axis=axis, neg=neg)
    x0 = _make_admissible(model, x0)
    xp = _make_admissible(model, xp)
    return x0, xp


def porosity_range(model, x):
    """(min, max) of the porosity on all subdomains at state x (constant for pure flow)."""
    es = model.equation_system
    if not hasattr(model, "porosity"):
        return (0.5, 0.5)
    sds = model.mdg.subdomains(dim=model.nd)  # fractures have porosity 1 by construction
    v = np.atleast_1d(np.asarray(es.evaluate(model.porosity(sds), False, x), dtype=float))
    return float(v.min()), float(v.max())


# The matrix porosity of the poromechanical models responds to the interface displacement
# of neighbouring fracture faces; on the tiny cells next to a fracture it cannot be kept
# inside (0, 1) together with clear contact regimes. All shipped laws are polynomial in
# the porosity, so the smooth region is not left; only the upper bound matters (the
# effective thermal conductivity must stay positive definite for the discretization).
POROSITY_BAND = (-1.0, 0.9)


def _make_admissible(model, x):
    """Halve the matrix displacement until the porosity lies inside POROSITY_BAND (a
    porosity outside (0, 1) makes e.g. the effective thermal conductivity negative: not
    an admissible state). Deterministic input construction, at most 8 halvings."""
    es = model.equation_system
    uvars = [v for v in es.variables if v.name == "u"]
    if not uvars:
        return x
    udofs = es.dofs_of(uvars)
    x = x.copy()
    for _ in range(8):
        lo, hi = porosity_range(model, x)
        if lo >= POROSITY_BAND[0] and hi <= POROSITY_BAND[1]:
            break
        x[udofs] *= 0.5
    return x


def install(model, x0, xprev):
    """Make ``x0`` the current iterate and ``xprev`` the previous time step, then let the
    model update everything that depends on the iterate outside AD (flux values for
    upwinding, state dependent discretization parameters), as a Newton iteration does."""
    es = model.equation_system
    for i in model.time_step_indices:
        es.set_variable_values(xprev, time_step_index=int(i))
    for i in model.iterate_indices:
        es.set_variable_values(x0, iterate_index=int(i))
    model.update_derived_quantities()
