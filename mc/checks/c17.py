"""C17 — Upwinding picks the upstream cell and transports conservatively.

Engine E on the real ``pp.Upwind.discretize``.

Part "sel" (upstream selection): every face-flux sign vector of the declared set x every
Dirichlet/Neumann assignment of the declared set x component counts. Reference = the
definition: a face with q_f != 0 has a single 1 at the cell with cell_faces[f,c]*q_f > 0,
nothing on Neumann faces and Dirichlet inflow faces; the Dirichlet boundary matrix is the
identity on Dirichlet inflow faces and zero elsewhere, the Neumann boundary matrix is
diagonal with entries of magnitude 1 on Neumann faces and zero elsewhere; n components
= kron(., I_n). On faces with q_f == 0 the property is silent: only "at most one entry per
row" is demanded there and the boundary matrices are unconstrained on that diagonal entry.

Part "step" (explicit transport): exactly divergence-free fluxes that vanish on the
boundary (integer combinations of discrete curls), dt = {0.5, 1} x CFL limit
min_c V_c / outflow_c; total amount per component unchanged and cell values stay within the
initial [min, max].

Part "seq" (hidden state across calls): on ONE data dictionary and ONE BoundaryCondition
object: discretize; flip Dirichlet/Neumann on every second boundary face by mutating the
same object in place and rescale the flux magnitudes without changing any sign; discretize
again and compare with a discretization on a fresh dictionary with a fresh object; flip back,
rescale again, discretize and compare with the first result.

Part "asm" (``Upwind.assemble_matrix_rhs`` on one data dictionary, one component): after one
``discretize`` the first assembly equals div diag(q) U and div (N + D diag(q)) bc_values
built from copies of the stored matrices; every stored matrix and every parameter (flux
array, boundary object, boundary values) is bitwise unchanged by assembling (purity);
assembling 3 times gives identical (A, b); identical to discretize + assemble on a fresh
dictionary; discretize -> assemble -> discretize -> assemble is identical too; and 3 explicit
steps with A re-assembled in every step (divergence-free no-flow flux of mixed sign, dt at the
CFL limit) conserve the amount and stay within the initial bounds.
"""

from __future__ import annotations

import itertools

import numpy as np

from mc.core import Outcome
from mc.oracles import grpE_grids as G
from mc.oracles import grpE_upwind as U

PROPERTY = "C17"
LEVEL = "exploration"
RULE = (
    "sel: all sign vectors in {-1,0,+1}^F with at most z zeros (z per grid, z = F means all) or all "
    "single/pair modifications of 3 base fields, x Dirichlet/Neumann assignments (all 2^|dF|, side-wise, or "
    "{allDir, allNeu, alternating, complement}) x components {1,2,3}; flux magnitudes vary per face so that "
    "only the sign can matter. Non-trivial = the vector has a Dirichlet inflow face, a Neumann face with "
    "non-zero flux and (if the grid has interior faces) a negative interior flux; distinct by (grid, components, "
    "assignment, signs on boundary faces). step: all coefficient vectors of the curl basis from the declared "
    "set x assignments x dt factors x initial data (cell indicators and a ramp)."
)
ASSUMPTIONS = [
    "only Dirichlet and Neumann boundary faces (no Robin), no internal boundaries",
    "faces with zero flux: only 'at most one entry per row' is demanded (the code treats 0 as positive); every "
    "non-zero float, however small (1e-300), is a non-zero flux whose sign decides",
    "the magnitude (1) of the Neumann boundary matrix entries is demanded, their sign is not",
    "step: no-flow boundaries are realised by q = 0 on boundary faces; tolerance 1e-12 relative on "
    "mass and bounds (round-off of a handful of additions)",
]
BOUNDS = {
    "quick": (
        "sel: 1-d C(3), T(1,1): all 3^F sign vectors x all 2^|dF| assignments x components 1,2,3; C(2,1): all 3^7 vectors x "
        "side-wise assignments (components 2,3: x {allDir, allNeu, alternating, complement}); C(2,2): all vectors with <= 1 "
        "zero x {alternating, complement}; T(2,2), C(3,1), C(2,2,2): single modifications of 3 base fields x side-wise "
        "assignments (components 1,2,3; C(2,2,2): 2,3 for the first base field only). "
        "step: C(2,2), C(2,2)~, Tensor 2x2 uneven, T(2,2), T(2,2)~ (coefficients +-1, +-2), C(3,2), C(3,2)~ ({-1,0,1,2}^2), "
        "C(3,3) ({-1,0,1}^4), C(2,2,2) ({-1,0,1}^6), C(2,2)~ *1e-3, T(2,2) *1e3; 3 assignments; components 1,2,3; dt factor "
        "0.5 and 1. Flux-magnitude axis {1e-300, 1e-30, 1e-17, 1e-12, 1, 1e12, 1e30, mixed per face}: "
        "T(1,1) and 1-d C(3) (all vectors x all assignments), C(2,1) (all vectors x 4 assignments; 1e-300, 1e-17, mixed), "
        "C(2,2,2) single modifications; embedded letters T(1,1)^gen, C(2,1)^gen2 (sel) and C(2,2)~^gen (step); step part with q x 2^-60, 2^-1000, 2^100 (dt = CFL limit scales exactly). Purity: flux array per call, grid and "
        "boundary object digest per assignment; seq part (in-place flip of every second boundary face on one bc object + "
        "rescaled fluxes, there and back; asm part: assemble_matrix_rhs purity / 3 repeated assemblies / fresh dictionary / "
        "re-discretize / 3 explicit steps, on T(1,1) and C(2,1) (all sign vectors) and curl fluxes on C(2,2), C(2,2)~, T(2,2), C(3,2), "
        "C(3,3), C(2,2,2), T(2,2)~^gen; seq part) on C(3), T(1,1), C(2,1): all 3^F sign vectors x 4 assignments x components 1,2; reuse (second discretize on the same dictionary) on every 16th vector."
    ),
    "thorough": (
        "quick + C(2,1): all vectors x all 64 assignments (components 2,3: side-wise); C(2,2): <= 1 zero x 4 assignments, "
        "<= 2 zeros x 4 assignments, no zero x all 256; C(3,1): all 3^10 vectors x 4 assignments; T(2,2), C(2,2,2): single and pair "
        "modifications (1 component), single modifications x components 1,2,3."
    ),
}
MIN_CLASSES = 6
CHUNK = 2

MAGSCALES = (1e-300, 1e-30, 1e-17, 1e-12, 1.0, 1e12, 1e30)
NFACES = {"C3": (4, 2), "T1,1": (5, 4), "C2,1": (7, 6), "C2,2": (12, 8), "C3,1": (10, 8), "T2,2": (16, 8),
          "C2,2,2": (36, 24)}


def _gkey(spec):
    return spec["kind"] + ",".join(str(v) for v in spec["n"])


def _prefixes(L):
    return [list(p) for p in itertools.product((1, -1, 0), repeat=L)]


def cases(tier):
    out: list = []
    c3 = {"kind": "C", "n": [3]}
    t11 = {"kind": "T", "n": [1, 1]}
    c21 = {"kind": "C", "n": [2, 1]}
    c22 = {"kind": "C", "n": [2, 2]}
    c31 = {"kind": "C", "n": [3, 1]}
    t22 = {"kind": "T", "n": [2, 2]}
    c222 = {"kind": "C", "n": [2, 2, 2]}
    for comps in (1, 2, 3):
        out.append({"part": "sel", "grid": c3, "vec": "lex", "z": 4, "prefix": [], "bcset": "all", "comps": comps})
        out.append({"part": "sel", "grid": t11, "vec": "lex", "z": 5, "prefix": [], "bcset": "all", "comps": comps})
    # scale axis of the flux magnitudes: any non-zero float is a non-zero flux, only its sign may matter
    for ms in (1e-300, 1e-30, 1e-17, 1e-12, 1e12, 1e30, "mixed"):
        out.append({"part": "sel", "grid": t11, "vec": "lex", "z": 5, "prefix": [], "bcset": "all", "comps": 1, "magscale": ms})
        out.append({"part": "sel", "grid": c3, "vec": "lex", "z": 4, "prefix": [], "bcset": "all", "comps": 2, "magscale": ms})
    for ms in (1e-300, 1e-17, "mixed"):
        for p in _prefixes(1):
            out.append({"part": "sel", "grid": c21, "vec": "lex", "z": 7, "prefix": p, "bcset": "four", "comps": 1, "magscale": ms})
        out.append({"part": "sel", "grid": c222, "vec": "mod1", "base": 0, "bcset": "side", "comps": 1, "slice": [0, 1], "magscale": ms})

    # 2-d grid embedded in a tilted plane of 3-d space
    out.append({"part": "sel", "grid": dict(t11, embed="gen"), "vec": "lex", "z": 5, "prefix": [], "bcset": "all", "comps": 1})
    out.append({"part": "sel", "grid": dict(c21, embed="gen2"), "vec": "lex", "z": 7, "prefix": [], "bcset": "four", "comps": 2})

    def pref(L, z):
        return [p for p in _prefixes(L) if sum(1 for v in p if v == 0) <= z]

    q = tier == "quick"
    for p in _prefixes(1 if q else 3):
        out.append({"part": "sel", "grid": c21, "vec": "lex", "z": 7, "prefix": p, "bcset": "side" if q else "all", "comps": 1})
    for p in _prefixes(1):
        for comps in (2, 3):
            out.append({"part": "sel", "grid": c21, "vec": "lex", "z": 7, "prefix": p, "bcset": "four" if q else "side", "comps": comps})
    for p in _prefixes(3):
        out.append({"part": "sel", "grid": c22, "vec": "lex", "z": 1, "prefix": p, "bcset": "alt" if q else "four", "comps": 1})
    for spec in (t22, c31, c222):
        for base in range(3):
            for comps in (1, 2, 3):
                if q and spec is c222 and comps > 1 and base > 0:
                    continue
                out.append({"part": "sel", "grid": spec, "vec": "mod1", "base": base, "bcset": "side", "comps": comps, "slice": [0, 1]})
    if tier == "thorough":
        for base in range(3):
            out.append({"part": "sel", "grid": t22, "vec": "mod2", "base": base, "bcset": "side", "comps": 1, "slice": [0, 1]})
            for part in range(8):
                out.append({"part": "sel", "grid": c222, "vec": "mod2", "base": base, "bcset": "side", "comps": 1, "slice": [part, 8]})
        for p in pref(3, 2):
            out.append({"part": "sel", "grid": c22, "vec": "lex", "z": 2, "prefix": p, "bcset": "four", "comps": 1})
        for p in pref(5, 0):
            out.append({"part": "sel", "grid": c22, "vec": "lex", "z": 0, "prefix": p, "bcset": "all", "comps": 1})
        for p in pref(3, 10):
            out.append({"part": "sel", "grid": c31, "vec": "lex", "z": 10, "prefix": p, "bcset": "four", "comps": 1})
    # sequences on one data dictionary / one boundary condition object
    for spec in (c3, t11, c21):
        for comps in (1, 2):
            out.append({"part": "seq", "grid": spec, "comps": comps})
    # assemble_matrix_rhs sequences / purity (fluxes of mixed sign)
    for p in _prefixes(1):
        out.append({"part": "asm", "grid": t11, "flux": "signs", "prefix": p})
        out.append({"part": "asm", "grid": c21, "flux": "signs", "prefix": p})
    for spec, coef in ((c22, "pm2"), (dict(c22, pert=[[4, [1, -1]]]), "pm2"), (t22, "pm2"), ({"kind": "C", "n": [3, 2]}, "m1to2"),
                       ({"kind": "C", "n": [3, 3]}, "tern"), (c222, "tern"), (dict(t22, pert=[[4, [-1, 1]]], embed="gen"), "pm2")):
        out.append({"part": "asm", "grid": spec, "flux": "curl", "coef": coef})
    # explicit transport
    steps = [
        (c22, "pm2"), (dict(c22, pert=[[4, [1, -1]]]), "pm2"), ({"kind": "Tensor", "coords": [[0, 1, 3], [0, 2, 3]]}, "pm2"),
        (t22, "pm2"), (dict(t22, pert=[[4, [-1, 1]]]), "pm2"),
        ({"kind": "C", "n": [3, 2]}, "m1to2"), ({"kind": "C", "n": [3, 2], "pert": [[5, [1, 0]], [6, [-1, 1]]]}, "m1to2"),
        ({"kind": "C", "n": [3, 3]}, "tern"), (c222, "tern"),
        (dict(c22, pert=[[4, [1, -1]]], scale=1e-3), "pm2"), (dict(t22, scale=1e3), "pm2"),
    ]
    for spec, coef in steps:
        for comps in (1, 2, 3):
            out.append({"part": "step", "grid": spec, "coef": coef, "comps": comps})
    # tiny / huge flux magnitudes (powers of two, so dt = CFL limit scales in exact proportion)
    for comps in (1, 2):
        out.append({"part": "step", "grid": dict(c22, pert=[[4, [1, -1]]], embed="gen"), "coef": "pm2", "comps": comps})
    for spec, coef, e in ((dict(c22, pert=[[4, [1, -1]]]), "pm2", -60), ({"kind": "C", "n": [3, 2]}, "m1to2", -1000),
                          (t22, "pm2", 100), ({"kind": "C", "n": [3, 3]}, "tern", -60)):
        for comps in (1, 2):
            out.append({"part": "step", "grid": spec, "coef": coef, "comps": comps, "mag_exp2": e})
    return out


def _magnitudes(nf):
    # dyadic, face-dependent magnitudes: only the sign may matter
    return 0.5 * (1.0 + (np.arange(nf) % 3))


def _bc_masks(info, dim, bcset):
    nb = len(info["bfaces"])
    if bcset == "all":
        return G.all_assignments(nb)
    if bcset == "side":
        return G.side_assignments(info["side"], dim)
    full = (1 << nb) - 1
    alt = sum(1 << i for i in range(0, nb, 2))
    if bcset == "alt":
        return [alt, full ^ alt]
    return [full, 0, alt, full ^ alt]


def _base_field(g, base):
    nf = g.num_faces
    if base == 0:
        v = np.array([1.0, 0.5, 0.25])
        s = np.sign(g.face_normals.T @ v).astype(int)
    elif base == 1:
        s = np.ones(nf, dtype=int)
    else:
        s = np.where(np.arange(nf) % 2 == 0, 1, -1)
    return s


def _vectors(case, g):
    nf = g.num_faces
    if case["vec"] == "lex":
        yield from U.sign_vectors(nf, case["z"], case["prefix"])
        return
    base = _base_field(g, case["base"])
    i0, n = case["slice"]
    cnt = 0

    def emit(v):
        nonlocal cnt
        cnt += 1
        return (cnt - 1) % n == i0

    if emit(None):
        yield tuple(int(x) for x in base)
    others = lambda s: [x for x in (1, -1, 0) if x != s]  # noqa: E731
    for f in range(nf):
        for a in others(base[f]):
            if emit(None):
                v = base.copy()
                v[f] = a
                yield tuple(int(x) for x in v)
    if case["vec"] == "mod2":
        for f in range(nf):
            for h in range(f + 1, nf):
                for a in others(base[f]):
                    for b in others(base[h]):
                        if emit(None):
                            v = base.copy()
                            v[f] = a
                            v[h] = b
                            yield tuple(int(x) for x in v)


def _discretize(g, bc, q, comps, again=False):
    import porepy as pp

    kw = "transport"
    data = {pp.PARAMETERS: {kw: {"bc": bc, "darcy_flux": q, "num_components": comps}}, pp.DISCRETIZATION_MATRICES: {kw: {}}}
    up = pp.Upwind(kw)
    up.discretize(g, data)
    md = data[pp.DISCRETIZATION_MATRICES][kw]
    if again:
        first = [np.array(md[k].toarray()) for k in (up.upwind_matrix_key, up.bound_transport_dir_matrix_key, up.bound_transport_neu_matrix_key)]
        up.discretize(g, data)  # reuse of the same data dictionary and argument objects
        md = data[pp.DISCRETIZATION_MATRICES][kw]
        second = [np.array(md[k].toarray()) for k in (up.upwind_matrix_key, up.bound_transport_dir_matrix_key, up.bound_transport_neu_matrix_key)]
        if not all(np.array_equal(a, b) for a, b in zip(first, second)):
            raise _ReuseMismatch()
    return md[up.upwind_matrix_key], md[up.bound_transport_dir_matrix_key], md[up.bound_transport_neu_matrix_key]


class _ReuseMismatch(Exception):
    pass


def _unkron(M, nr, nc, n):
    """M (nr*n x nc*n) -> (block (nr x nc), ok) where ok says M == kron(block, I_n)."""
    A = np.asarray(M.toarray())
    if A.shape != (nr * n, nc * n):
        return None, False
    T = A.reshape(nr, n, nc, n)
    blk = T[:, 0, :, 0]
    ok = True
    for k in range(n):
        for l in range(n):  # noqa: E741
            if k == l:
                ok = ok and np.array_equal(T[:, k, :, l], blk)
            else:
                ok = ok and not np.any(T[:, k, :, l])
    return blk, ok


def _run_sel(case, out):
    spec, comps = case["grid"], case["comps"]
    g, info = G.build_grid(spec)
    nf, nc, dim = g.num_faces, g.num_cells, g.dim
    assert (nf, len(info["bfaces"])) == NFACES[_gkey(spec)]
    posc, negc, _ = U.face_cells(g)
    bf = info["bfaces"]
    nb = len(bf)
    is_bnd = np.zeros(nf, dtype=bool)
    is_bnd[bf] = True
    interior = ~is_bnd
    ms = case.get("magscale", 1.0)
    if ms == "mixed":  # every face on another decade
        mag = _magnitudes(nf) * np.array(MAGSCALES)[np.arange(nf) % len(MAGSCALES)]
    else:
        mag = _magnitudes(nf) * float(ms)
    assert np.all(mag > 0) and np.all(np.isfinite(mag))
    gname = G.grid_name(spec)
    vectors = list(_vectors(case, g))
    for m in _bc_masks(info, dim, case["bcset"]):
        is_dir = G.mask_to_dir(m, nb)
        bc = G.make_bc(g, bf, is_dir)
        dir_face = np.zeros(nf, dtype=bool)
        dir_face[bf[is_dir]] = True
        neu_face = is_bnd & ~dir_face
        bccls = "allDir" if is_dir.all() else ("allNeu" if not is_dir.any() else "mixed")
        dg0 = G.digest(g, bc)
        for iv, sv in enumerate(vectors):
            s = np.array(sv)
            q = s * mag
            q_in = q.copy()
            try:
                Um, Dm, Nm = _discretize(g, bc, q_in, comps, again=(iv % 16 == 0))
                if not np.array_equal(q_in, q):
                    raise _ReuseMismatch("flux array modified")
            except _ReuseMismatch as e:
                out.violate("Upwind.discretize modified its flux argument" if e.args else
                            "second Upwind.discretize on the same data dictionary gives different matrices",
                            grid=gname, flux=q, dirichlet_faces=bf[is_dir], components=comps)
                out.ev("VIOLATION")
                continue
            except Exception as e:
                out.violate("Upwind.discretize raised on a valid input", error=repr(e), grid=gname, signs=list(sv),
                            dirichlet_faces=bf[is_dir], components=comps)
                out.ev("exception")
                continue
            Uexp, dir_diag = U.reference_upwind(posc, negc, nc, s, is_bnd, dir_face, neu_face)
            nz = s != 0
            bad = None
            Ub, ok_u = _unkron(Um, nf, nc, comps)
            Db, ok_d = _unkron(Dm, nf, nf, comps)
            Nb, ok_n = _unkron(Nm, nf, nf, comps)
            if not (ok_u and ok_d and ok_n):
                bad = ("multi-component matrices are not kron(single-component matrix, identity)",
                       {"upwind_ok": bool(ok_u), "dir_ok": bool(ok_d), "neu_ok": bool(ok_n)})
            elif not np.array_equal(Ub[nz], Uexp[nz]):
                f = int(np.nonzero(nz)[0][np.argmax(np.any(Ub[nz] != Uexp[nz], axis=1))])
                bad = ("upwind row of a face with non-zero flux is not the indicator of the upstream cell",
                       {"face": f, "flux_sign": int(s[f]), "cells_pos_neg": [int(posc[f]), int(negc[f])],
                        "face_type": "interior" if interior[f] else ("dir" if dir_face[f] else "neu"),
                        "expected_row": Uexp[f], "observed_row": Ub[f]})
            elif np.any(np.count_nonzero(Ub[~nz], axis=1) > 1):
                bad = ("upwind row of a zero-flux face has more than one entry", {})
            else:
                Dd, Nd = np.diag(Db), np.diag(Nb)
                if np.any(Db - np.diag(Dd)) or np.any(Nb - np.diag(Nd)):
                    bad = ("boundary transport matrix has off-diagonal entries", {})
                elif not np.array_equal(Dd[nz], dir_diag[nz]) or np.any(Dd[~nz & ~dir_face]):
                    bad = ("Dirichlet boundary matrix is not the identity on Dirichlet inflow faces only",
                           {"expected_diag_on_nonzero_flux_faces": dir_diag, "observed_diag": Dd})
                elif not np.array_equal(np.abs(Nd[nz]), neu_face[nz].astype(float)) or np.any(Nd[~nz & ~neu_face]):
                    bad = ("Neumann boundary matrix is not +-1 on Neumann faces only",
                           {"neumann_faces": np.nonzero(neu_face)[0], "observed_diag": Nd})
            # classification
            has_inflow = bool(np.any(dir_diag[nz] == 1))
            has_neu_flux = bool(np.any(neu_face & nz))
            neg_int = bool(np.any(s[interior] < 0)) or not interior.any()
            key = (gname, comps, m, tuple(s[bf].tolist()), str(ms)) if (has_inflow and has_neu_flux and neg_int) else None
            nzero = int((~nz).sum())
            if bad is not None:
                out.violate(bad[0], grid=gname, grid_spec=spec, components=comps, flux=q, dirichlet_faces=bf[is_dir],
                            neumann_faces=bf[~is_dir], **bad[1])
                out.ev("VIOLATION", key)
            else:
                out.ev(f"sel/{gname}/n{comps}/{bccls}/z{min(nzero, 2)}" + ("/in" if has_inflow else "")
                       + (f"/x{ms}" if ms != 1.0 else ""), key)
            if not out.samples and key is not None:
                out.samples.append({"grid": gname, "flux": q.tolist(), "dirichlet_faces": bf[is_dir].tolist(),
                                    "neumann_faces": bf[~is_dir].tolist(), "components": comps})
        if G.digest(g, bc) != dg0:
            out.violate("Upwind.discretize modified the grid or the boundary condition object", grid=gname,
                        dirichlet_faces=bf[is_dir], components=comps, sign_vectors_in_batch=len(vectors))
            out.ev("VIOLATION")


COEFS = {"pm2": (1, -1, 2, -2), "m1to2": (-1, 0, 1, 2), "tern": (-1, 0, 1)}


def _run_step(case, out):
    import scipy.sparse as sps

    spec, comps = case["grid"], case["comps"]
    g, info = G.build_grid(spec)
    nf, nc, dim = g.num_faces, g.num_cells, g.dim
    basis = U.curl_basis(g)
    assert basis, "grid has no interior node/edge"
    bf = info["bfaces"]
    nb = len(bf)
    gname = G.grid_name(spec)
    cf = np.asarray(g.cell_faces.toarray())  # F x C
    vol = g.cell_volumes
    div_n = sps.kron(g.cell_faces.T, sps.eye(comps)).tocsr()
    full = (1 << nb) - 1
    alt = sum(1 << i for i in range(0, nb, 2))
    # initial data: cell indicators (one per cell, shifted per component) and a ramp
    inits = []
    for c in range(nc):
        v = np.zeros((nc, comps))
        for k in range(comps):
            v[(c + k) % nc, k] = 1.0 + k
        inits.append(v)
    ramp = np.zeros((nc, comps))
    for k in range(comps):
        ramp[:, k] = (np.arange(nc) * (k + 1)) % 5 - 1.0
    inits.append(ramp)
    for coefs in itertools.product(COEFS[case["coef"]], repeat=len(basis)):
        if not any(coefs):
            continue
        q = sum(a * b for a, b in zip(coefs, basis)) * (2.0 ** case.get("mag_exp2", 0))
        if not np.any(q):
            continue
        outflow = np.maximum(cf * q[:, None], 0.0).sum(axis=0)
        assert np.all(g.cell_faces.T @ q == 0) and not np.any(q[bf])
        dt_max = float(np.min(vol[outflow > 0] / outflow[outflow > 0]))
        zero_int = bool(np.any(q[np.setdiff1d(np.arange(nf), bf)] == 0))
        for m in (0, full, alt):
            is_dir = G.mask_to_dir(m, nb)
            bc = G.make_bc(g, bf, is_dir)
            try:
                Um, Dm, Nm = _discretize(g, bc, q, comps)
            except Exception as e:
                out.violate("Upwind.discretize raised on a valid input", error=repr(e), grid=gname, flux=q, components=comps)
                out.ev("exception")
                continue
            Qn = sps.kron(sps.diags(q), sps.eye(comps)).tocsr()
            A = (div_n @ Qn @ Um).tocsr()  # net outflow operator; boundary data are zero
            for fac in (0.5, 1.0):
                dt = fac * dt_max
                bad = None
                for c0 in inits:
                    x0 = c0.ravel()  # cell-major, component-minor: matches kron(., I_n)
                    x1 = x0 - dt * (A @ x0) / np.repeat(vol, comps)
                    c1 = x1.reshape(nc, comps)
                    mass0 = vol @ c0
                    mass1 = vol @ c1
                    scale = float(np.abs(vol).sum() * max(1.0, np.abs(c0).max()))
                    if np.any(np.abs(mass1 - mass0) > 1e-12 * scale):
                        bad = ("explicit upwind step with divergence-free no-flow flux changes the total amount",
                               {"mass_before": mass0, "mass_after": mass1})
                        break
                    lo, hi = c0.min(axis=0), c0.max(axis=0)
                    tol = 1e-12 * max(1.0, float(np.abs(c0).max()))
                    if np.any(c1 < lo - tol) or np.any(c1 > hi + tol):
                        bad = ("explicit upwind step under the CFL limit leaves the initial bounds",
                               {"initial": c0, "after": c1, "bounds": [lo, hi]})
                        break
                key = (gname, comps, m, coefs, fac, case.get("mag_exp2", 0))
                if bad is not None:
                    out.violate(bad[0], grid=gname, grid_spec=spec, components=comps, flux=q, curl_coefficients=list(coefs),
                                dirichlet_faces=bf[is_dir], dt=dt, dt_over_cfl=fac, **bad[1])
                    out.ev("VIOLATION", key)
                else:
                    out.ev(f"step/{dim}d-{spec['kind']}/n{comps}/cfl{fac}" + ("/zero-int" if zero_int else "")
                           + (f"/2^{case['mag_exp2']}" if case.get("mag_exp2") else ""), key)
        if not out.samples:
            out.samples.append({"grid": gname, "flux": q.tolist(), "dt_cfl": dt_max, "components": comps})


def _set_bc_inplace(bc, bf, is_dir):
    """Mutate the SAME BoundaryCondition object: Dirichlet on bf[is_dir], Neumann on the rest."""
    bc.is_dir[bf] = is_dir
    bc.is_neu[bf] = ~is_dir


def _run_seq(case, out):
    import porepy as pp

    spec, comps = case["grid"], case["comps"]
    g, info = G.build_grid(spec)
    nf, nc, dim = g.num_faces, g.num_cells, g.dim
    bf = info["bfaces"]
    nb = len(bf)
    mag = _magnitudes(nf)
    gname = G.grid_name(spec)
    kw = "transport"
    full = (1 << nb) - 1
    alt = sum(1 << i for i in range(0, nb, 2))
    keys = None
    for m in sorted(set([full, 0, alt, full ^ alt])):
        m2 = m ^ alt  # every second boundary face changes its type
        d1, d2 = G.mask_to_dir(m, nb), G.mask_to_dir(m2, nb)
        for sv in U.sign_vectors(nf, nf, []):
            s = np.array(sv)
            bad = None
            try:
                up = pp.Upwind(kw)
                if keys is None:
                    keys = (up.upwind_matrix_key, up.bound_transport_dir_matrix_key, up.bound_transport_neu_matrix_key)
                bc = G.make_bc(g, bf, d1)
                par = {"bc": bc, "darcy_flux": s * mag, "num_components": comps}
                data = {pp.PARAMETERS: {kw: par}, pp.DISCRETIZATION_MATRICES: {kw: {}}}
                up.discretize(g, data)
                first = [np.array(data[pp.DISCRETIZATION_MATRICES][kw][k].toarray()) for k in keys]
                # same object, other types; same signs, other magnitudes
                _set_bc_inplace(bc, bf, d2)
                par["darcy_flux"] = s * mag * 2.0
                up.discretize(g, data)
                second = [np.array(data[pp.DISCRETIZATION_MATRICES][kw][k].toarray()) for k in keys]
                Uf, Df, Nf = _discretize(g, G.make_bc(g, bf, d2), s * mag * 2.0, comps)
                fresh = [np.array(x.toarray()) for x in (Uf, Df, Nf)]
                if not all(np.array_equal(a, b) for a, b in zip(second, fresh)):
                    bad = "discretize after an in-place change of the boundary condition object returns stale matrices"
                else:
                    _set_bc_inplace(bc, bf, d1)
                    par["darcy_flux"] = s * mag * 0.5
                    up.discretize(g, data)
                    third = [np.array(data[pp.DISCRETIZATION_MATRICES][kw][k].toarray()) for k in keys]
                    if not all(np.array_equal(a, b) for a, b in zip(third, first)):
                        bad = "discretize after changing the boundary condition object back does not reproduce the first result"
            except Exception as e:
                out.violate("Upwind.discretize raised in a sequence on one data dictionary", error=repr(e), grid=gname,
                            signs=list(sv), dirichlet_mask=m, components=comps)
                out.ev("exception")
                continue
            changed = bool(np.any(d1 != d2)) and not all(np.array_equal(a, b) for a, b in zip(first, fresh))
            key = (gname, comps, m, sv) if changed else None
            if bad:
                out.violate(bad, grid=gname, grid_spec=spec, components=comps, signs=list(sv), dirichlet_faces_first=bf[d1],
                            dirichlet_faces_second=bf[d2])
                out.ev("VIOLATION", key)
            else:
                out.ev(f"seq/{gname}/n{comps}/" + ("matrices-change" if changed else "matrices-same"), key)


def _run_asm(case, out):
    import porepy as pp

    spec = case["grid"]
    g, info = G.build_grid(spec)
    nf, nc, dim = g.num_faces, g.num_cells, g.dim
    bf = info["bfaces"]
    nb = len(bf)
    gname = G.grid_name(spec)
    kw = "transport"
    vol = g.cell_volumes
    cfd = np.asarray(g.cell_faces.toarray())
    div = cfd.T
    full = (1 << nb) - 1
    alt = sum(1 << i for i in range(0, nb, 2))
    if case["flux"] == "signs":
        mag = _magnitudes(nf)
        fluxes = [(np.array(sv) * mag, False) for sv in U.sign_vectors(nf, nf, case.get("prefix", []))]
        masks = G.all_assignments(nb) if nb <= 4 else [full, 0, alt, full ^ alt]
    else:
        basis = U.curl_basis(g)
        fluxes = []
        for coefs in itertools.product(COEFS[case["coef"]], repeat=len(basis)):
            q = sum(a * b for a, b in zip(coefs, basis)) * 0.75
            if np.any(q > 0) and np.any(q < 0):
                fluxes.append((q, True))
        masks = [0, full, alt]
    bcv = np.zeros(nf)
    bcv[bf] = 1.0 + (np.arange(nb) % 3) * 0.5

    def fresh(bc, q):
        up = pp.Upwind(kw)
        par = {"bc": bc, "darcy_flux": q.copy(), "bc_values": bcv.copy(), "num_components": 1}
        data = {pp.PARAMETERS: {kw: par}, pp.DISCRETIZATION_MATRICES: {kw: {}}}
        up.discretize(g, data)
        return up, data, par

    for m in masks:
        is_dir = G.mask_to_dir(m, nb)
        for q, divfree in fluxes:
            bad = None
            try:
                bc = G.make_bc(g, bf, is_dir)
                up, data, par = fresh(bc, q)
                md = data[pp.DISCRETIZATION_MATRICES][kw]
                stored = G.dense_copy(md)
                Ud, Dd, Nd = (stored[k] for k in (up.upwind_matrix_key, up.bound_transport_dir_matrix_key, up.bound_transport_neu_matrix_key))
                dg0 = G.digest(md, par["darcy_flux"], par["bc"], par["bc_values"], g)
                A1, b1 = up.assemble_matrix_rhs(g, data)
                A1, b1 = np.array(A1.toarray()), np.array(b1)
                A_exp = div @ (q[:, None] * Ud)
                b_exp = div @ ((Nd + Dd * q[None, :]) @ bcv)
                sc = max(1.0, float(np.abs(q).max())) * max(1.0, float(np.abs(bcv).max()))
                if A1.shape != A_exp.shape or np.abs(A1 - A_exp).max() > 1e-13 * sc or np.abs(b1 - b_exp).max() > 1e-13 * sc:
                    bad = "first assemble_matrix_rhs is not div diag(q) U / div (N + D diag(q)) bc_values"
                elif G.digest(md, par["darcy_flux"], par["bc"], par["bc_values"], g) != dg0:
                    after = G.dense_copy(md)
                    changed = [k for k in stored if not np.array_equal(stored[k], after[k])]
                    bad = "assemble_matrix_rhs modified stored discretization matrices or parameters: " + ",".join(changed)
                else:
                    for rep in (2, 3):
                        A, b = up.assemble_matrix_rhs(g, data)
                        if not (np.array_equal(np.array(A.toarray()), A1) and np.array_equal(np.array(b), b1)):
                            bad = f"assemble_matrix_rhs call number {rep} on the same data dictionary differs from the first"
                            break
                if bad is None:
                    up2, data2, _ = fresh(G.make_bc(g, bf, is_dir), q)
                    A, b = up2.assemble_matrix_rhs(g, data2)
                    if not (np.array_equal(np.array(A.toarray()), A1) and np.array_equal(np.array(b), b1)):
                        bad = "repeated assembly differs from discretize + assemble on a fresh dictionary"
                if bad is None:
                    up.discretize(g, data)
                    A, b = up.assemble_matrix_rhs(g, data)
                    if not (np.array_equal(np.array(A.toarray()), A1) and np.array_equal(np.array(b), b1)):
                        bad = "discretize -> assemble -> discretize -> assemble differs from the first assembly"
                if bad is None and divfree:
                    outflow = np.maximum(cfd * q[:, None], 0.0).sum(axis=0)
                    dt = float(np.min(vol[outflow > 0] / outflow[outflow > 0]))
                    c0 = (np.arange(nc) * 3) % 5 - 1.0
                    c = c0.copy()
                    for step in range(3):
                        A, _ = up.assemble_matrix_rhs(g, data)  # re-assembled in every step, no new discretize
                        c = c - dt * (A @ c) / vol
                        if abs(vol @ c - vol @ c0) > 1e-12 * np.abs(vol).sum() * 4 or c.min() < c0.min() - 1e-12 or c.max() > c0.max() + 1e-12:
                            bad = f"explicit step {step + 1} with a re-assembled matrix violates conservation or the initial bounds"
                            break
            except Exception as e:
                out.violate("Upwind discretize / assemble_matrix_rhs raised", error=repr(e), grid=gname, flux=q, dirichlet_faces=bf[is_dir])
                out.ev("exception")
                continue
            mixed = bool(np.any(q > 0) and np.any(q < 0))
            key = (gname, m, tuple(np.sign(q).astype(int).tolist()), case["flux"]) if mixed else None
            if bad:
                out.violate(bad, grid=gname, grid_spec=spec, flux=q, dirichlet_faces=bf[is_dir], neumann_faces=bf[~is_dir], bc_values=bcv)
                out.ev("VIOLATION", key)
            else:
                out.ev(f"asm/{gname}/{case['flux']}/" + ("mixed" if mixed else "one-sign"), key)


def run_case(case) -> Outcome:
    out = Outcome()
    if case["part"] == "asm":
        _run_asm(case, out)
        return out
    if case["part"] == "sel":
        _run_sel(case, out)
    elif case["part"] == "seq":
        _run_seq(case, out)
    else:
        _run_step(case, out)
    return out


def known_finding(case, viol):
    return None
