"""Self-test of the runner: a worker that dies in native code must not hang the run."""
import os
from mc.core import Outcome
PROPERTY="ZCRASH"; LEVEL="exploration"; RULE="self-test"; ASSUMPTIONS=[]
def cases(tier): return list(range(40))
def run_case(c):
    if c==17: os.abort()
    o=Outcome(); o.ev("a" if c%2 else "b", key=c); return o
