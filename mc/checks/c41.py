"""C41 — interpolation tables are exact for multilinear functions.

Engine E. For every (parameter dimension, box, resolution) of the alphabet and every
function of a basis of the multilinear functions (all monomials prod x_i^e_i, e in
{0,1}^d), a generic affine function and two vector-valued functions, the real
``InterpolationTable`` is queried on the complete lattice of (npt-1)*4+1 points per axis
(both box boundaries, every grid line, three interior points per cell), in batches and
point by point; ``gradient`` is checked along every axis for every affine component.
``AdaptiveInterpolationTable`` objects with the same grid are filled lazily in three
different query orders and compared with the exact function and with the standard table.

Oracle: the function itself (closed form), evaluated with numpy.
"""

from __future__ import annotations

import itertools

import numpy as np

from mc.core import Outcome

PROPERTY = "C41"
LEVEL = "exploration"
RULE = (
    "one case = (parameter dimension, box, points per axis); inside it every function of the "
    "alphabet x every point of the query lattice x {interpolate, gradient per axis} x {standard, "
    "adaptive in 3 query orders}; non-trivial = non-constant function at a query point that is "
    "not a table node, or any query on the upper box boundary; distinct by (case, function, "
    "operation, table kind, position class)"
)
ASSUMPTIONS = [
    "value tolerance 1e-12 * max(1, max|f| on the box corners); gradient tolerance 1e-11 * that "
    "scale / min(h) (measured floors 4e-16 resp. 3e-16 in these units)",
    "gradient is demanded only for affine components (statement: 'exact for linear functions'); at a "
    "grid line or box boundary any one-sided value is the same constant, so it is demanded there too",
    "adaptive tables get dx = (high-low)/(npt-1) and base_point = low (and base_point=None where low=0); "
    "further variants: base_point=None (origin) for boxes not starting at 0 and base_point at an interior "
    "table node, so that queries lie below the base point (negative cell indices); the functions of the "
    "alphabet are multilinear, hence exact on any cell alignment",
    "queries outside the box are not part of the alphabet",
    "purity: low / high / npt and the query array are shared by all tables of a case and must be unchanged at its end",
]
BOUNDS = {
    "quick": "d=1,2: 3 boxes x npt in {2,3,4}^d; d=3: 2 boxes x npt in {2,3}^3; query lattice (npt-1)*4+1 per axis",
    "thorough": "d=1,2,3: 3 boxes x npt in {2,3,4}^d; query lattice (npt-1)*4+1 per axis",
}
MIN_CLASSES = 8
CHUNK = 2

BOXES = [
    ([0.0, 0.0, 0.0], [1.0, 1.0, 1.0]),
    ([-1.0, 3.0, 0.5], [2.0, 5.0, 2.0]),
    ([0.0, 0.1, -0.3], [0.6, 0.4, 0.3]),  # grid lines that are not binary fractions
]


def cases(tier):
    out = []
    for d in (1, 2, 3):
        for b in range(len(BOXES)):
            rng = (2, 3, 4)
            if tier == "quick" and d == 3:
                if b == 2:
                    continue
                rng = (2, 3)
            for npt in itertools.product(rng, repeat=d):
                out.append({"d": d, "box": b, "npt": list(npt)})
    return out


# ----------------------------------------------------------------------------- functions


class Fn:
    def __init__(self, name, comps):
        # comps: list of dicts coefficient-by-exponent-tuple, one per component
        self.name = name
        self.comps = comps
        self.dim = len(comps)

    def _one(self, comp, xs):
        tot = 0.0
        for e, c in comp.items():
            term = c
            for xi, ei in zip(xs, e):
                if ei:
                    term = term * xi
            tot = tot + term
        return tot

    def call(self, *xs):
        vals = [self._one(c, xs) for c in self.comps]
        return vals[0] if self.dim == 1 else np.array(vals)

    def val(self, Q):
        return np.array([self._one(c, list(Q)) + 0.0 * Q[0] for c in self.comps])

    def linear(self, k):
        return all(sum(e) <= 1 for e in self.comps[k])

    def grad(self, k, ax):
        e = tuple(1 if i == ax else 0 for i in range(len(next(iter(self.comps[k])))))
        return self.comps[k].get(e, 0.0)

    def degree(self):
        return max(sum(e) for c in self.comps for e, v in c.items() if v != 0) if any(self.comps) else 0


def functions(d):
    fs = []
    for e in itertools.product((0, 1), repeat=d):
        fs.append(Fn("m" + "".join(map(str, e)), [{e: 1.0}]))
    zero = (0,) * d
    lin = {zero: 1.0}
    for i in range(d):
        lin[tuple(1 if j == i else 0 for j in range(d))] = float((i + 2) * (-1) ** i)
    fs.append(Fn("lin", [lin]))
    top = {(1,) * d: 1.0}
    x0 = {tuple(1 if j == 0 else 0 for j in range(d)): 1.0, zero: 0.0}
    fs.append(Fn("vec", [top, lin]))
    fs.append(Fn("vec2", [lin, x0]))
    return fs


# ----------------------------------------------------------------------------- helpers

POS = ("interior", "gridline", "lower", "upper")


def _lattice(low, high, npt):
    axes = [np.linspace(low[i], high[i], (npt[i] - 1) * 4 + 1) for i in range(len(npt))]
    idx = np.array(list(itertools.product(*[range(a.size) for a in axes]))).T  # (d, N)
    Q = np.array([axes[i][idx[i]] for i in range(len(npt))])
    last = np.array([(n - 1) * 4 for n in npt]).reshape((-1, 1))
    upper = (idx == last).any(axis=0)
    lower = (idx == 0).any(axis=0) & ~upper
    grid = ((idx % 4) == 0).any(axis=0) & ~upper & ~lower
    pos = np.where(upper, 3, np.where(lower, 2, np.where(grid, 1, 0)))
    node = ((idx % 4) == 0).all(axis=0)
    # subset for point-by-point queries
    per_axis = [sorted({0, 1, 4, 4 * (n - 1) - 1, 4 * (n - 1)}) for n in npt]
    keep = np.ones(idx.shape[1], dtype=bool)
    for i in range(len(npt)):
        keep &= np.isin(idx[i], per_axis[i])
    return Q, pos, node, np.where(keep)[0]


def _first_bad(got, exp, tol):
    err = np.abs(got - exp)
    bad = ~(err <= tol)  # catches nan
    if bad.any():
        j = int(np.where(bad.any(axis=0))[0][0])
        return j, float(np.nanmax(err[:, j]))
    return None


class _Rec:
    """Bookkeeping: observation classes per position class, at most a few violations per kind."""

    def __init__(self, out, case):
        self.out, self.case, self.nviol = out, case, {}
        self.maxerr = {"value": 0.0, "gradient": 0.0}

    def violate(self, what, **kw):
        k = (what, kw.get("function"), kw.get("table"))
        self.nviol[k] = self.nviol.get(k, 0) + 1
        if self.nviol[k] <= 2:
            self.out.violate(what, **kw, **{"d": self.case["d"], "box": BOXES[self.case["box"]], "npt": self.case["npt"]})

    def ev(self, table, op, fn, pos, node, ok_mask):
        c = self.case
        for p in range(4):
            sel = pos == p
            n = int(sel.sum())
            if not n:
                continue
            nbad = int((~ok_mask[sel]).sum())
            nontriv = fn.degree() > 0 and (p == 3 or bool((~node[sel]).any()))
            key = (c["d"], c["box"], tuple(c["npt"]), fn.name, op, table, p) if nontriv else None
            if n - nbad:
                self.out.ev(f"{table}/{op}/deg{fn.degree()}{'v' if fn.dim > 1 else ''}/{POS[p]}", key, n - nbad)
            if nbad:
                self.out.ev("VIOLATION", None, nbad)


def _eval_points(call, Q, dim, batch, flat_ok=False):
    """Evaluate call on the columns of Q; returns (values (dim,N), list of (j, error)).

    In point-by-point mode every other point is passed as a 1-d vector if ``flat_ok`` (only
    the standard table has a branch for that format)."""
    N = Q.shape[1]
    if batch:
        try:
            v = np.asarray(call(Q))
            if v.shape != (dim, N):
                return None, [(0, f"result has shape {v.shape}, expected {(dim, N)}")]
            return v, []
        except Exception:
            pass  # locate the failing points one by one
    vals = np.full((dim, N), np.nan)
    errs = []
    for j in range(N):
        try:
            x = Q[:, j : j + 1] if (j % 2 == 0 or batch or not flat_ok) else Q[:, j].copy()
            v = np.asarray(call(x))
            if v.shape != (dim, 1):
                errs.append((j, f"result has shape {v.shape}, expected {(dim, 1)}"))
                continue
            vals[:, j] = v[:, 0]
        except Exception as e:
            errs.append((j, repr(e)))
    return vals, errs


def _check(rec, table, op, fn, Q, pos, node, call, exact, tol, batch, comps=None, also=None):
    """Run ``call`` on Q (batch, falling back to single points), compare with ``exact``."""
    vals, errs = _eval_points(call, Q, fn.dim, batch, flat_ok=(table == "std"))
    N = Q.shape[1]
    ok = np.ones(N, dtype=bool)
    if vals is None:
        rec.violate(f"{op} returned a malformed result", function=fn.name, table=table, detail=errs[0][1])
        ok[:] = False
        rec.ev(table, op, fn, pos, node, ok)
        return None
    for j, e in errs:
        ok[j] = False
    if errs:
        j, e = errs[0]
        rec.violate(f"{op} raised inside the box", function=fn.name, table=table, x=Q[:, j], error=e,
                    position=POS[pos[j]], n_points_failing=len(errs))
    rows = list(range(fn.dim)) if comps is None else comps
    good = np.where(ok)[0]
    if good.size and rows:
        err = np.abs(vals[np.ix_(rows, good)] - exact[np.ix_(rows, good)])
        kind = "gradient" if op.startswith("grad") else "value"
        if err.size:
            rec.maxerr[kind] = max(rec.maxerr[kind], float(np.nanmax(err)) / (tol / (1e-12 if kind == "value" else 1e-11)))
        badcol = ~(err <= tol).all(axis=0)
        if badcol.any():
            j = int(good[np.where(badcol)[0][0]])
            rec.violate(f"{op} differs from the exact {'derivative' if kind == 'gradient' else 'function value'}",
                        function=fn.name, table=table, x=Q[:, j], got=vals[rows, j], expected=exact[rows, j],
                        position=POS[pos[j]], n_points_failing=int(badcol.sum()))
            ok[good[badcol]] = False
    if also is not None and good.size and rows:
        ref, refname = also
        both = good[np.isfinite(ref[np.ix_(rows, good)]).all(axis=0)]
        if both.size:
            diff = np.abs(vals[np.ix_(rows, both)] - ref[np.ix_(rows, both)])
            badcol = ~(diff <= 2 * tol).all(axis=0)
            if badcol.any():
                j = int(both[np.where(badcol)[0][0]])
                rec.violate(f"{table} table disagrees with the {refname} table ({op})", function=fn.name, table=table,
                            x=Q[:, j], got=vals[rows, j], other=ref[rows, j], position=POS[pos[j]])
                ok[both[badcol]] = False
    rec.ev(table, op, fn, pos, node, ok)
    # values that failed against the exact function are not used as a reference for other tables
    vals = vals.copy()
    vals[:, ~ok] = np.nan
    return vals


# ----------------------------------------------------------------------------- the case


def run_case(case) -> Outcome:
    from porepy.utils.interpolation_tables import AdaptiveInterpolationTable, InterpolationTable

    out = Outcome()
    rec = _Rec(out, case)
    d = case["d"]
    low = np.array(BOXES[case["box"]][0][:d])
    high = np.array(BOXES[case["box"]][1][:d])
    npt = np.array(case["npt"])
    h = (high - low) / (npt - 1)
    Q, pos, node, sub = _lattice(low, high, npt)
    corners = np.array(list(itertools.product(*zip(low, high)))).T
    order2 = np.arange(Q.shape[1])[::-1]
    # deterministic scrambled order for the lazily filled table (stride coprime to the length)
    ns = sub.size
    stride = next(s for s in (7, 5, 3, 11, 13, 1) if np.gcd(s, ns) == 1)
    order3 = sub[(np.arange(ns) * stride + 1) % ns]

    Q0, low0, high0, npt0 = Q.copy(), low.copy(), high.copy(), npt.copy()
    for fn in functions(d):
        exact = fn.val(Q)
        scale = max(1.0, float(np.abs(fn.val(corners)).max()))
        tol_v = 1e-12 * scale
        tol_g = 1e-11 * scale / float(h.min())
        lin_rows = [k for k in range(fn.dim) if fn.linear(k)]
        gexact = {ax: np.array([[fn.grad(k, ax)] * Q.shape[1] if fn.linear(k) else [np.nan] * Q.shape[1]
                                for k in range(fn.dim)]) for ax in range(d)}

        # ---------------- standard table
        S = None
        G: dict = {}
        try:
            # the same box arrays and the same query array are reused for every table (aliasing / purity)
            tab = InterpolationTable(low, high, npt, fn.call, dim=fn.dim)
        except Exception as e:
            rec.violate("InterpolationTable constructor raised", function=fn.name, table="std", error=repr(e))
            out.ev("VIOLATION")
            tab = None
        if tab is not None:
            S = _check(rec, "std", "interpolate", fn, Q, pos, node, tab.interpolate, exact, tol_v, True)
            _check(rec, "std", "interpolate-single", fn, Q[:, sub], pos[sub], node[sub], tab.interpolate,
                   exact[:, sub], tol_v, False)
            if lin_rows:
                for ax in range(d):
                    gfun = (lambda x, ax=ax: tab.gradient(x, ax))
                    # one batch per position class, so that a failure on the boundary cannot hide the interior
                    Gax = np.full(exact.shape, np.nan)
                    for p in range(4):
                        sel = np.where(pos == p)[0]
                        if sel.size:
                            g = _check(rec, "std", f"gradient{ax}", fn, Q[:, sel], pos[sel], node[sel], gfun,
                                       gexact[ax][:, sel], tol_g, True, comps=lin_rows)
                            if g is not None:
                                Gax[:, sel] = g
                    G[ax] = Gax
                    _check(rec, "std", f"gradient{ax}-single", fn, Q[:, sub], pos[sub], node[sub], gfun,
                           gexact[ax][:, sub], tol_g, False, comps=lin_rows)

        # ---------------- adaptive tables
        def fresh(base):
            return AdaptiveInterpolationTable(h.copy(), base_point=None if base is None else base.copy(),
                                              function=fn.call, dim=fn.dim)

        variants = [("adaptive", low, np.arange(Q.shape[1]), True), ("adaptive-rev", low, order2, True),
                    ("adaptive-lazy", low, order3, False)]
        if not low.any():
            variants.append(("adaptive-nobase", None, np.arange(Q.shape[1]), True))
        else:
            # base point at the origin although the box does not start there: queries lie on
            # both sides of the base point (negative cell indices), cells are not box-aligned
            variants.append(("adaptive-origin", None, np.arange(Q.shape[1]), True))
        # base point at an interior / upper table node: every query below it has a negative index
        mid = low + h * np.maximum(1, (np.asarray(case["npt"]) - 1) // 2)
        variants.append(("adaptive-midbase", mid, order2, True))
        for tname, base, order, batch in variants:
            try:
                A = fresh(base)
            except Exception as e:
                rec.violate("AdaptiveInterpolationTable constructor raised", function=fn.name, table=tname, error=repr(e))
                out.ev("VIOLATION")
                continue
            Qo, po, no = Q[:, order], pos[order], node[order]
            if not batch and lin_rows:
                # fill part of the table through the gradient path first
                half = order[: order.size // 2]
                _check(rec, tname, "gradient0", fn, Q[:, half], pos[half], node[half],
                       (lambda x: A.gradient(x, 0)), gexact[0][:, half], tol_g, False, comps=lin_rows,
                       also=(G[0][:, half], "standard") if 0 in G else None)
            _check(rec, tname, "interpolate", fn, Qo, po, no, A.interpolate, exact[:, order], tol_v, batch,
                   also=(S[:, order], "standard") if S is not None else None)
            if lin_rows and batch:
                for ax in range(d):
                    _check(rec, tname, f"gradient{ax}", fn, Qo, po, no, (lambda x, ax=ax: A.gradient(x, ax)),
                           gexact[ax][:, order], tol_g, True, comps=lin_rows,
                           also=(G[ax][:, order], "standard") if ax in G else None)
    if not (np.array_equal(Q, Q0) and np.array_equal(low, low0) and np.array_equal(high, high0) and np.array_equal(npt, npt0)):
        out.violate("a table modified its box arrays or the array of query points", d=d, box=BOXES[case["box"]], npt=case["npt"])
        out.ev("VIOLATION")
    if not out.samples:
        out.samples.append({"d": d, "low": low.tolist(), "high": high.tolist(), "npt": npt.tolist(),
                            "functions": [f.name for f in functions(d)], "query_points": int(Q.shape[1]),
                            "max_value_error_rel_to_scale": rec.maxerr["value"],
                            "max_gradient_error_rel_to_scale_over_hmin": rec.maxerr["gradient"]})
    return out


def known_finding(case, viol):
    # The two AdaptiveInterpolationTable defects found by this check (default base point of the
    # wrong length, scalar storage for vector-valued functions) were fixed in /repo; nothing is known.
    return None
