"""C36 — ArraySlicer acts exactly like its projection matrix.

Three families of cases, all on the real ``ArraySlicer``:

``single``  (engine E) every index map x constructor form x transposition x operand kind:
            ``S @ y`` against ``P @ y`` with ``P`` the explicit 0/1 matrix built from the
            constructor arguments.
``terms``   (engine E) every *program*: products of up to three slicers in both
            parenthesisations, with pending left operands (``A @``, ``c *``, ``c /``,
            ``c **``, ``c +``, ``c -``, ``ad *`` ...) attached to any node, applied to every
            operand kind; fresh slicer objects for every program.
``pool``    (engine H) explicit-state BFS over histories of expressions that *reuse* a
            pool of three slicer objects plus one variable ``T`` holding a slicer-valued
            intermediate result (``T = S0 @ S1``, ``T = 2.0 * S1`` ...), because these
            objects carry pending state. The state is the complete attribute content of
            all the objects; after every step every object of the pool is probed on
            every operand kind.

Oracle: ``mc.oracles.grpK_slicer`` (dense numpy, independent of the slicer attributes).
"""

from __future__ import annotations

import itertools
import sys

import numpy as np

from mc.core import Abort, Outcome, bfs
from mc.oracles import grpK_slicer as K
from mc.oracles.grpK_sparse import digest

PROPERTY = "C36"
LEVEL = "model_checking"
RULE = (
    "single: all ordered k-tuples (k<=3) of distinct domain and range indices below U, all "
    "permutations of 4 indices, all domain sequences of length 2-3 below 4 with a repeated index, all "
    "constructor forms (both / domain only / range only; range_size and domain_size absent, "
    "minimal, minimal+1), views S, S.T, S.T.T, S.copy(), 11 operand kinds; terms: all "
    "expression trees over a leaf alphabet of slicers with <=3 leaves and pending left "
    "operands from an 11-letter alphabet on any node; pool: BFS over histories of "
    "evaluate/bind operations on 3 shared slicer objects + 1 variable. Non-trivial = the "
    "map is not the identity embedding (single), or the program has >=2 slicers or a pending "
    "operand (terms), or an object of the pool takes part in >=2 operations or the variable "
    "is set (pool); distinct by (constructor arguments, view) / (program, slicers) / (pool, "
    "history) - operand kinds are counted as evaluations only"
)
ASSUMPTIONS = [
    "range indices are distinct; domain indices are distinct, or (untransposed slicers only) "
    "repeat a row; index sets are non-empty",
    "operand has exactly domain_size rows; one row more is also tried when domain_size is "
    "not given (docstring example 1)",
    "left operands of pending operations are python floats/ints, scipy sparse matrices (@) "
    "and AdArrays (*, /, **) as admitted by the class documentation; numpy arrays are not",
    "expressions dividing by a sliced quantity with zero entries, or producing non-finite "
    "values, are skipped",
    "S.T is demanded to act like P.T (what the code base uses), for all operand kinds",
    "pool: state = recursive content of __dict__ of every object (read-only use of private "
    "attributes, for de-duplication only); the verdict uses only results of expressions",
    "results of AD / sparse-left / division / power programs compared to 1e-12 relative, "
    "everything else exactly",
]
BOUNDS = {
    "quick": "single: U=4, k<=3, plus k=4 and repeated domain indices below 4; terms: 2 slicers: all 243 forms of maps [3]->[3] and 44 "
    "rectangular maps, 3 slicers: 12-letter alphabet (6-letter with pending operands), "
    "<=1 pending operand on products, <=2 on single slicers; pool: 3 pools, depth 2",
    "thorough": "single: U=5, k<=3, plus k=4 and repeated domain indices below 4; terms: 3 slicers over all 81 maps [3]->[3]; "
    "3 slicers with pending operands over the 12-letter alphabet; pool: 3 pools, depth 3",
}
MIN_CLASSES = 12
CHUNK = 8

TOL = 1e-12
MAX_VIOL_PER_CASE = 6


def _violate(out, what, **detail):
    """Record a violation; beyond a per-case cap only count it (keeps broken trees cheap)."""
    tag = (what.split(":")[0], detail.get("overwrite"))
    cnt = out.extra.setdefault("_nviol", {})
    cnt[tag] = cnt.get(tag, 0) + 1
    if cnt[tag] <= MAX_VIOL_PER_CASE:
        out.violate(what, **detail)
    else:
        out.extra["suppressed_violations"] = out.extra.get("suppressed_violations", 0) + 1
KINDS_ALL = ["vec", "m2d", "csr", "csr_unsorted", "csr_zero", "csc", "coo", "ad", "ad_csc", "float", "int"]
KINDS_4 = ["vec", "csr_unsorted", "ad", "float"]
W_ALL = list(K.WRAPS)
W5 = ["f*", "f**", "f-", "csr@", "ad*"]
W3 = ["f*", "csr@", "f**"]


# --------------------------------------------------------------------------- alphabets


def ordered(n, k):
    return list(itertools.permutations(range(n), k))


def map_specs(a, b):
    """All ordered index specs of partial injections [a] -> [b] (k >= 1)."""
    out = []
    for k in range(1, min(a, b) + 1):
        for dom in ordered(a, k):
            for rng in ordered(b, k):
                out.append((dom, rng, b, a))
    return out


def leaves_full():
    """243 forms of the 81 index specs [3]->[3], then 44 rectangular ones."""
    out = []
    for dom, rng, rs, ds in map_specs(3, 3):
        for form in ("both", "canon", "T"):
            out.append({"dom": list(dom), "rng": list(rng), "rs": rs, "ds": ds, "form": form})
    for a, b in ((2, 3), (3, 2), (2, 2)):
        for dom, rng, rs, ds in map_specs(a, b):
            out.append({"dom": list(dom), "rng": list(rng), "rs": rs, "ds": ds, "form": "both"})
    return out


def leaves_81():
    return [{"dom": list(d), "rng": list(r), "rs": rs, "ds": ds, "form": "both"} for d, r, rs, ds in map_specs(3, 3)]


def leaves_12():
    """6 permutations and 6 partial maps of [3], constructor forms cycling."""
    forms = ("both", "canon", "T")
    out = []
    for i, rng in enumerate(ordered(3, 3)):
        out.append({"dom": [0, 1, 2], "rng": list(rng), "rs": 3, "ds": 3, "form": forms[i % 3]})
    for i, rng in enumerate(ordered(3, 2)):
        out.append({"dom": [2, 0], "rng": list(rng), "rs": 3, "ds": 3, "form": forms[(i + 1) % 3]})
    return out


def leaves_6():
    l12 = leaves_12()
    return [l12[1], l12[3], l12[4], l12[6], l12[8], l12[11]]


ALPHABETS = {"full": leaves_full, "81": leaves_81, "12": leaves_12, "6": leaves_6}


def build_leaf(spec):
    """(real slicer, model) of a leaf spec."""
    from porepy.numerics.linalg.matrix_operations import ArraySlicer

    dom, rng, rs, ds = spec["dom"], spec["rng"], spec["rs"], spec["ds"]
    k = len(dom)
    d, r = np.array(dom), np.array(rng)
    form = spec["form"]
    if form == "T":
        S = ArraySlicer(domain_indices=r, range_indices=d, range_size=ds, domain_size=rs).T
    elif form == "canon" and rng == list(range(k)):
        if k == rs:
            S = ArraySlicer(domain_indices=d, domain_size=ds)  # the onto shortcut
        else:
            S = ArraySlicer(domain_indices=d, range_size=rs, domain_size=ds)
    elif form == "canon" and dom == list(range(k)):
        S = ArraySlicer(range_indices=r, range_size=rs, domain_size=ds)
    else:
        S = ArraySlicer(d, r, rs, ds)
    return S, K.MS.leaf(K.projection(dom, rng, rs, ds))


# term shapes over leaves 0..n-1
def shapes(nleaves):
    L = [["L", i] for i in range(nleaves)]
    if nleaves == 1:
        return [L[0]]
    if nleaves == 2:
        return [["mm", L[0], L[1]]]
    return [["mm", ["mm", L[0], L[1]], L[2]], ["mm", L[0], ["mm", L[1], L[2]]]]


def nodes(term, path=()):
    """Paths of all nodes of a term."""
    out = [path]
    if term[0] == "mm":
        out += nodes(term[1], path + (1,))
        out += nodes(term[2], path + (2,))
    elif term[0] == "w":
        out += nodes(term[2], path + (2,))
    elif term[0] in ("tr", "cp"):
        out += nodes(term[1], path + (1,))
    return out


def wrap_at(term, path, name):
    if not path:
        return ["w", name, term]
    t = list(term)
    t[path[0]] = wrap_at(term[path[0]], path[1:], name)
    return t


def programs(nleaves, nwraps, walpha):
    """All term shapes with ``nleaves`` leaves and exactly ``nwraps`` pending operands."""
    out = shapes(nleaves)
    for _ in range(nwraps):
        nxt = []
        for t in out:
            for p in nodes(t):
                for w in walpha:
                    nxt.append(wrap_at(t, p, w))
        # wrapping a wrap on the same node in both orders gives different terms; the
        # same term can be reached twice (wrap outer then inner), so de-duplicate
        seen, out = set(), []
        for t in nxt:
            r = repr(t)
            if r not in seen:
                seen.add(r)
                out.append(t)
    return out


# family name -> (nleaves, nwraps, wrap alphabet, leaf alphabet, operand kinds)
FAMILIES = {
    "quick": {
        "1/0": (1, 0, [], "full", KINDS_ALL),
        "1/1": (1, 1, W_ALL, "full", KINDS_ALL),
        "1/2": (1, 2, W5, "12", KINDS_ALL),
        "2/0": (2, 0, [], "full", KINDS_4),
        "2/1": (2, 1, W_ALL, "12", KINDS_4),
        "3/0": (3, 0, [], "12", KINDS_4),
        "3/1": (3, 1, W5, "6", KINDS_4),
    },
    "thorough": {
        "1/0": (1, 0, [], "full", KINDS_ALL),
        "1/1": (1, 1, W_ALL, "full", KINDS_ALL),
        "1/2": (1, 2, W_ALL, "12", KINDS_ALL),
        "2/0": (2, 0, [], "full", KINDS_ALL),
        "2/1": (2, 1, W_ALL, "81", KINDS_4),
        "2/2": (2, 2, W5, "12", KINDS_4),
        "3/0": (3, 0, [], "81", ["vec", "csr_unsorted"]),
        "3/1": (3, 1, W_ALL, "12", KINDS_4),
    },
}

POOLS = {
    # cyclic permutation / transposition through the onto shortcut / partial map
    "A": [
        {"dom": [2, 0, 1], "rng": [0, 1, 2], "rs": 3, "ds": 3, "form": "both"},
        {"dom": [1, 0, 2], "rng": [0, 1, 2], "rs": 3, "ds": 3, "form": "canon"},
        {"dom": [0, 2], "rng": [1, 0], "rs": 3, "ds": 3, "form": "both"},
    ],
    # range-only constructor / restriction with explicit range size / transposed object
    "B": [
        {"dom": [0, 1, 2], "rng": [2, 0, 1], "rs": 3, "ds": 3, "form": "canon"},
        {"dom": [2, 1], "rng": [0, 1], "rs": 3, "ds": 3, "form": "canon"},
        {"dom": [0, 1, 2], "rng": [0, 2, 1], "rs": 3, "ds": 3, "form": "T"},
    ],
    # two partial maps with unsorted range indices and a reversal
    "C": [
        {"dom": [1, 2], "rng": [2, 0], "rs": 3, "ds": 3, "form": "both"},
        {"dom": [2, 1, 0], "rng": [0, 1, 2], "rs": 3, "ds": 3, "form": "both"},
        {"dom": [0, 1], "rng": [2, 1], "rs": 3, "ds": 3, "form": "T"},
    ],
}
T_SLOT = 3  # leaf index of the variable


def pool_ops():
    """Operation alphabet of engine H: ("ev", term) and ("bind", term)."""
    L = [["L", i] for i in range(4)]
    ev = []
    for x in L:
        ev.append(x)
        for w in W3:
            ev.append(["w", w, x])
    for a in L:
        for b in L:
            t = ["mm", a, b]
            ev.append(t)
            for p in nodes(t):
                for w in W3:
                    ev.append(wrap_at(t, p, w))
    for a, b, c in itertools.product(L[:3], repeat=3):
        ev.append(["mm", ["mm", a, b], c])
        ev.append(["mm", a, ["mm", b, c]])
    bind = []
    for x in L[:3]:
        bind.append(["tr", x])
        bind.append(["cp", x])
    for x in L:
        for w in W3:
            bind.append(["w", w, x])
    for a in L:
        for b in L:
            bind.append(["mm", a, b])
    return [["ev", t] for t in ev] + [["bind", t] for t in bind]


# ------------------------------------------------------------------------------- cases


def cases(tier):
    out = []
    U = 4 if tier == "quick" else 5
    for k in (1, 2, 3):
        for dom in ordered(U, k):
            out.append({"kind": "single", "U": U, "dom": list(dom)})
    # four indices (the smallest size at which an unsorted set can span a contiguous block)
    for dom in ordered(4, 4):
        out.append({"kind": "single", "U": 4, "dom": list(dom)})
    # repeated domain indices (a row selected twice): still a 0/1 matrix with one entry per row
    for k in (2, 3):
        for dom in itertools.product(range(4), repeat=k):
            if len(set(dom)) < k:
                out.append({"kind": "single", "U": 4, "dom": list(dom)})
    for fam, (nl, nw, wa, alpha, kinds) in FAMILIES[tier].items():
        n = len(ALPHABETS[alpha]())
        if nl == 1:
            step = 16
            for lo in range(0, n, step):
                out.append({"kind": "terms", "tier": tier, "family": fam, "first": [lo, min(n, lo + step)]})
        else:
            for i in range(n):
                out.append({"kind": "terms", "tier": tier, "family": fam, "first": [i, i + 1]})
    depth = 2 if tier == "quick" else 3
    ops = pool_ops()
    for name in POOLS:
        out.append({"kind": "pool", "pool": name, "first": None, "depth": depth})
        for i, op in enumerate(ops):
            if op[0] == "bind" and not _mentions_T(op[1]):
                out.append({"kind": "pool", "pool": name, "first": i, "depth": depth})
    return out


def _mentions_T(term):
    if term[0] == "L":
        return term[1] == T_SLOT
    return any(_mentions_T(x) for x in term[1:] if isinstance(x, list))


# ------------------------------------------------------------------- overwrite sites


def _has_elementwise(term):
    if term[0] == "w":
        return K.WRAPS[term[1]][1] != "@" or _has_elementwise(term[2])
    if term[0] == "L":
        return False
    return any(_has_elementwise(x) for x in term[1:] if isinstance(x, list))


def _is_pending(term):
    if term[0] in ("mm", "w"):
        return True
    if term[0] == "cp":
        return _is_pending(term[1])
    return False


def overwrite_tag(term):
    """Does the term store a pending operand on a slicer that already has one?

    Returns None, "matmul" (only products are involved: a right-nested chain) or
    "elementwise" (an elementwise pending operation is overwritten or overwrites).
    """
    tag = None
    if term[0] == "mm":
        right = term[2]
        if _is_pending(right):
            tag = "elementwise" if _has_elementwise(right) else "matmul"
    elif term[0] == "w":
        inner = term[2]
        if _is_pending(inner):
            ew = K.WRAPS[term[1]][1] != "@" or _has_elementwise(inner)
            tag = "elementwise" if ew else "matmul"
    for x in term[1:]:
        if isinstance(x, list):
            t = overwrite_tag(x)
            if t == "elementwise" or (t == "matmul" and tag is None):
                tag = t
    return tag


KF_KEYS = {"matmul": "C36-right-nested-chain", "elementwise": "C36-pending-overwritten-by-chain"}


def known_finding(case, viol):
    # The overwrite defects (violation field "overwrite") are fixed in /repo (db5ddbbe2);
    # nothing is masked any more. KF_KEYS documents the keys used while they were open.
    return None


# ----------------------------------------------------------------------- E: single


def _map_class(dom, rng, rs, ds):
    k = len(dom)
    if k == rs == ds:
        c = "perm"
    elif k == rs:
        c = "restriction"
    elif k == ds:
        c = "prolongation"
    else:
        c = "partial"
    mono = "mono" if list(rng) == sorted(rng) and list(dom) == sorted(dom) else "unsorted"
    return c + "/" + mono + ("/repeated" if len(set(dom)) < len(dom) else "")


def _operand_rows(view, dom_e, rng_e, rs_e, ds_e, domain_size_given):
    if view in ("S", "S.T.T", "S.copy()"):
        return [ds_e] if domain_size_given else [ds_e, ds_e + 1]
    return [rs_e]


def run_single(case, out):
    from porepy.numerics.linalg.matrix_operations import ArraySlicer

    U = case["U"]
    dom = case["dom"]
    k = len(dom)
    ident = list(range(k))
    rep = len(set(dom)) < k
    targets = {}

    def target(kind, n):
        # fresh real operand every time (results must not depend on earlier calls),
        # cached model
        if (kind, n) not in targets:
            targets[(kind, n)] = K.target_model(kind, n)
        return K.target_real(kind, n), targets[(kind, n)]

    rngs = [list(r) for r in ordered(U, k)]
    for rng in rngs:
        forms = [("both", dom, rng)]
        if rng == ident:
            forms.append(("dom_only", dom, None))
        if dom == ident:
            forms.append(("rng_only", None, rng))
        for form, d_arg, r_arg in forms:
            rmax, dmax = max(rng), max(dom)
            for rs_arg in (None, rmax + 1, rmax + 2):
                for ds_arg in (None, dmax + 1, dmax + 2):
                    d_e, r_e, rs_e, ds_e = K.effective(d_arg, r_arg, rs_arg, ds_arg)
                    assert d_e == dom and r_e == rng
                    mcls = _map_class(dom, rng, rs_e, ds_e)
                    onto = form == "dom_only" and rs_arg is None
                    # a repeated domain index has no transpose that is a map
                    for view in (("S", "S.copy()") if rep else ("S", "S.T", "S.T.T", "S.copy()")):
                        try:
                            S = ArraySlicer(
                                None if d_arg is None else np.array(d_arg),
                                None if r_arg is None else np.array(r_arg),
                                rs_arg,
                                ds_arg,
                            )
                            if view == "S.T":
                                S = S.T
                            elif view == "S.T.T":
                                S = S.T.T
                            elif view == "S.copy()":
                                S = S.copy()
                        except Exception as e:
                            _violate(out, "constructing the slicer raised", error=repr(e), dom=d_arg, rng=r_arg,
                                        range_size=rs_arg, domain_size=ds_arg, view=view)
                            out.ev("VIOLATION")
                            continue
                        for n in _operand_rows(view, dom, rng, rs_e, ds_e, ds_arg is not None):
                            if view == "S.T":
                                P = K.projection(dom, rng, rs_e, ds_e).T
                            else:
                                P = K.projection(dom, rng, rs_e, ds_e, ncols=n)
                            for kind in KINDS_ALL:
                                if kind in ("float", "int") and n != (rs_e if view == "S.T" else ds_e):
                                    continue  # a scalar is broadcast to the domain size
                                y, ym = target(kind, n)
                                exp = K.apply_P(P, ym)
                                before = digest(y)
                                try:
                                    got = S @ y
                                    bad = K.differs(exp, got)
                                    if bad is None and digest(y) != before:
                                        bad = "the operand was modified"
                                except Exception as e:
                                    bad = "raised " + repr(e)
                                    got = None
                                trivial = dom == ident and rng == ident and rs_e == k and ds_e == k
                                key = None if trivial else (tuple(dom), tuple(rng), rs_arg, ds_arg, form, view)
                                cat = ("scalar" if kind in ("float", "int") else "ad" if kind.startswith("ad")
                                       else "dense" if kind in ("vec", "m2d") else "sparse")
                                cls = f"single/{view}/{form}{'/onto' if onto else ''}/{mcls}/{cat}"
                                if bad is not None:
                                    _violate(
                                        out, "S @ y differs from P @ y: " + bad,
                                        domain_indices=d_arg, range_indices=r_arg, range_size=rs_arg,
                                        domain_size=ds_arg, view=view, operand=kind, operand_rows=n,
                                        expected=K.dense_json(exp),
                                        observed=None if got is None else K.dense_json(K.to_dense(got)) if K.to_dense(got)[1] is not None else repr(got),
                                    )
                                    cls = "VIOLATION"
                                out.ev(cls, key)
    if not out.samples:
        out.samples.append({"single": {"domain_indices": dom, "range_indices": "all ordered %d-tuples below %d" % (k, U),
                                       "example": "ArraySlicer(dom, rng, range_size, domain_size).T @ csr"}})


# ------------------------------------------------------------------------ E: terms


def _eval_program(term, leaf_specs, kinds, out, fam):
    """Fresh slicers, one program, every operand kind."""
    src = K.show(term)
    ow = overwrite_tag(term)
    # model first (decides admissibility and the sizes of left operands)
    models = [K.MS.leaf(K.projection(s["dom"], s["rng"], s["rs"], s["ds"])) for s in leaf_specs]
    try:
        m = K.model_term(term, models)
    except K.Inadmissible as e:
        out.ev("skipped:" + str(e))
        return
    for kind in kinds:
        ym = K.target_model(kind, m.ds)
        try:
            with np.errstate(all="ignore"):
                exp = m.fn(ym)
            if not K.finite(exp):
                raise K.Inadmissible("nonfinite")
        except K.Inadmissible as e:
            out.ev("skipped:" + str(e))
            continue
        got = None
        try:
            reals = [build_leaf(s)[0] for s in leaf_specs]
            y = K.target_real(kind, m.ds)
            with np.errstate(all="ignore"):
                X = K.real_term(term, reals, models)
                got = X @ y
            bad = K.differs(exp, got, TOL if m.inexact else 0.0)
        except Exception as e:
            bad = "raised " + repr(e)
        nontrivial = len(leaf_specs) > 1 or m.pending
        key = (src, repr(leaf_specs)) if nontrivial else None
        cls = f"terms/{fam}/{kind}/{exp[0]}" + ("/nested" if ow else "")
        if bad is not None:
            gd = K.to_dense(got) if got is not None else None
            _violate(
                out, "program differs from projection-matrix semantics: " + bad,
                program=src + " @ y", slicers=leaf_specs, operand=kind, overwrite=ow,
                expected=K.dense_json(exp),
                observed=None if gd is None else (K.dense_json(gd) if gd[1] is not None else repr(got)),
            )
            cls = "VIOLATION"
        out.ev(cls, key)
        if len(out.samples) < 1 and nontrivial and ow:
            out.samples.append({"program": src + " @ y", "slicers": leaf_specs, "operand": kind,
                                "expected": K.dense_json(exp)})


def run_terms(case, out):
    nl, nw, walpha, alpha, kinds = FAMILIES[case["tier"]][case["family"]]
    leaves = ALPHABETS[alpha]()
    progs = programs(nl, nw, walpha)
    lo, hi = case["first"]
    for i in range(lo, hi):
        rest = itertools.product(range(len(leaves)), repeat=nl - 1)
        for tail in rest:
            idx = (i,) + tail
            specs = [leaves[j] for j in idx]
            # cheap size filter for products (the model would reject them anyway)
            if any(specs[a]["ds"] != specs[a + 1]["rs"] for a in range(nl - 1)):
                continue
            for t in progs:
                _eval_program(t, specs, kinds, out, case["family"])


# ------------------------------------------------------------------------- H: pool


class _Shallow:
    """Evaluate with a small recursion budget: a slicer that (wrongly) became its own
    pending operand recurses without end; failing after 240 frames instead of 1000 keeps
    such states cheap. Correct evaluations nest < 40 frames."""

    def __enter__(self):
        self.old = sys.getrecursionlimit()
        f, depth = sys._getframe(), 0
        while f is not None:
            f, depth = f.f_back, depth + 1
        sys.setrecursionlimit(depth + 240)

    def __exit__(self, *a):
        sys.setrecursionlimit(self.old)
        return False


class _State:
    __slots__ = ("reals", "models", "T_term", "hist", "last", "exc", "reuse")


def _subst(term, t_term):
    """Replace the variable by its defining term (for overwrite analysis)."""
    if term[0] == "L":
        return t_term if (term[1] == T_SLOT and t_term is not None) else term
    return [term[0]] + [_subst(x, t_term) if isinstance(x, list) else x for x in term[1:]]


def _leaf_use(term, cnt):
    if term[0] == "L":
        cnt[term[1]] = cnt.get(term[1], 0) + 1
        return
    for x in term[1:]:
        if isinstance(x, list):
            _leaf_use(x, cnt)


def run_pool(case, out):
    pool_specs = POOLS[case["pool"]]
    ops = pool_ops()
    first = case["first"]
    names = ["S0", "S1", "S2", "T"]

    def build(hist):
        full = (() if first is None else (first,)) + tuple(hist)
        st = _State()
        built = [build_leaf(s) for s in pool_specs]
        st.reals = [b[0] for b in built] + [None]
        st.models = [b[1] for b in built] + [None]
        st.T_term = None
        st.hist = full
        st.last = None
        st.exc = None
        use: dict = {}
        for pos, oi in enumerate(full):
            kind, term = ops[oi]
            try:
                m = K.model_term(term, st.models)
            except K.Inadmissible as e:
                return Abort(str(e))
            _leaf_use(term, use)
            is_last = pos == len(full) - 1
            try:
                with np.errstate(all="ignore"), _Shallow():
                    X = K.real_term(term, st.reals, st.models)
            except Exception as e:
                st.exc = (K.show(term, names), repr(e))
                return st
            if kind == "bind":
                st.T_term = _subst(term, st.T_term)
                st.reals[T_SLOT] = X
                st.models[T_SLOT] = m
                if is_last:
                    st.last = ("bind", term, None)
            else:
                res = []
                for yk in KINDS_4:
                    ym = K.target_model(yk, m.ds)
                    try:
                        with np.errstate(all="ignore"):
                            exp = m.fn(ym)
                        if not K.finite(exp):
                            raise K.Inadmissible("nonfinite")
                    except K.Inadmissible as e:
                        res.append((yk, None, None, str(e)))
                        continue
                    try:
                        with np.errstate(all="ignore"), _Shallow():
                            got = X @ K.target_real(yk, m.ds)
                        bad = K.differs(exp, got, TOL if m.inexact else 0.0)
                    except Exception as e:
                        got, bad = None, "raised " + repr(e)
                    res.append((yk, exp, got, bad))
                    if bad is not None:
                        break  # one counterexample per expression is enough
                if is_last:
                    st.last = ("ev", term, res)
                elif any(r[3] is not None and r[1] is not None for r in res):
                    # an earlier evaluation already failed: that prefix is itself a
                    # (violating, hence unexpanded) state, so this cannot happen
                    st.exc = (K.show(term, names), "earlier evaluation failed")
                    return st
        st.reuse = any(v >= 2 for i, v in use.items() if i != T_SLOT) or st.reals[T_SLOT] is not None
        return st

    def enabled(st, hist):
        if first is None and hist and ops[hist[0]][0] == "bind" and not _mentions_T(ops[hist[0]][1]):
            return []  # covered by the case whose first operation is this bind
        return range(len(ops))

    def canon(st):
        pool = st.reals[:3]
        t = st.reals[T_SLOT]
        alias = None
        if t is not None:
            for j, p in enumerate(pool):
                if t is p:
                    alias = j
        return (
            tuple(K.serialize(p, pool) for p in pool),
            ("alias", alias) if alias is not None else K.serialize(t, pool),
        )

    def _probe_models(st):
        obs = []
        for i in range(4):
            m = st.models[i]
            if m is None:
                obs.append(None)
                continue
            row = []
            for yk in KINDS_4:
                try:
                    with np.errstate(all="ignore"):
                        exp = m.fn(K.target_model(yk, m.ds))
                    if not K.finite(exp):
                        raise K.Inadmissible("nonfinite")
                    row.append(exp)
                except K.Inadmissible:
                    row.append(None)
            obs.append(row)
        return obs

    def observe(st):
        # what the reference model says every object does
        o = []
        for row in _probe_models(st):
            if row is None:
                o.append(None)
            else:
                o.append(tuple(None if e is None else tuple(np.round(np.asarray(a, dtype=float), 9).tobytes()
                                                            for a in e[1:]) for e in row))
        return tuple(o)

    def describe(st):
        return [("T = " if ops[oi][0] == "bind" else "") + K.show(ops[oi][1], names) + ("" if ops[oi][0] == "bind" else " @ y")
                for oi in st.hist]

    def check(st, hist, o: Outcome):
        whole = [_subst(ops[oi][1], None) for oi in st.hist]
        ow = None
        t_term = None
        for oi in st.hist:
            kind, term = ops[oi]
            full = _subst(term, t_term)
            tg = overwrite_tag(full)
            if tg == "elementwise" or (tg == "matmul" and ow is None):
                ow = tg
            if kind == "bind":
                t_term = full
        del whole
        if st.exc is not None:
            o.violate("expression raised: " + st.exc[1], expression=st.exc[0], history=describe(st),
                      pool=case["pool"], overwrite=ow)
            o.ev("VIOLATION")
            return
        if not st.hist:
            # fresh objects: their behaviour is the business of the family "single";
            # not probing here keeps the search going below a broken initial state
            o.ev("pool/root")
            return
        bad = None
        if st.last is not None and st.last[0] == "ev":
            for yk, exp, got, b in st.last[2]:
                if exp is None:
                    o.ev("skipped:" + b)
                    continue
                if b is not None:
                    gd = K.to_dense(got) if got is not None else None
                    bad = ("last expression differs from projection-matrix semantics: " + b,
                           {"operand": yk, "expected": K.dense_json(exp),
                            "observed": None if gd is None else (K.dense_json(gd) if gd[1] is not None else repr(got))})
                    break
        if bad is None:
            # probe every object of the pool and the variable on every operand kind
            pm = _probe_models(st)
            for i in range(4):
                if bad is not None or pm[i] is None:
                    continue
                m = st.models[i]
                for yk, exp in zip(KINDS_4, pm[i]):
                    if exp is None:
                        continue
                    try:
                        with np.errstate(all="ignore"), _Shallow():
                            got = st.reals[i] @ K.target_real(yk, m.ds)
                        b = K.differs(exp, got, TOL if m.inexact else 0.0)
                    except Exception as e:
                        got, b = None, "raised " + repr(e)
                    if b is not None:
                        gd = K.to_dense(got) if got is not None else None
                        bad = (f"after the history, {names[i]} @ y differs from projection-matrix semantics: " + b,
                               {"operand": yk, "expected": K.dense_json(exp),
                                "observed": None if gd is None else (K.dense_json(gd) if gd[1] is not None else repr(got))})
                        break
        tm = st.models[T_SLOT]
        tcls = "T:unset" if tm is None else ("T:plain" if tm.P is not None else ("T:nested" if ow else "T:pending"))
        if st.last is None:
            cls = "pool/root"
        else:
            term = st.last[1]
            cnt: dict = {}
            _leaf_use(term, cnt)
            nl = sum(cnt.values())
            cls = f"pool/{st.last[0]}/{nl}leaf/{'w' if _has_wrap(term) else '-'}/{'T' if T_SLOT in cnt else '-'}/{tcls}"
        key = (case["pool"], st.hist) if (st.hist and st.reuse) else None
        if bad is not None:
            o.violate(bad[0], history=describe(st), pool=case["pool"], overwrite=ow, **bad[1])
            cls = "VIOLATION"
        o.ev(cls, key)
        if len(o.samples) < 1 and len(st.hist) >= 2 and st.reuse and st.last and st.last[0] == "ev":
            o.samples.append({"pool": case["pool"], "history": describe(st)})

    bfs(build=build, enabled=enabled, canon=canon, check=check, observe=observe,
        max_depth=case["depth"] - (0 if first is None else 1), out=out,
        label=f"C36 pool {case['pool']} first={first}")


def _has_wrap(term):
    if term[0] == "w":
        return True
    return any(_has_wrap(x) for x in term[1:] if isinstance(x, list))


# ---------------------------------------------------------------------------- dispatch


def run_case(case) -> Outcome:
    out = Outcome()
    if case["kind"] == "single":
        run_single(case, out)
    elif case["kind"] == "terms":
        run_terms(case, out)
    else:
        run_pool(case, out)
    out.extra.pop("_nviol", None)
    return out
