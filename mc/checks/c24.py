"""C24 — the mixed-dimensional grid container stays consistent under any history.

Engine H: explicit-state BFS over histories of ``add_subdomains`` / ``add_interface`` /
``remove_subdomain`` / ``replace_subdomains_and_interfaces`` on a real
``pp.MixedDimensionalGrid`` filled from a pool of tiny grids (dimensions 0-3, see
``mc/oracles/grpH_pool.py``); a plain dict model is stepped alongside.  In every state all
listing / navigation queries are compared with the model.

What is demanded (property text): listings return each present object exactly once, sorted
by (-dim, creation id); interface <-> (higher, lower) pair round trip; a removal deletes
exactly the subdomain, its interfaces and its boundary grid; every positive-dimensional
subdomain has exactly one boundary grid (0-d: none).  An exception raised by the container
code itself during one of the listed operations is a violation.

What is *not* demanded: the geometric matching inside ``MortarGrid.update_*`` (property
C26).  If ``replace_subdomains_and_interfaces`` fails with an exception whose traceback
passes through ``mortar_grid.py`` (unsupported geometry: 2-d mortars of Cartesian grids,
co-dimension 0/2 interfaces, a 2-d grid whose fracture is crossed by another one) the
operation is counted as ``rejected:geometry`` and the state is not expanded.
"""

from __future__ import annotations

import traceback

from mc.core import Abort, Outcome, bfs
from mc.oracles.grpH_pool import INTFS, SLOTS, Model

PROPERTY = "C24"
LEVEL = "model_checking"
RULE = (
    "BFS over all histories of container operations enabled in the reference model: "
    "add_subdomains(g | [g,g']), add_subdomains(present g) (must be refused), "
    "add_interface(pair in both orders; codim 0,1,2; codim 3 must be refused), "
    "remove_subdomain(every present g), replace_subdomains_and_interfaces(sd_map for every "
    "present g and some pairs; interface_map for every present interface, as dict or "
    "MortarGrid; both together). One case = (preamble, slot subset, first operation); "
    "non-trivial = state reached after at least one remove/replace with >= 2 subdomains or "
    ">= 1 interface left; distinct by canonical state (present (slot,version), present "
    "(interface,mortar version), creation order of boundary grids per dimension)"
)
ASSUMPTIONS = [
    "pool of 8 grid slots x 2 versions (dims 3,2,2,1,1,1,0,0) and 9 interfaces (5 with mesher "
    "geometry, 4 hand-made incl. codim 0 and codim 2); ids scrambled w.r.t. dimension and insertion",
    "dict insertion order is not part of the abstract state (all listings sort); checked "
    "differentially: whenever two histories merge their concrete listings must coincide",
    "failures of the geometric matching layer (traceback through mortar_grid.py) are not C24 "
    "violations; such transitions are counted as rejected and not expanded",
    "subdomain_pair_to_interface of an unconnected pair must raise KeyError (docstring)",
]
BOUNDS = {
    "quick": "from empty: all 8 slots depth 3, slots {A2,L1a,L1b,P0a} depth 4; from the X-crossing "
    "md-grid {B2,L1b,L1c,P0a} depth 3; from the full pool (8 grids, 9 interfaces) depth 2",
    "thorough": "from empty: all 8 slots depth 4, slots {A2,L1a,L1b,P0a} depth 6; X-crossing md-grid "
    "depth 5; full pool depth 3; chain {V3,A2,L1a,P0b} depth 5",
}
MIN_CLASSES = 6
CHUNK = 4

ALL = list(SLOTS)
SMALL = ["A2", "L1a", "L1b", "P0a"]
CORE = ["B2", "L1b", "L1c", "P0a"]
CHAIN = ["V3", "A2", "L1a", "P0b"]

PAIRS_ADD = [("P0a", "A2"), ("L1c", "B2"), ("L1a", "L1b")]
PAIRS_REP = [("A2", "L1a"), ("L1b", "P0a"), ("L1c", "B2")]

PREAMBLES = {
    "empty": [],
    "core": [
        ("add", ("P0a",)), ("add", ("L1c", "B2")), ("add", ("L1b",)),
        ("addi", "B2-L1c", 1), ("addi", "L1b-P0a", 0), ("addi", "B2-L1b", 0), ("addi", "L1c-P0a", 1),
    ],
    "chain": [
        ("add", ("P0b",)), ("add", ("L1a",)), ("add", ("A2",)), ("add", ("V3",)),
        ("addi", "A2-L1a", 1), ("addi", "V3-A2", 0), ("addi", "A2-P0b", 1),
    ],
    "full": [
        ("add", ("P0a",)), ("add", ("L1c", "A2")), ("add", ("B2",)), ("add", ("L1b",)),
        ("add", ("V3",)), ("add", ("P0b",)), ("add", ("L1a",)),
        ("addi", "B2-L1c", 1), ("addi", "A2-B2", 0), ("addi", "L1b-P0a", 0), ("addi", "V3-A2", 1),
        ("addi", "A2-L1a", 0), ("addi", "A2-P0b", 1), ("addi", "B2-L1b", 0), ("addi", "V3-L1c", 0),
        ("addi", "L1c-P0a", 1),
    ],
}

PLAN = {
    "quick": [("empty", ALL, 3), ("empty", SMALL, 4), ("core", CORE, 3), ("full", ALL, 2)],
    "thorough": [("empty", ALL, 4), ("empty", SMALL, 6), ("core", CORE, 5), ("full", ALL, 3), ("chain", CHAIN, 5)],
}


def _tup(op):
    return tuple(tuple(x) if isinstance(x, list) else x for x in op)


def _model_after(pre):
    m = Model()
    for op in PREAMBLES[pre]:
        m.step(op)
    return m


def cases(tier):
    out = []
    for pre, slots, depth in PLAN[tier]:
        m = _model_after(pre)
        for op in m.enabled(slots, PAIRS_ADD, PAIRS_REP):
            out.append({"pre": pre, "slots": slots, "first": list(op), "depth": depth})
    return out


# ------------------------------------------------------------------ real execution


class State:
    def __init__(self, ops):
        import porepy as pp
        from mc.oracles.grpH_pool import Pool

        self.pool = Pool(*Model.touched(ops))
        self.mdg = pp.MixedDimensionalGrid()
        self.model = Model()
        self.dead_bg = []  # boundary grids that must be gone
        self.dead = []  # grids that must be gone
        self.status = "ok"
        self.info = None
        self.problems = []
        self.hist = ()
        self.touched = False  # a remove / replace happened
        self.fc0 = _fc_digest(self)

    def sd(self, slot):
        return self.pool.grid[(slot, self.model.subs[slot])]


def _is_geometric(e):
    for fr in traceback.extract_tb(e.__traceback__):
        if fr.filename.endswith("mortar_grid.py"):
            return True
    return False


def _do(st: State, op):
    """Apply one operation to the real container and step the model. Sets st.status."""
    import numpy as np
    import porepy as pp
    import scipy.sparse as sps
    from porepy.grids.mortar_grid import MortarSides

    mdg, model, pool = st.mdg, st.model, st.pool
    k = op[0]
    st.status = "ok"
    if k == "add":
        gs = [pool.grid[(s, 0)] for s in op[1]]
        try:
            mdg.add_subdomains(gs[0] if len(gs) == 1 else gs)
        except Exception as e:
            st.status, st.info = "exc", repr(e)
            return
        model.step(op)
        for s, g in zip(op[1], gs):
            try:
                mdg.subdomain_data(g)["slot"] = s
            except Exception:
                pass
    elif k == "add_present":
        g = st.sd(op[1][0])
        try:
            mdg.add_subdomains(g)
            st.status = "accepted"
        except ValueError:
            st.status = "rejected:already present"
        except Exception as e:
            st.status, st.info = "exc", repr(e)
    elif k == "addi":
        n, flip = op[1], op[2]
        a, b = INTFS[n][:2]
        pair = (st.sd(a), st.sd(b))
        if flip:
            pair = pair[::-1]
        try:
            mdg.add_interface(pool.mortar[n], pair, pool.face_cells(n))
        except Exception as e:
            st.status, st.info = "exc", repr(e)
            return
        model.step(op)
        try:
            mdg.interface_data(pool.mortar[n])["name"] = n
        except Exception:
            pass
    elif k == "addi_codim3":
        v3, p0 = st.sd("V3"), st.sd("P0b")
        fc = sps.csc_matrix((np.ones(1), ([0], [0])), shape=(1, v3.num_cells))
        mg = pp.MortarGrid(0, {MortarSides.LEFT_SIDE: p0.copy()}, fc, codim=3)
        n_before = mdg.num_interfaces()
        try:
            mdg.add_interface(mg, (p0, v3), fc)
            st.status = "accepted"
        except ValueError:
            dirty = mdg.num_interfaces() != n_before
            st.status = "rejected:codim 3" + (" (container left dirty)" if dirty else "")
        except Exception as e:
            st.status, st.info = "exc", repr(e)
    elif k == "rm":
        s = op[1]
        g = st.sd(s)
        bg = mdg.subdomain_to_boundary_grid(g)
        try:
            mdg.remove_subdomain(g)
        except Exception as e:
            st.status, st.info = "exc", repr(e)
            return
        model.step(op)
        st.dead.append(g)
        if bg is not None:
            st.dead_bg.append(bg)
        st.touched = True
    elif k in ("rep", "repi", "rep_both"):
        sd_map, intf_map = None, None
        olds = []
        if k in ("rep", "rep_both"):
            slots = op[1] if k == "rep" else (op[1],)
            sd_map = {}
            for s in slots:
                v = model.subs[s]
                sd_map[pool.grid[(s, v)]] = pool.grid[(s, 1 - v)]
                olds.append((pool.grid[(s, v)], mdg.subdomain_to_boundary_grid(pool.grid[(s, v)])))
        if k in ("repi", "rep_both"):
            n = op[1] if k == "repi" else op[2]
            newv = 1 - model.mver[n]
            sides = pool.new_sides(n, newv)
            if newv == 0:  # the API also accepts a ready-made mortar grid
                sides = pp.MortarGrid(INTFS[n][3], sides, codim=INTFS[n][2])
            intf_map = {pool.mortar[n]: sides}
        try:
            mdg.replace_subdomains_and_interfaces(sd_map=sd_map, interface_map=intf_map)
        except Exception as e:
            if _is_geometric(e):
                st.status = "rejected:geometry " + type(e).__name__
            else:
                st.status, st.info = "exc", repr(e)
            return
        model.step(op)
        for g, bg in olds:
            st.dead.append(g)
            if bg is not None:
                st.dead_bg.append(bg)
        if sd_map:
            st.touched = True
    else:
        raise ValueError(op)


def _compare(st: State):
    """All queries of the real container against the model. Returns a list of problems."""
    import porepy as pp

    mdg, model, pool = st.mdg, st.model, st.pool
    P = []

    def names(gs):
        return [pool.name_of.get(id(g), "?") for g in gs]

    def q(label, fn):
        try:
            return fn()
        except Exception as e:
            P.append(f"{label} raised {e!r}")
            return None

    # subdomains
    for dim in (None, 0, 1, 2, 3):
        got = q(f"subdomains(dim={dim})", lambda: mdg.subdomains(dim=dim))
        if got is not None and names(got) != model.sub_list(dim):
            P.append(f"subdomains(dim={dim}) = {names(got)}, expected {model.sub_list(dim)}")
    got = q("subdomains(return_data=True)", lambda: mdg.subdomains(return_data=True))
    if got is not None:
        for g, d in got:
            slot = pool.name_of.get(id(g), ("?", 0))[0]
            if d is not q("subdomain_data", lambda: mdg.subdomain_data(g)) or d.get("slot") != slot:
                P.append(f"subdomains(return_data=True): data of {slot} is not its data dictionary")
    if q("num_subdomains", mdg.num_subdomains) != len(model.subs):
        P.append("num_subdomains differs")
    if model.subs:
        if q("dim_max", mdg.dim_max) != max(SLOTS[s] for s in model.subs):
            P.append("dim_max differs")
        if q("dim_min", mdg.dim_min) != min(SLOTS[s] for s in model.subs):
            P.append("dim_min differs")
    for sv, g in pool.grid.items():
        present = model.subs.get(sv[0]) == sv[1]
        if (g in mdg) != present:
            P.append(f"{sv} in mdg = {g in mdg}, expected {present}")

    # interfaces
    def mnames(ms):
        return [pool.mname_of.get(id(m), "?") for m in ms]

    for dim, codim in [(None, None), (0, None), (1, None), (2, None), (None, 0), (None, 1), (None, 2), (1, 1), (0, 2), (1, 2)]:
        got = q(f"interfaces(dim={dim},codim={codim})", lambda: mdg.interfaces(dim=dim, codim=codim))
        exp = model.intf_list(dim, codim)
        if got is not None and mnames(got) != exp:
            P.append(f"interfaces(dim={dim},codim={codim}) = {mnames(got)}, expected {exp}")
    got = q("interfaces(return_data=True)", lambda: mdg.interfaces(return_data=True))
    if got is not None:
        for m, d in got:
            n = pool.mname_of.get(id(m), "?")
            if d is not q("interface_data", lambda: mdg.interface_data(m)) or d.get("name") != n:
                P.append(f"interfaces(return_data=True): data of {n} is not its data dictionary")
    if q("num_interfaces", mdg.num_interfaces) != len(model.intfs):
        P.append("num_interfaces differs")
    for n, m in pool.mortar.items():
        if (m in mdg) != (n in model.intfs):
            P.append(f"interface {n} in mdg = {m in mdg}, expected {n in model.intfs}")
    for n in model.intfs:
        m = pool.mortar[n]
        (a, va), (b, vb) = model.pair(n)
        ga, gb = pool.grid[(a, va)], pool.grid[(b, vb)]
        got = q(f"interface_to_subdomain_pair({n})", lambda: mdg.interface_to_subdomain_pair(m))
        if got is not None:
            if INTFS[n][2] > 0:
                if not (len(got) == 2 and got[0] is ga and got[1] is gb):
                    P.append(f"interface_to_subdomain_pair({n}) = {names(got)}, expected {[(a, va), (b, vb)]}")
            else:
                if not (len(got) == 2 and {id(got[0]), id(got[1])} == {id(ga), id(gb)}):
                    P.append(f"interface_to_subdomain_pair({n}) = {names(got)}, expected the set {[(a, va), (b, vb)]}")
        for pr in ((ga, gb), (gb, ga)):
            back = q(f"subdomain_pair_to_interface({n})", lambda: mdg.subdomain_pair_to_interface(pr))
            if back is not None and back is not m:
                P.append(f"subdomain_pair_to_interface for {n} returned {mnames([back])}")
    # unconnected present pairs must give KeyError
    present = [(s, v) for s, v in model.subs.items()]
    connected = {frozenset(INTFS[n][:2]) for n in model.intfs}
    for i, (a, va) in enumerate(present):
        for b, vb in present[i + 1:]:
            if frozenset((a, b)) in connected:
                continue
            try:
                r = mdg.subdomain_pair_to_interface((pool.grid[(a, va)], pool.grid[(b, vb)]))
                P.append(f"subdomain_pair_to_interface({a},{b}) returned {mnames([r])} for an unconnected pair")
            except KeyError:
                pass
            except Exception as e:
                P.append(f"subdomain_pair_to_interface({a},{b}) raised {e!r}")
    # navigation
    for s, v in model.subs.items():
        g = pool.grid[(s, v)]
        exp = [n for n in model.intf_list() if s in INTFS[n][:2]]
        got = q(f"subdomain_to_interfaces({s})", lambda: mdg.subdomain_to_interfaces(g))
        if got is not None and mnames(got) != exp:
            P.append(f"subdomain_to_interfaces({s}) = {mnames(got)}, expected {exp}")
        neigh = []
        for n in model.intfs:
            a, b = INTFS[n][:2]
            if s == a:
                neigh.append(b)
            elif s == b:
                neigh.append(a)
        for kw, flt in (({}, lambda t: True), ({"only_higher": True}, lambda t: SLOTS[t] > SLOTS[s]),
                        ({"only_lower": True}, lambda t: SLOTS[t] < SLOTS[s])):
            e2 = [sv for sv in model.sub_list() if sv[0] in neigh and flt(sv[0])]
            got = q(f"neighboring_subdomains({s},{kw})", lambda: mdg.neighboring_subdomains(g, **kw))
            if got is not None and names(got) != e2:
                P.append(f"neighboring_subdomains({s},{kw}) = {names(got)}, expected {e2}")

    # boundary grids
    bgs = {}
    for s, v in model.subs.items():
        g = pool.grid[(s, v)]
        bg = q(f"subdomain_to_boundary_grid({s})", lambda: mdg.subdomain_to_boundary_grid(g))
        if SLOTS[s] == 0:
            if bg is not None:
                P.append(f"0-d subdomain {s} has a boundary grid")
            continue
        if bg is None or not isinstance(bg, pp.BoundaryGrid):
            P.append(f"subdomain {s} has no boundary grid")
            continue
        if bg.parent is not g:
            P.append(f"boundary grid of {s} has another parent")
        if bg not in mdg:
            P.append(f"boundary grid of {s} is not in the md-grid")
        bgs[s] = bg
    if len({id(b) for b in bgs.values()}) != len(bgs):
        P.append("two subdomains share a boundary grid")
    for sv, g in pool.grid.items():
        if model.subs.get(sv[0]) != sv[1] and mdg.subdomain_to_boundary_grid(g) is not None:
            P.append(f"absent (removed/replaced) subdomain {sv} still maps to a boundary grid")
    for bg in st.dead_bg:
        if bg in mdg:
            P.append("boundary grid of a removed/replaced subdomain is still in the md-grid")
    if model.bg:
        for dim in (None, 0, 1, 2):
            got = q(f"boundaries(dim={dim})", lambda: mdg.boundaries(dim=dim))
            exp = model.bg_list(dim)
            if got is not None:
                gn = [pool.name_of.get(id(b.parent), ("?", 0))[0] for b in got]
                if gn != exp or any(b is not bgs.get(s) for b, s in zip(got, gn)):
                    P.append(f"boundaries(dim={dim}) lists parents {gn}, expected {exp}")
        got = q("boundaries(return_data=True)", lambda: mdg.boundaries(return_data=True))
        if got is not None:
            for b, d in got:
                if d is not q("boundary_grid_data", lambda: mdg.boundary_grid_data(b)):
                    P.append("boundaries(return_data=True): wrong data dictionary")
    else:
        # only 0-d subdomains (or none): boundaries() deliberately raises if subdomains exist
        try:
            got = mdg.boundaries()
            if len(got) != 0:
                P.append("boundaries() not empty although no positive-dimensional subdomain exists")
        except ValueError:
            pass
        except Exception as e:
            P.append(f"boundaries() raised {e!r}")
    return P


def _observe(st: State):
    mdg, pool = st.mdg, st.pool
    subs = tuple(pool.name_of.get(id(g), "?") for g in mdg.subdomains())
    intfs = tuple(pool.mname_of.get(id(m), "?") for m in mdg.interfaces())
    try:
        bgs = tuple(pool.name_of.get(id(b.parent), ("?", 0))[0] for b in mdg.boundaries())
    except ValueError:
        bgs = ("<ValueError>",)
    return (subs, intfs, bgs)


def _fc_digest(st: State):
    """Bitwise digest of the face-cell maps handed to add_interface (purity oracle; the
    maps are stored in the interface data, never documented as modified)."""
    import hashlib

    h = hashlib.blake2b(digest_size=12)
    for n in sorted(st.pool.mortar):
        M = st.pool.face_cells(n).copy().tocsc()  # canonical form: representation changes are fine
        M.sum_duplicates()
        M.sort_indices()
        h.update(repr((n, M.shape)).encode())
        h.update(M.data.astype(float).tobytes() + M.indices.tobytes() + M.indptr.tobytes())
    return h.hexdigest()


def _digest(st: State):
    """Shapes of the mortar projections: part of the abstract state (decides which later
    geometric updates are possible)."""
    out = []
    for n in sorted(st.model.intfs):
        m = st.pool.mortar[n]
        try:
            out.append((n, m.num_cells, m.primary_to_mortar_int().shape, m.secondary_to_mortar_int().shape))
        except Exception:
            out.append((n, "?"))
    return tuple(out)


def run_case(case) -> Outcome:
    out = Outcome()
    pre, slots, depth = case["pre"], list(case["slots"]), case["depth"]
    first = _tup(case["first"])

    def build(hist):
        h = (first,) + tuple(hist)
        st = State(tuple(PREAMBLES[pre]) + h)
        for op in PREAMBLES[pre]:
            _do(st, op)
            if st.status != "ok":
                raise RuntimeError(f"harness: preamble op {op} gave {st.status} {st.info}")
        if pre != "empty" and not hist:
            P = _compare(st)
            if P:
                st.status, st.info = "preamble", P
                st.hist = tuple(PREAMBLES[pre])
                return st
        for i, op in enumerate(h):
            _do(st, op)
            st.hist = h[: i + 1]
            if st.status != "ok":
                if i != len(h) - 1:
                    raise RuntimeError(f"harness: non-final op {op} of {h} gave {st.status}")
                break
        return st

    def enabled(st, hist):
        return st.model.enabled(slots, PAIRS_ADD, PAIRS_REP)

    def canon(st):
        return (st.model.canon(), _digest(st))

    def check(st, hist, o: Outcome):
        op = st.hist[-1] if st.hist else ("preamble",)
        kind = op[0]
        hist_json = [list(map(lambda x: list(x) if isinstance(x, tuple) else x, p)) for p in st.hist]
        base = {"preamble": pre, "history": hist_json}
        if st.status == "preamble":
            o.violate("container inconsistent after the preamble", problems=st.info[:6], **base)
            o.ev("VIOLATION")
            return
        if st.status == "exc":
            # the container code itself raised during a listed operation
            P = _compare(st)
            o.violate(f"{kind} raised", error=st.info, operation=list(map(str, op)),
                      container_left_inconsistent=P[:6], **base)
            o.ev("VIOLATION")
            return
        o1 = _observe(st)
        P = _compare(st)
        if not P and _observe(st) != o1:
            P = ["the listing / navigation queries changed the container"]
        if not P and _fc_digest(st) != st.fc0:
            P = ["a face-cell map passed to add_interface was modified"]
        withi = "+intf" if st.model.intfs else ""
        if P:
            what = "container inconsistent with the reference model"
            if st.status.startswith("rejected") or st.status == "accepted":
                what = f"container changed by a refused operation ({st.status})"
            o.violate(what, problems=P[:6], operation=list(map(str, op)), **base)
            o.ev("VIOLATION")
            return
        nontrivial = st.touched and (len(st.model.subs) >= 2 or st.model.intfs)
        o.ev(f"{kind}:{st.status}{withi}", (pre, st.model.canon()) if nontrivial else None)
        if len(o.samples) < 1 and st.touched and st.model.intfs:
            o.samples.append({"preamble": pre, "history": hist_json,
                              "subdomains": [list(x) for x in st.model.sub_list()],
                              "interfaces": st.model.intf_list()})

    def build_wrapped(hist):
        st = build(hist)
        if st.status.startswith("rejected:geometry"):
            return Abort(st.status[len("rejected:"):])
        if st.status == "rejected:codim 3 (container left dirty)":
            # outside the property text (documented ValueError); recorded, not expanded
            return Abort("codim 3 (container left dirty)")
        return st

    def enabled_wrapped(st, hist):
        if st.status != "ok":
            return []  # refused operations changed nothing: do not expand duplicates
        return enabled(st, hist)

    root = build_wrapped(())
    if isinstance(root, Abort):
        out.ev("rejected:" + root.why)
        out.transitions += 1
        return out
    bfs(build=build_wrapped, enabled=enabled_wrapped, canon=lambda st: (canon(st), st.status),
        check=check, observe=_observe, max_depth=depth - 1, out=out, label=f"C24 {pre}")
    return out


def known_finding(case, viol):
    return None
