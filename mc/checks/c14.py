"""C14 — FV discretizations do not depend on how the grid is split.

Engine E on the real ``pp.Mpfa / pp.Mpsa / pp.Biot``.

Part "split": for every k in 1..num_cells ``partition_arguments = {"num_subproblems": k}``
and ``max_memory`` values forcing 2 and 3 parts; all stored matrices must equal the
one-piece discretization; the numba and the pure-python local inverter must agree.

Part "partial": every target of the declared family (single cells, pairs of cells,
single faces, single nodes, node sets of a cell, optionally every cell subset), by three
routes:
  mech 1  ``specified_cells/faces/nodes`` on an empty matrix dictionary: the rows of the
          target faces (``active_faces`` as reported by the code; for cell-row matrices of
          Biot the cells adjacent to those faces) equal the full discretization;
  mech 2  the same with ``update_discretization=True`` on top of matrices computed with a
          *different* material field: target rows equal the full discretization with the
          current field, all other rows are bit-identical to the old matrices;
  mech 3  ``discr.update_discretization(sd, data)`` with ``modified_cells`` /
          ``modified_faces`` after changing the material only in the modified cells: every
          matrix equals the full rediscretization.
For cell targets the reported ``active_faces`` must contain every face sharing a node with
a target cell (otherwise stale stencils would survive).
"""

from __future__ import annotations

import itertools

import numpy as np

from mc.core import Outcome
from mc.oracles import grpE_grids as G

PROPERTY = "C14"
LEVEL = "exploration"
RULE = (
    "split: (method x grid x boundary variant x inverter) x every k in 1..num_cells and max_memory forcing 2 and 3 "
    "parts; non-trivial = the partition has >= 2 parts and some overlapped subgrid is a proper subset of the grid. "
    "partial: (method x grid x route) x every target of the family; non-trivial = target rows are a non-empty proper "
    "subset of the rows. Distinct by (method, grid, variant, inverter, k) resp. (method, grid, route, family, target)."
)
ASSUMPTIONS = [
    "heterogeneous full permeability / heterogeneous Lame parameters, mixed Dirichlet/Neumann boundary (variant 0) or "
    "all-Dirichlet (variant 1); every material field takes a distinct value in every cell; Biot with two coupling "
    "keywords (a scalar and a cell-wise varying full tensor alpha)",
    "equality tolerance 1e-12 * max|reference matrix| (measured floor 4e-15); untouched rows: exact equality",
    "the target rows of a partial update are the code's own `active_faces` (checked to cover all faces that share a "
    "node with a target cell); only those rows are demanded for mech 1/2",
    "number of parts / properness of a split is classified with pp.partition.partition (observation only)",
]
BOUNDS = {
    "quick": (
        "methods {Mpfa, Mpsa, Biot}; split: C(3,3), C(4,2), T(2,2), C(5,3), T(3,2); variants {mixed, all-Dirichlet}; "
        "inverter {python, numba} (numba: mixed variant only); k = 1..num_cells, max_memory -> 2, 3 parts. partial (python inverter, mixed variant): "
        "C(3,3), C(4,2), T(2,2): every single cell, every pair of cells, every single face, every single node, node set of "
        "every cell; routes 1, 2 (all families) and 3 (cells, faces); C(4,4): every single cell and face, routes 1-3. Scale axis: "
        "C(4,2) *1e-3 and T(2,2) *1e3 (split and single-cell partial). Purity digest of grid / tensors / boundary objects / "
        "target arrays around every call; embedded 2-d grids C(4,2)^gen, T(3,2)^gen2 with full 3x3 K (Mpfa: split, single-cell partial); 3-d: C(2,2,2) split (python, mixed) and single-cell partial updates; reuse (second discretize on the same dictionary, python inverter) in split."
    ),
    "thorough": (
        "quick + numba inverter for the all-Dirichlet variant + 3-d grids C(2,2,2), Tet(1,1,1), Tet(2,1,1) for split and partial (single cells/faces/nodes, pairs of "
        "cells); every cell subset of C(3,3), C(4,2), T(2,2) (routes 1-3); partial with the numba inverter for single "
        "cells; C(4,4) split."
    ),
}
MIN_CLASSES = 8
CHUNK = 1

TOL = 1e-12
METHODS = ("mpfa", "mpsa", "biot")


# ----------------------------------------------------------------------------- inputs


def _fields(nc, dim, alt):
    """Heterogeneous material fields; cells flagged in ``alt`` use a second pattern."""
    c = np.arange(nc)
    a = np.zeros(nc, dtype=bool)
    a[list(alt)] = True
    # every field takes a different value in every cell (the 0.0x * c terms), so that a coefficient taken from the
    # wrong cell is always visible
    kxx = np.where(a, 2.0 + ((c + 1) % 3), 1.0 + (c % 3)) + 0.03 * c
    kyy = np.where(a, 1.5 + ((c + 2) % 4), 1.0 + ((2 * c + 1) % 5)) + 0.02 * c
    kzz = np.where(a, 3.0 + (c % 2), 2.0 + ((c + 1) % 3)) + 0.01 * c
    kxy = np.where(a, 0.25, 0.5) * np.ones(nc) + 0.005 * c
    mu = np.where(a, 2.5 + (c % 3), 1.0 + (c % 2)) + 0.05 * c
    lam = np.where(a, 0.5 + ((c + 1) % 2), 1.0 + ((c + 1) % 3)) + 0.04 * c
    return kxx, kyy, kzz, kxy, mu, lam


def _alpha(nc, dim, alt):
    """Cell-wise varying Biot coupling tensor (distinct in every cell)."""
    import porepy as pp

    c = np.arange(nc)
    a = np.zeros(nc, dtype=bool)
    a[list(alt)] = True
    axx = np.where(a, 0.6, 1.0) + 0.04 * c
    ayy = np.where(a, 1.4, 2.0) - 0.03 * c
    azz = 3.0 + 0.02 * c
    axy = 0.1 + 0.01 * c
    if dim == 3:
        return pp.SecondOrderTensor(kxx=axx, kyy=ayy, kzz=azz, kxy=axy, kxz=0.5 * axy, kyz=0.25 * axy)
    return pp.SecondOrderTensor(kxx=axx, kyy=ayy, kxy=axy)


def _data(g, info, method, variant, inv, alt=(), extra=None):
    import porepy as pp

    nc, dim = g.num_cells, g.dim
    kxx, kyy, kzz, kxy, mu, lam = _fields(nc, dim, alt)
    bf = info["bfaces"]
    if variant == 0:
        lab = ["dir" if i % 3 else "neu" for i in range(len(bf))]
    else:
        lab = ["dir"] * len(bf)
    if method == "mpfa":
        if dim == 3 or info.get("plane_normal") is not None:  # 3-d grid, or 2-d grid embedded in 3-d: full 3x3 tensor
            perm = pp.SecondOrderTensor(kxx=kxx, kyy=kyy, kzz=kzz, kxy=kxy, kxz=kxy, kyz=0.5 * kxy)
        else:
            perm = pp.SecondOrderTensor(kxx=kxx, kyy=kyy, kxy=kxy)
        kw = "flow"
        par = {"bc": pp.BoundaryCondition(g, bf, lab), "second_order_tensor": perm, "mpfa_inverter": inv}
    else:
        kw = "mechanics"
        par = {"bc": pp.BoundaryConditionVectorial(g, bf, lab), "fourth_order_tensor": pp.FourthOrderTensor(mu, lam),
               "inverter": inv}
        if method == "biot":
            par["scalar_vector_mappings"] = {"a": 0.75, "b": _alpha(nc, dim, alt)}
    if extra:
        par.update(extra)
    data = {pp.PARAMETERS: {kw: par}, pp.DISCRETIZATION_MATRICES: {kw: {}}}
    return data, kw


def _arg_objects(data, kw):
    """The argument objects whose content must not change: tensors, boundary conditions, index arrays."""
    import porepy as pp

    par = data[pp.PARAMETERS][kw]
    return [par[k] for k in sorted(par) if k in ("bc", "second_order_tensor", "fourth_order_tensor", "scalar_vector_mappings",
                                                 "specified_cells", "specified_faces", "specified_nodes")]


def _discr(method, kw):
    import porepy as pp

    return {"mpfa": pp.Mpfa, "mpsa": pp.Mpsa, "biot": pp.Biot}[method](kw)


def _flat(md):
    out = {}
    for k, v in md.items():
        if isinstance(v, dict):
            for kk, vv in v.items():
                out[f"{k}/{kk}"] = vv
        else:
            out[k] = v
    return {k: np.asarray(v.toarray()) for k, v in out.items()}


def _full(g, info, method, variant, inv, alt=()):
    import porepy as pp

    data, kw = _data(g, info, method, variant, inv, alt)
    _discr(method, kw).discretize(g, data)
    return _flat(data[pp.DISCRETIZATION_MATRICES][kw])


def _cmp(ref, got, rows_of=None, what=""):
    """Compare dict of dense matrices; rows_of(key, shape) -> row indices or None (= all)."""
    if set(ref) != set(got):
        return {"what": "different sets of matrices", "missing": sorted(set(ref) - set(got)), "extra": sorted(set(got) - set(ref))}
    for k in sorted(ref):
        a, b = ref[k], got[k]
        if a.shape != b.shape:
            return {"what": "matrix shape differs", "matrix": k, "ref": list(a.shape), "got": list(b.shape)}
        rows = None if rows_of is None else rows_of(k, a.shape)
        if rows is not None:
            a, b = a[rows], b[rows]
        if a.size == 0:
            continue
        scale = max(float(np.max(np.abs(ref[k]))) if ref[k].size else 0.0, 1e-300)
        d = np.abs(a - b)
        if not np.all(d <= TOL * scale):
            i, j = np.unravel_index(int(np.argmax(d)), d.shape)
            r = int(i) if rows is None else int(np.asarray(rows)[i])
            return {"what": what or "matrix differs", "matrix": k, "row": r, "col": int(j), "ref": float(a[i, j]),
                    "got": float(b[i, j]), "max_abs_diff": float(d[i, j]), "scale": scale}
    return None


# ----------------------------------------------------------------------------- cases

G2 = {
    "C33": {"kind": "C", "n": [3, 3]}, "C42": {"kind": "C", "n": [4, 2]}, "T22": {"kind": "T", "n": [2, 2]},
    "C53": {"kind": "C", "n": [5, 3]}, "T32": {"kind": "T", "n": [3, 2]}, "C44": {"kind": "C", "n": [4, 4]},
    "C42s": {"kind": "C", "n": [4, 2], "scale": 1e-3}, "T22s": {"kind": "T", "n": [2, 2], "scale": 1e3},
    "C42e": {"kind": "C", "n": [4, 2], "embed": "gen"}, "T32e": {"kind": "T", "n": [3, 2], "embed": "gen2"},
}
G3 = {"C222": {"kind": "C", "n": [2, 2, 2]}, "Tet111": {"kind": "Tet", "n": [1, 1, 1]}, "Tet211": {"kind": "Tet", "n": [2, 1, 1]}}
NCELLS = {"C42e": 8, "T32e": 12, "C42s": 8, "T22s": 8, "C33": 9, "C42": 8, "T22": 8, "C53": 15, "T32": 12, "C44": 16, "C222": 8, "Tet111": 6, "Tet211": 12}
GRIDS = dict(G2, **G3)


def cases(tier):
    out: list = []
    split_grids = ["C33", "C42", "T22", "C53", "T32"] + (["C44", "C222", "Tet111", "Tet211"] if tier == "thorough" else [])
    for m in METHODS:
        for gk in split_grids:
            for variant in (0, 1):
                for inv in ("python", "numba"):
                    if tier == "quick" and inv == "numba" and variant == 1:
                        continue
                    out.append({"part": "split", "method": m, "grid": gk, "variant": variant, "inv": inv})
    for m in METHODS:  # scale axis (python inverter, mixed variant)
        for gk in ("C42s", "T22s"):
            out.append({"part": "split", "method": m, "grid": gk, "variant": 0, "inv": "python"})
            for mech in (1, 2, 3):
                out.append({"part": "partial", "method": m, "grid": gk, "family": "cell1", "mech": mech, "inv": "python", "slice": [0, 1]})
    for gk in ("C42e", "T32e"):  # 2-d grids embedded in a tilted plane (Mpfa only: the flow method used on fracture grids)
        for inv in ("python", "numba"):
            out.append({"part": "split", "method": "mpfa", "grid": gk, "variant": 0, "inv": inv})
        for mech in (1, 2, 3):
            out.append({"part": "partial", "method": "mpfa", "grid": gk, "family": "cell1", "mech": mech, "inv": "python", "slice": [0, 1]})
    if tier == "quick":  # 3-d Cartesian letter (4 nodes per face, vector rows with nd = 3); thorough has the full 3-d set
        for m in METHODS:
            out.append({"part": "split", "method": m, "grid": "C222", "variant": 0, "inv": "python"})
            for mech in (1, 2, 3):
                out.append({"part": "partial", "method": m, "grid": "C222", "family": "cell1", "mech": mech, "inv": "python", "slice": [0, 1]})
    pgrids = ["C33", "C42", "T22"]
    for m in METHODS:
        for gk in pgrids:
            for fam in ("cell1", "cell2", "face1", "node1", "nodecell"):
                for mech in (1, 2, 3):
                    if mech == 3 and fam not in ("cell1", "cell2", "face1"):
                        continue
                    out.append({"part": "partial", "method": m, "grid": gk, "family": fam, "mech": mech, "inv": "python", "slice": [0, 1]})
    for m in METHODS:
        # C(4,4): smallest grid on which the extracted subgrid of a cell update is a proper subset with a diagonal fringe cell
        for fam in ("cell1", "face1"):
            for mech in (1, 2, 3):
                out.append({"part": "partial", "method": m, "grid": "C44", "family": fam, "mech": mech, "inv": "python", "slice": [0, 1]})
    if tier == "thorough":
        for m in METHODS:
            for gk in ("C222", "Tet111", "Tet211"):
                for fam in ("cell1", "cell2", "face1", "node1", "nodecell"):
                    for mech in (1, 2, 3):
                        if mech == 3 and fam not in ("cell1", "cell2", "face1"):
                            continue
                        out.append({"part": "partial", "method": m, "grid": gk, "family": fam, "mech": mech, "inv": "python", "slice": [0, 1]})
            for gk in pgrids:
                for mech in (1, 2, 3):
                    for s in range(8):
                        out.append({"part": "partial", "method": m, "grid": gk, "family": "cellsub", "mech": mech, "inv": "python", "slice": [s, 8]})
                    out.append({"part": "partial", "method": m, "grid": gk, "family": "cell1", "mech": mech, "inv": "numba", "slice": [0, 1]})
    return out


# ----------------------------------------------------------------------------- split


def _split_class(g, k):
    """(number of parts, some overlapped subgrid is a proper subset) - observation only."""
    import porepy as pp

    if k <= 1:
        return 1, False
    try:
        part = pp.partition.partition(g, k)
    except Exception:
        return -1, False
    cn = np.asarray(g.cell_nodes().toarray()) > 0  # nodes x cells
    proper = False
    parts = np.unique(part)
    for p in parts:
        nodes = cn[:, part == p].any(axis=1)
        cells = cn[nodes].any(axis=0)
        if cells.sum() < g.num_cells:
            proper = True
    return len(parts), proper


def _run_split(case, out):
    import porepy as pp

    method, gk, variant, inv = case["method"], case["grid"], case["variant"], case["inv"]
    g, info = G.build_grid(GRIDS[gk])
    assert g.num_cells == NCELLS[gk]
    try:
        ref = _full(g, info, method, variant, inv)
    except Exception as e:
        out.violate("one-piece discretization raised", error=repr(e), method=method, grid=gk, variant=variant, inverter=inv)
        out.ev("exception")
        return
    letters = [("num_subproblems", k) for k in range(1, g.num_cells + 1)]
    d0, kw = _data(g, info, method, variant, inv)
    discr = _discr(method, kw)
    est = getattr(discr, "_estimate_peak_memory_mpsa", None) if method != "mpfa" else getattr(discr, "_estimate_peak_memory", None)
    if est is not None:
        peak = int(est(g))
        for parts in (2, 3):
            mm = peak // parts + 1
            if int(np.ceil(peak / mm)) == parts:
                letters.append(("max_memory", mm))
    for name, val in letters:
        data, kw = _data(g, info, method, variant, inv, extra={"partition_arguments": {name: int(val)}})
        k = int(val) if name == "num_subproblems" else int(np.ceil(peak / val))
        nparts, proper = _split_class(g, k)
        key = (method, gk, variant, inv, name, int(val)) if (nparts >= 2 and proper) else None
        try:
            args = _arg_objects(data, kw)
            dg0 = G.digest(g, args)
            _discr(method, kw).discretize(g, data)
            got = _flat(data[pp.DISCRETIZATION_MATRICES][kw])
            pure = G.digest(g, args) == dg0
            again = None
            if inv == "python":
                _discr(method, kw).discretize(g, data)  # reuse: same data dictionary, same argument objects
                again = _flat(data[pp.DISCRETIZATION_MATRICES][kw])
        except Exception as e:
            out.violate("split discretization raised", error=repr(e), method=method, grid=gk, variant=variant, inverter=inv,
                        partition_arguments={name: int(val)})
            out.ev("exception", key)
            continue
        bad = _cmp(ref, got, what="split discretization differs from the one-piece discretization")
        if bad is None and not pure:
            bad = {"what": "discretize modified its arguments (grid / tensors / boundary conditions)"}
        if bad is None and again is not None:
            if set(again) != set(got) or any(not np.array_equal(again[k], got[k]) for k in got):
                bad = {"what": "second discretize on the same data dictionary gives different matrices"}
        if bad:
            out.violate(bad.pop("what"), method=method, grid=gk, variant=variant, inverter=inv,
                        partition_arguments={name: int(val)}, parts=nparts, **bad)
            out.ev("VIOLATION", key)
        else:
            out.ev(f"split/{method}/{name}/parts{min(nparts, 4)}{'+' if nparts > 4 else ''}/{'proper' if proper else 'cover'}", key)
        if not out.samples and key is not None:
            out.samples.append({"method": method, "grid": gk, "variant": variant, "inverter": inv, "partition_arguments": {name: int(val)}, "parts": nparts})
    if inv == "numba":
        try:
            other = _full(g, info, method, variant, "python")
            bad = _cmp(other, ref, what="numba and python inverters give different matrices")
        except Exception as e:
            bad = {"what": "python-inverter discretization raised", "error": repr(e)}
        if bad:
            out.violate(bad.pop("what"), method=method, grid=gk, variant=variant, **bad)
            out.ev("VIOLATION", (method, gk, variant, "inv-vs-inv"))
        else:
            out.ev(f"inverters/{method}/equal", (method, gk, variant, "inv-vs-inv"))


# ----------------------------------------------------------------------------- partial


def _targets(g, family, sl):
    nc, nf, nn = g.num_cells, g.num_faces, g.num_nodes
    if family == "cell1":
        t = [("cells", [c]) for c in range(nc)]
    elif family == "cell2":
        t = [("cells", [a, b]) for a in range(nc) for b in range(a + 1, nc)]
    elif family == "cellsub":
        t = [("cells", list(s)) for r in range(3, nc + 1) for s in itertools.combinations(range(nc), r)]
    elif family == "face1":
        t = [("faces", [f]) for f in range(nf)]
    elif family == "node1":
        t = [("nodes", [n]) for n in range(nn)]
    elif family == "nodecell":
        cn = np.asarray(g.cell_nodes().toarray()) > 0
        t = [("nodes", np.nonzero(cn[:, c])[0].tolist()) for c in range(nc)]
    else:
        raise ValueError(family)
    i, n = sl
    return t[i::n]


def _row_selector(g, active_faces):
    nf, nc, nd = g.num_faces, g.num_cells, g.dim
    assert len({nf, nf * nd, nc}) == 3 or nd == 1
    af = np.asarray(active_faces, dtype=int)
    frows_s = af
    frows_v = (af[:, None] * nd + np.arange(nd)[None, :]).ravel()
    cfd = np.asarray(np.abs(g.cell_faces).toarray())  # F x C
    crows = np.nonzero(cfd[af].sum(axis=0) > 0)[0] if af.size else np.array([], dtype=int)

    def rows_of(key, shape):
        if shape[0] == nf:
            return frows_s
        if shape[0] == nf * nd:
            return frows_v
        if shape[0] == nc:
            return crows
        raise AssertionError(f"unexpected row count of {key}: {shape}")

    def other_rows(key, shape):
        return np.setdiff1d(np.arange(shape[0]), rows_of(key, shape))

    return rows_of, other_rows


def _faces_touching_cells(g, cells):
    cn = np.asarray(g.cell_nodes().toarray()) > 0  # nodes x cells
    fn = np.asarray(g.face_nodes.toarray()) > 0  # nodes x faces
    nodes = cn[:, cells].any(axis=1)
    return np.nonzero(fn[nodes].any(axis=0))[0]


def _run_partial(case, out):
    import porepy as pp

    method, gk, fam, mech, inv = case["method"], case["grid"], case["family"], case["mech"], case["inv"]
    variant = 0
    g, info = G.build_grid(GRIDS[gk])
    nc = g.num_cells
    all_cells = tuple(range(nc))
    fresh_cache: dict = {}

    def fresh(alt):
        alt = tuple(sorted(alt))
        if alt not in fresh_cache:
            fresh_cache[alt] = _full(g, info, method, variant, inv, alt)
        return fresh_cache[alt]

    try:
        ref_new = fresh(())
        old = fresh(all_cells) if mech == 2 else None
    except Exception as e:
        out.violate("full discretization raised", error=repr(e), method=method, grid=gk)
        out.ev("exception")
        return
    for kind, idx in _targets(g, fam, case["slice"]):
        idx_arr = np.array(idx, dtype=int)
        desc = {"method": method, "grid": gk, "route": mech, "target_kind": kind, "target": idx, "inverter": inv}
        tkey = (method, gk, mech, fam, inv, tuple(idx))
        dg_grid = G.digest(g, idx_arr)
        try:
            if mech == 1:
                data, kw = _data(g, info, method, variant, inv, extra={"specified_" + kind: idx_arr})
                _discr(method, kw).discretize(g, data)
            elif mech == 2:
                # matrices of the *old* field (all cells on the second pattern), parameters of the new field
                data, kw = _data(g, info, method, variant, inv, alt=all_cells)
                _discr(method, kw).discretize(g, data)
                new_data, _ = _data(g, info, method, variant, inv, extra={"specified_" + kind: idx_arr, "update_discretization": True})
                data[pp.PARAMETERS][kw] = new_data[pp.PARAMETERS][kw]
                _discr(method, kw).discretize(g, data)
            else:
                alt = tuple(idx) if kind == "cells" else ()
                data, kw = _data(g, info, method, variant, inv, alt=alt)  # old: modified cells on the second pattern
                _discr(method, kw).discretize(g, data)
                new_data, _ = _data(g, info, method, variant, inv)
                data[pp.PARAMETERS][kw] = new_data[pp.PARAMETERS][kw]
                data["update_discretization"] = {"modified_" + kind: idx_arr}
                _discr(method, kw).update_discretization(g, data)
            got = _flat(data[pp.DISCRETIZATION_MATRICES][kw])
            active_faces = np.asarray(data[pp.PARAMETERS][kw].get("active_faces", np.arange(g.num_faces)), dtype=int)
            if G.digest(g, idx_arr) != dg_grid or not np.array_equal(idx_arr, np.array(idx, dtype=int)):
                out.violate("partial discretization modified the grid or the target index array", **desc)
                out.ev("VIOLATION", tkey)
                continue
        except Exception as e:
            out.violate("partial discretization raised", error=repr(e), **desc)
            out.ev(f"exception/{method}/m{mech}", tkey)
            continue
        bad = None
        ntarget = int(active_faces.size)
        if mech == 3:
            bad = _cmp(ref_new, got, what="update_discretization result differs from the full rediscretization")
        else:
            rows_of, other_rows = _row_selector(g, active_faces)
            if kind == "cells":
                need = _faces_touching_cells(g, idx)
                miss = np.setdiff1d(need, active_faces)
                if miss.size:
                    bad = {"what": "active_faces misses faces that share a node with a target cell", "missing_faces": miss.tolist()}
            if bad is None:
                bad = _cmp(ref_new, got, rows_of, what="target rows of the partial discretization differ from the full discretization")
            if bad is None and mech == 2:
                bad2 = None
                for k in sorted(old):
                    r = other_rows(k, old[k].shape)
                    if not np.array_equal(old[k][r], got[k][r]):
                        d = np.abs(old[k][r] - got[k][r])
                        i, j = np.unravel_index(int(np.argmax(d)), d.shape)
                        bad2 = {"what": "rows outside the update target were modified", "matrix": k, "row": int(r[i]), "col": int(j),
                                "old": float(old[k][r][i, j]), "got": float(got[k][r][i, j])}
                        break
                bad = bad2
        nontrivial = 0 < ntarget < g.num_faces
        if bad:
            out.violate(bad.pop("what"), active_faces=active_faces, **desc, **bad)
            out.ev("VIOLATION", tkey if nontrivial else None)
        else:
            bucket = "none" if ntarget == 0 else ("all" if ntarget == g.num_faces else "some")
            out.ev(f"partial/{method}/m{mech}/{kind}/{bucket}", tkey if nontrivial else None)
        if not out.samples and nontrivial:
            out.samples.append(dict(desc, active_faces=active_faces.tolist()))


def run_case(case) -> Outcome:
    out = Outcome()
    if case["part"] == "split":
        _run_split(case, out)
    else:
        _run_partial(case, out)
    return out


def known_finding(case, viol):
    return None
