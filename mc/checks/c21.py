"""C21 — grid connectivity queries agree with the signed cell-face incidence.

Engine E: every grid letter of group G (1-d/2-d/3-d Cartesian, tensor, simplex,
polygonal, polytopal), every subdomain of seven fractured Cartesian md-grids (split
top-dimensional grids, fracture grids with tips and intersections, 0-d grids) and every
subgrid extracted from every non-empty cell subset of the small letters.  On each grid
all queries named in the property are recomputed from ``cell_faces.toarray()`` /
``face_nodes.toarray()`` with dense integer numpy and compared exactly:

    cell_faces_as_dense, cell_connection_map (symmetric; off-diagonal pattern),
    domain_boundary_faces after update_boundary_face_tag (and the tags a grid is born
    with), signs_and_cells_of_boundary_faces for every ordered pair of boundary faces
    and for the full set in several orders, cell_nodes / num_cell_nodes,
    divergence(1), divergence(2), divergence(3) == kron(D^T, I_dim).
"""

from __future__ import annotations

import itertools

import numpy as np

from mc.core import Outcome
from mc.oracles import grpG_grids as G

PROPERTY = "C21"
LEVEL = "exploration"
RULE = (
    "one case = a grid letter (all queries on it), a fractured md-grid (all queries on "
    "each of its subdomains) or (letter, subset size k): all queries on every subgrid "
    "extracted from a k-subset of cells; one evaluation = one query on one grid; "
    "non-trivial = the grid has at least one internal and one boundary face; distinct "
    "by (grid label, query)"
)
ASSUMPTIONS = [
    "purity: no query may change the grid it is asked about (nodes, face_nodes raw, "
    "cell_faces in canonical form, tags, geometry compared bitwise before/after); all "
    "queries of one grid run on ONE grid object, so a query that damaged the incidence "
    "would also corrupt the answers of the queries after it",
    "the diagonal of cell_connection_map is not constrained (property: symmetric, "
    "neighbours = cells sharing a face)",
    "as-built tags: domain_boundary_faces == one-neighbour faces for unfractured grids "
    "and extracted subgrids; union of domain/fracture/tip tags == one-neighbour faces "
    "for the subdomains produced by pp.meshing.cart_grid",
    "signs_and_cells_of_boundary_faces is queried with duplicate-free lists of boundary "
    "faces only (its stated precondition); a list containing an internal face is only "
    "classified (ValueError expected), not judged",
]
BOUNDS = {
    "quick": "all 32 letters + 7 fractured md-grids (20 subdomains) + every non-empty cell subset of letters with <= 6 cells; boundary-face queries: all ordered pairs when <= 24 boundary faces, else pairs among the first 24",
    "thorough": "all 36 letters + 7 fractured md-grids + every non-empty cell subset of letters with <= 9 cells (2-d) / <= 8 cells (3-d)",
}
MIN_CLASSES = 6
CHUNK = 4


def _sub_limit(tier, dim):
    if tier == "quick":
        return 6
    return 8 if dim == 3 else 9


def cases(tier):
    out = []
    for name, spec in G.base_specs(tier):
        out.append({"src": "base", "name": name, "spec": spec})
    for f in G.FRAC:
        out.append({"src": "frac", "name": f})
    for name, spec in G.base_specs(tier):
        nc = G.build(spec).num_cells
        if 2 <= nc <= _sub_limit(tier, G.spec_dim(spec)):
            for k in range(1, nc):
                out.append({"src": "sub", "name": name, "spec": spec, "k": k})
    return out


# ------------------------------------------------------------------ the queries


def check_grid(g, label, out: Outcome, born="plain"):
    D = G.dense_incidence(g)  # nf x nc
    A = np.abs(D)
    nf, nc = D.shape
    cnt = A.sum(axis=1)
    one = np.where(cnt == 1)[0]
    nontriv = bool(one.size and (cnt == 2).any())

    def ev(query, ok_cls, bad, **detail):
        if bad:
            out.violate(f"{query}: {bad}", grid=label, **detail)
            out.ev("VIOLATION")
        else:
            out.ev(f"{query}/{ok_cls}", (label, query) if nontriv else None)

    base_digest = G.grid_digest(g)

    def pure(query):
        """The query must leave the grid bitwise unchanged (cell_faces in canonical form)."""
        ch = G.digest_diff(base_digest, G.grid_digest(g))
        if ch:
            out.violate(f"{query}: argument grid mutated", grid=label, changed=ch)
            out.ev("VIOLATION")
            base_digest.update(G.grid_digest(g))
        else:
            out.ev(f"pure/{query}")

    shape_cls = f"{g.dim}d/" + ("closed" if not (cnt == 2).any() else "mixed") + ("/split" if born == "frac" and g.tags["fracture_faces"].any() else "")

    # --- cell_faces_as_dense
    try:
        got = g.cell_faces_as_dense()
        exp = -np.ones((2, nf), dtype=int)
        for f in range(nf):
            p = np.where(D[f] > 0)[0]
            m = np.where(D[f] < 0)[0]
            if p.size:
                exp[0, f] = p[0]
            if m.size:
                exp[1, f] = m[0]
        bad = None if (got.shape == exp.shape and np.array_equal(got, exp)) else "differs from incidence"
        ev("as_dense", shape_cls, bad, got=got, expected=exp)
    except Exception as e:
        ev("as_dense", "", "raised", error=repr(e))
    pure("as_dense")

    # --- cell_connection_map
    try:
        M = g.cell_connection_map()
        Md = np.asarray(M.toarray()).astype(bool)
        exp = (A.T @ A) > 0
        off = ~np.eye(nc, dtype=bool)
        bad = None
        if Md.shape != (nc, nc):
            bad = "wrong shape"
        elif not np.array_equal(Md, Md.T):
            bad = "not symmetric"
        elif not np.array_equal(Md[off], exp[off]):
            bad = "off-diagonal pattern differs from cells sharing a face"
        ev("connection_map", shape_cls + ("/connected" if _connected(exp) else "/disconnected"), bad, got=Md, expected=exp)
    except Exception as e:
        ev("connection_map", "", "raised", error=repr(e))
    pure("connection_map")

    # --- boundary tags
    exp_tag = cnt == 1
    try:
        g2 = g.copy()
        g2.tags["domain_boundary_faces"] = np.zeros(nf, dtype=bool)
        g2.update_boundary_face_tag()
        got = np.asarray(g2.tags["domain_boundary_faces"])
        bad = None if (got.dtype == bool and np.array_equal(got, exp_tag)) else "update_boundary_face_tag != faces with exactly one adjacent cell"
        ev("update_tag", shape_cls, bad, got=got, expected=exp_tag)
    except Exception as e:
        ev("update_tag", "", "raised", error=repr(e))
    try:
        if born == "frac":
            got = np.zeros(nf, dtype=bool)
            got[g.get_all_boundary_faces()] = True
        else:
            got = np.asarray(g.tags["domain_boundary_faces"]).astype(bool)
        bad = None if np.array_equal(got, exp_tag) else "as-built boundary tags != faces with exactly one adjacent cell"
        ev("born_tag", shape_cls + "/" + born, bad, got=got, expected=exp_tag)
    except Exception as e:
        ev("born_tag", "", "raised", error=repr(e))
    pure("copy+get_all_boundary_faces")

    # --- signs_and_cells_of_boundary_faces
    if one.size:
        sub = one[:24]
        queries = [one, one[::-1], np.roll(one, 1)]
        queries += [np.array(p) for p in itertools.permutations(sub, 2)]
        queries += [np.array([f]) for f in one]
        if one.size <= 5:
            queries += [np.array(p) for p in itertools.permutations(one)]
        bad = None
        detail = {}
        for q in queries:
            try:
                sgn, ci = g.signs_and_cells_of_boundary_faces(q.copy())
            except Exception as e:
                bad, detail = "raised on boundary faces", {"faces": q, "error": repr(e)}
                break
            es = np.array([D[f, np.nonzero(D[f])[0][0]] for f in q])
            ec = np.array([np.nonzero(D[f])[0][0] for f in q])
            if not (np.array_equal(np.asarray(sgn).ravel(), es) and np.array_equal(np.asarray(ci).ravel(), ec)):
                bad, detail = "signs/cells differ from incidence", {"faces": q, "signs": sgn, "cells": ci, "exp_signs": es, "exp_cells": ec}
                break
        ev("signs_cells", shape_cls + ("/allperm" if one.size <= 5 else "/pairs"), bad, **detail)
        internal = np.where(cnt == 2)[0]
        if internal.size:
            try:
                g.signs_and_cells_of_boundary_faces(np.array([one[0], internal[0]]))
                out.ev("signs_cells/internal-face:no-error")
            except ValueError:
                out.ev("signs_cells/internal-face:ValueError")
            except Exception:
                out.ev("signs_cells/internal-face:other-error")

    pure("signs_cells")

    # --- cell_nodes
    try:
        FN = (g.face_nodes.toarray() != 0).astype(int)
        exp = (FN @ A) > 0
        cn = g.cell_nodes()
        got = np.asarray(cn.toarray()).astype(bool)
        bad = None if (got.shape == exp.shape and np.array_equal(got, exp)) else "cell_nodes differs from face_nodes*|cell_faces|"
        if bad is None and nc:
            if not np.array_equal(np.asarray(g.num_cell_nodes()).ravel(), exp.sum(axis=0)):
                bad = "num_cell_nodes differs"
        ev("cell_nodes", shape_cls, bad, got=got, expected=exp)
    except Exception as e:
        ev("cell_nodes", "", "raised", error=repr(e))
    pure("cell_nodes")

    # --- divergence
    for k in (1, 2, 3):
        try:
            div = g.divergence(k)
            got = np.asarray(div.toarray())
            exp = np.kron(D.T, np.eye(k, dtype=int))
            bad = None if (got.shape == exp.shape and np.array_equal(got, exp)) else "divergence != kron(cell_faces^T, I)"
            ev(f"divergence{k}", shape_cls, bad, got=got, expected=exp)
        except Exception as e:
            ev(f"divergence{k}", "", "raised", error=repr(e))
    pure("divergence")
    try:
        g.divergence(0)
        out.ev("divergence0/no-error")
    except ValueError:
        out.ev("divergence0/ValueError")
    except Exception:
        out.ev("divergence0/other-error")


def _connected(adj):
    n = adj.shape[0]
    if n == 0:
        return True
    seen = {0}
    stack = [0]
    while stack:
        i = stack.pop()
        for j in np.where(adj[i])[0]:
            if j not in seen:
                seen.add(int(j))
                stack.append(int(j))
    return len(seen) == n


def run_case(case) -> Outcome:
    import porepy as pp

    out = Outcome()
    if case["src"] == "base":
        g = G.build(case["spec"])
        check_grid(g, case["name"], out)
        if not out.samples:
            out.samples.append({"grid": case["name"], "spec": case["spec"], "cells": g.num_cells, "faces": g.num_faces})
    elif case["src"] == "frac":
        for label, g in G.frac_grids(case["name"]):
            check_grid(g, label, out, born="frac")
    else:
        g = G.build(case["spec"])
        for c in itertools.combinations(range(g.num_cells), case["k"]):
            try:
                h, _, _ = pp.partition.extract_subgrid(g, np.array(c))
            except Exception as e:
                out.violate("extract_subgrid raised", grid=case["name"], cells=list(c), error=repr(e))
                out.ev("VIOLATION")
                continue
            check_grid(h, f"{case['name']}{list(c)}", out, born="sub")
    return out


def known_finding(case, viol):
    return None
