"""C21 — grid connectivity queries agree with the signed cell-face incidence.

Engine E: every grid letter of group G (1-d/2-d/3-d Cartesian, tensor, simplex,
polygonal, polytopal), every subdomain of seven fractured Cartesian md-grids (split
top-dimensional grids, fracture grids with tips and intersections, 0-d grids) and every
subgrid extracted from every non-empty cell subset of the small letters.  On each grid
all queries named in the property are recomputed from ``cell_faces.toarray()`` /
``face_nodes.toarray()`` with dense integer numpy and compared exactly:

    cell_faces_as_dense, cell_connection_map (symmetric; off-diagonal pattern),
    domain_boundary_faces after update_boundary_face_tag (and the tags a grid is born
    with), signs_and_cells_of_boundary_faces for every ordered pair of boundary faces
    and for the full set in several orders, cell_nodes / num_cell_nodes,
    divergence(1), divergence(2), divergence(3) == kron(D^T, I_dim).
"""

from __future__ import annotations

import itertools

import numpy as np

from mc.core import Outcome
from mc.oracles import grpG_grids as G

PROPERTY = "C21"
LEVEL = "exploration"
RULE = (
    "one case = a grid letter (all queries on it), a fractured md-grid (all queries on "
    "each of its subdomains) or (letter, subset size k): all queries on every subgrid "
    "extracted from a k-subset of cells; one evaluation = one query on one grid; "
    "non-trivial = the grid has at least one internal and one boundary face; distinct "
    "by (grid label, query)"
)
ASSUMPTIONS = [
    "fresh results: every query is asked twice on the same object and the first answer "
    "is overwritten in place before the second call; the second answer must be right and "
    "must not share memory with the first.  Answers that are views of the grid's own "
    "storage (divergence(1) is cell_faces.T without a copy on the unchanged tree) are not "
    "overwritten, only repeated",
    "sequences on one object: queries; in-place topology change (propagate_fractures on "
    "the smallest growable cart_grid md-grid; hand-made removal of the last cell followed "
    "by update_boundary_face_tag); the same queries again against the incidence as it is then",
    "purity: no query may change the grid it is asked about (nodes, face_nodes raw, "
    "cell_faces in canonical form, tags, geometry compared bitwise before/after); all "
    "queries of one grid run on ONE grid object, so a query that damaged the incidence "
    "would also corrupt the answers of the queries after it",
    "cell_connection_map is compared by VALUE (toarray), not by sparsity pattern: entry "
    "(i,j) is True iff cells i and j share at least one face, for i == j iff the cell has "
    "a face; letters with two cells sharing 1, 2, 127, 128, 129, 255, 256, 257 faces",
    "as-built tags: domain_boundary_faces == one-neighbour faces for unfractured grids "
    "and extracted subgrids; union of domain/fracture/tip tags == one-neighbour faces "
    "for the subdomains produced by pp.meshing.cart_grid",
    "signs_and_cells_of_boundary_faces is queried with duplicate-free lists of boundary "
    "faces only (its stated precondition); a list containing an internal face is only "
    "classified (ValueError expected), not judged",
]
BOUNDS = {
    "quick": "all 37 letters + 7 fractured md-grids (20 subdomains) + 6 in-place topology sequences; every query asked twice with the first result overwritten + every non-empty cell subset of letters with <= 6 cells; boundary-face queries: all ordered pairs when <= 24 boundary faces, else pairs among the first 24",
    "thorough": "all 41 letters + 7 fractured md-grids + 6 sequences + every non-empty cell subset of letters with <= 9 cells (2-d) / <= 8 cells (3-d)",
}
MIN_CLASSES = 6
CHUNK = 4


def _sub_limit(tier, dim):
    if tier == "quick":
        return 6
    return 8 if dim == 3 else 9


def cases(tier):
    out = []
    for name, spec in G.base_specs(tier):
        out.append({"src": "base", "name": name, "spec": spec})
    for f in G.FRAC:
        out.append({"src": "frac", "name": f})
    for k in (1, 2, 127, 128, 129, 255, 256, 257):
        out.append({"src": "multi", "k": k})
    out.append({"src": "seq", "seq": "propagate"})
    for name in ("C2", "C22", "T22", "K111", "C211"):
        out.append({"src": "seq", "seq": "drop-cell", "name": name, "spec": dict(G.base_specs("thorough"))[name]})
    for name, spec in G.base_specs(tier):
        nc = G.build(spec).num_cells
        if 2 <= nc <= _sub_limit(tier, G.spec_dim(spec)):
            for k in range(1, nc):
                out.append({"src": "sub", "name": name, "spec": spec, "k": k})
    return out


# ------------------------------------------------------------------ the queries


def check_grid(g, label, out: Outcome, born="plain"):
    D = G.dense_incidence(g)  # nf x nc
    A = np.abs(D)
    nf, nc = D.shape
    cnt = A.sum(axis=1)
    one = np.where(cnt == 1)[0]
    nontriv = bool(one.size and (cnt == 2).any())

    def ev(query, ok_cls, bad, **detail):
        if bad:
            out.violate(f"{query}: {bad}", grid=label, **detail)
            out.ev("VIOLATION")
        else:
            out.ev(f"{query}/{ok_cls}", (label, query) if nontriv else None)

    base_digest = G.grid_digest(g)

    def pure(query):
        """The query must leave the grid bitwise unchanged (cell_faces in canonical form)."""
        ch = G.digest_diff(base_digest, G.grid_digest(g))
        if ch:
            out.violate(f"{query}: argument grid mutated", grid=label, changed=ch)
            out.ev("VIOLATION")
            base_digest.update(G.grid_digest(g))
        else:
            out.ev(f"pure/{query}")

    shape_cls = f"{g.dim}d/" + ("closed" if not (cnt == 2).any() else "mixed") + ("/split" if born == "frac" and g.tags["fracture_faces"].any() else "")

    # --- cell_faces_as_dense
    try:
        got = g.cell_faces_as_dense()
        exp = -np.ones((2, nf), dtype=int)
        for f in range(nf):
            p = np.where(D[f] > 0)[0]
            m = np.where(D[f] < 0)[0]
            if p.size:
                exp[0, f] = p[0]
            if m.size:
                exp[1, f] = m[0]
        bad = None if (got.shape == exp.shape and np.array_equal(got, exp)) else "differs from incidence"
        ev("as_dense", shape_cls, bad, got=got, expected=exp)
    except Exception as e:
        ev("as_dense", "", "raised", error=repr(e))
    pure("as_dense")

    # --- cell_connection_map
    try:
        M = g.cell_connection_map()
        Md = np.asarray(M.toarray()).astype(bool)
        exp = (A.T @ A) > 0
        off = ~np.eye(nc, dtype=bool)
        bad = None
        if Md.shape != (nc, nc):
            bad = "wrong shape"
        elif not np.array_equal(Md, Md.T):
            bad = "not symmetric"
        elif not np.array_equal(Md[off], exp[off]):
            bad = "off-diagonal pattern differs from cells sharing a face"
        elif not np.array_equal(np.diag(Md), np.diag(exp)):
            bad = "diagonal: a cell with faces must be connected to itself (value of the entry, not the sparsity pattern)"
        ev("connection_map", shape_cls + ("/connected" if _connected(exp) else "/disconnected"), bad, got=Md, expected=exp)
    except Exception as e:
        ev("connection_map", "", "raised", error=repr(e))
    pure("connection_map")

    # --- boundary tags
    exp_tag = cnt == 1
    try:
        g2 = g.copy()
        g2.tags["domain_boundary_faces"] = np.zeros(nf, dtype=bool)
        g2.update_boundary_face_tag()
        got = np.asarray(g2.tags["domain_boundary_faces"])
        bad = None if (got.dtype == bool and np.array_equal(got, exp_tag)) else "update_boundary_face_tag != faces with exactly one adjacent cell"
        ev("update_tag", shape_cls, bad, got=got, expected=exp_tag)
    except Exception as e:
        ev("update_tag", "", "raised", error=repr(e))
    try:
        if born in ("frac", "seq"):
            got = np.zeros(nf, dtype=bool)
            got[g.get_all_boundary_faces()] = True
        else:
            got = np.asarray(g.tags["domain_boundary_faces"]).astype(bool)
        bad = None if np.array_equal(got, exp_tag) else "as-built boundary tags != faces with exactly one adjacent cell"
        ev("born_tag", shape_cls + "/" + born, bad, got=got, expected=exp_tag)
    except Exception as e:
        ev("born_tag", "", "raised", error=repr(e))
    pure("copy+get_all_boundary_faces")

    # --- signs_and_cells_of_boundary_faces
    if one.size:
        sub = one[:24]
        queries = [one, one[::-1], np.roll(one, 1)]
        queries += [np.array(p) for p in itertools.permutations(sub, 2)]
        queries += [np.array([f]) for f in one]
        if one.size <= 5:
            queries += [np.array(p) for p in itertools.permutations(one)]
        bad = None
        detail = {}
        for q in queries:
            try:
                sgn, ci = g.signs_and_cells_of_boundary_faces(q.copy())
            except Exception as e:
                bad, detail = "raised on boundary faces", {"faces": q, "error": repr(e)}
                break
            es = np.array([D[f, np.nonzero(D[f])[0][0]] for f in q])
            ec = np.array([np.nonzero(D[f])[0][0] for f in q])
            if not (np.array_equal(np.asarray(sgn).ravel(), es) and np.array_equal(np.asarray(ci).ravel(), ec)):
                bad, detail = "signs/cells differ from incidence", {"faces": q, "signs": sgn, "cells": ci, "exp_signs": es, "exp_cells": ec}
                break
        ev("signs_cells", shape_cls + ("/allperm" if one.size <= 5 else "/pairs"), bad, **detail)
        internal = np.where(cnt == 2)[0]
        if internal.size:
            try:
                g.signs_and_cells_of_boundary_faces(np.array([one[0], internal[0]]))
                out.ev("signs_cells/internal-face:no-error")
            except ValueError:
                out.ev("signs_cells/internal-face:ValueError")
            except Exception:
                out.ev("signs_cells/internal-face:other-error")

    pure("signs_cells")

    # --- cell_nodes
    try:
        FN = (g.face_nodes.toarray() != 0).astype(int)
        exp = (FN @ A) > 0
        cn = g.cell_nodes()
        got = np.asarray(cn.toarray()).astype(bool)
        bad = None if (got.shape == exp.shape and np.array_equal(got, exp)) else "cell_nodes differs from face_nodes*|cell_faces|"
        if bad is None and nc:
            if not np.array_equal(np.asarray(g.num_cell_nodes()).ravel(), exp.sum(axis=0)):
                bad = "num_cell_nodes differs"
        ev("cell_nodes", shape_cls, bad, got=got, expected=exp)
    except Exception as e:
        ev("cell_nodes", "", "raised", error=repr(e))
    pure("cell_nodes")

    # --- divergence
    for k in (1, 2, 3):
        try:
            div = g.divergence(k)
            got = np.asarray(div.toarray())
            exp = np.kron(D.T, np.eye(k, dtype=int))
            bad = None if (got.shape == exp.shape and np.array_equal(got, exp)) else "divergence != kron(cell_faces^T, I)"
            ev(f"divergence{k}", shape_cls, bad, got=got, expected=exp)
        except Exception as e:
            ev(f"divergence{k}", "", "raised", error=repr(e))
    pure("divergence")
    try:
        g.divergence(0)
        out.ev("divergence0/no-error")
    except ValueError:
        out.ev("divergence0/ValueError")
    except Exception:
        out.ev("divergence0/other-error")
    fresh_results(g, label, out, nontriv)


def _result_arrays(r):
    """(arrays that may be scrambled, all arrays) of a query result."""
    import scipy.sparse as sps

    if sps.issparse(r):
        if r.format in ("csr", "csc", "bsr"):
            return [r.data], [r.data, r.indices, r.indptr]
        if r.format == "coo":
            return [r.data], [r.data, r.row, r.col]
        return [], []
    if isinstance(r, tuple):
        a = [np.asarray(x) for x in r if isinstance(x, np.ndarray)]
        return a, a
    if isinstance(r, np.ndarray):
        return [r], [r]
    return [], []


def _grid_arrays(g):
    arrs = [g.nodes]
    for m in (g.cell_faces, g.face_nodes):
        arrs += [m.data, m.indices, m.indptr]
    arrs += [np.asarray(v) for v in g.tags.values() if isinstance(v, np.ndarray)]
    arrs += [getattr(g, f) for f in G.GEOM_FIELDS if hasattr(g, f)]
    return arrs


def _scramble(arrs):
    for a in arrs:
        if not a.flags.writeable or a.size == 0:
            continue
        if a.dtype == bool:
            np.logical_not(a, out=a)
        else:
            a *= -1
            a -= 7


def fresh_results(g, label, out: Outcome, nontriv=True):
    """Every query is asked twice on the same grid object.  What the caller does with the
    first answer (here: overwrite it in place) must not influence the second answer: a
    query result is a function of the grid, not of earlier calls."""
    D = G.dense_incidence(g)
    A = np.abs(D)
    nf, nc = D.shape
    cnt = A.sum(axis=1)
    one = np.where(cnt == 1)[0]
    FN = (g.face_nodes.toarray() != 0).astype(int)
    exp_cn = (FN @ A) > 0
    exp_dense = -np.ones((2, nf), dtype=int)
    for f in range(nf):
        pz, mz = np.where(D[f] > 0)[0], np.where(D[f] < 0)[0]
        if pz.size:
            exp_dense[0, f] = pz[0]
        if mz.size:
            exp_dense[1, f] = mz[0]
    exp_c2c = (A.T @ A) > 0
    off = ~np.eye(nc, dtype=bool)

    def v_dense(r):
        return r.shape == exp_dense.shape and np.array_equal(r, exp_dense)

    def v_c2c(r):
        M = np.asarray(r.toarray()).astype(bool)
        return M.shape == (nc, nc) and np.array_equal(M, M.T) and np.array_equal(M, exp_c2c)

    def v_cn(r):
        M = np.asarray(r.toarray()).astype(bool)
        return M.shape == exp_cn.shape and np.array_equal(M, exp_cn)

    def v_ncn(r):
        return np.array_equal(np.asarray(r).ravel(), exp_cn.sum(axis=0))

    def v_div(k):
        E = np.kron(D.T, np.eye(k, dtype=int))
        return lambda r: r.shape == E.shape and np.array_equal(np.asarray(r.toarray()), E)

    queries = [
        ("as_dense", g.cell_faces_as_dense, v_dense),
        ("connection_map", g.cell_connection_map, v_c2c),
        ("cell_nodes", g.cell_nodes, v_cn),
        ("divergence1", lambda: g.divergence(1), v_div(1)),
        ("divergence2", lambda: g.divergence(2), v_div(2)),
        ("divergence3", lambda: g.divergence(3), v_div(3)),
    ]
    if nc:
        queries.append(("num_cell_nodes", g.num_cell_nodes, v_ncn))
    if one.size:
        es = np.array([D[f, np.nonzero(D[f])[0][0]] for f in one])
        ec = np.array([np.nonzero(D[f])[0][0] for f in one])
        queries.append((
            "signs_cells",
            lambda: g.signs_and_cells_of_boundary_faces(one.copy()),
            lambda r: np.array_equal(np.asarray(r[0]).ravel(), es) and np.array_equal(np.asarray(r[1]).ravel(), ec),
        ))
    before = G.grid_digest(g)
    for name, call, verify in queries:
        try:
            r1 = call()
            if not verify(r1):
                out.violate(f"{name}: wrong result (repeat-call pass)", grid=label)
                out.ev("VIOLATION")
                continue
            scr, allarr = _result_arrays(r1)
            internals = _grid_arrays(g)
            if any(np.shares_memory(a, b) for a in allarr for b in internals if a.size and b.size):
                # the answer is a view of the grid's own storage: overwriting it would be
                # the harness damaging the grid, so only idempotence is demanded
                r2 = call()
                if not verify(r2):
                    out.violate(f"{name}: second call on the same grid gives a wrong result", grid=label)
                    out.ev("VIOLATION")
                else:
                    out.ev(f"fresh/{name}/view-of-grid-storage")
                continue
            _scramble(scr)
            r2 = call()
            ok2 = verify(r2)
            _, all2 = _result_arrays(r2)
            shared = any(np.shares_memory(a, b) for a in allarr for b in all2 if a.size and b.size)
            if not ok2:
                out.violate(f"{name}: result of the second call is wrong after the caller overwrote the first result in place (stale / shared result)", grid=label, same_object=bool(r2 is r1), shares_memory=bool(shared))
                out.ev("VIOLATION")
            elif shared:
                out.violate(f"{name}: results of two calls share memory", grid=label)
                out.ev("VIOLATION")
            else:
                out.ev(f"fresh/{name}/independent", ("fr", label, name) if nontriv else None)
        except Exception as e:
            out.violate(f"{name}: raised in the repeat-call pass", grid=label, error=repr(e))
            out.ev("VIOLATION")
    ch = G.digest_diff(before, G.grid_digest(g))
    if ch:
        out.violate("repeat-call pass: argument grid mutated", grid=label, changed=ch)
        out.ev("VIOLATION")


def multi_face_grid(k):
    """Two polygonal cells [0,1]x[0,1] and [1,2]x[0,1] whose common side is subdivided
    into k faces (agglomerated-grid situation: two cells sharing many faces)."""
    import porepy as pp
    import scipy.sparse as sps

    # nodes: interface points (1, i/k), then the four outer corners
    ys = np.arange(k + 1) / k
    nodes = np.zeros((3, k + 5))
    nodes[0, : k + 1] = 1.0
    nodes[1, : k + 1] = ys
    nodes[:2, k + 1 :] = np.array([[0, 0, 2, 2], [0, 1, 0, 1]])
    a, b, c, d = k + 1, k + 2, k + 3, k + 4  # (0,0) (0,1) (2,0) (2,1)
    faces = [[i, i + 1] for i in range(k)]  # interface, bottom to top
    faces += [[a, 0], [k, b], [b, a]]  # left cell: bottom, top, left (counter-clockwise)
    faces += [[0, c], [c, d], [d, k]]  # right cell: bottom, right, top
    ind = np.hstack(faces)
    fn = sps.csc_matrix((np.ones(ind.size), ind, np.arange(0, ind.size + 1, 2)), shape=(k + 5, k + 6))
    rows = np.r_[np.arange(k), k, k + 1, k + 2, np.arange(k), k + 3, k + 4, k + 5]
    cols = np.r_[np.zeros(k + 3, int), np.ones(k + 3, int)]
    vals = np.r_[np.ones(k + 3, int), -np.ones(k, int), np.ones(3, int)]
    cf = sps.csc_matrix((vals, (rows, cols)), shape=(k + 6, 2))
    return pp.Grid(2, nodes, fn, cf, f"two cells sharing {k} faces")


def _run_sequence(case, out: Outcome):
    """Queries, then an in-place change of the topology of the SAME grid object, then the
    queries again (all against the dense incidence of the object as it is then)."""
    import warnings

    import porepy as pp

    if case["seq"] == "propagate":
        # smallest fractured Cartesian md-grid whose fracture can grow: propagate_fractures
        # updates the matrix and fracture grids in place
        with warnings.catch_warnings():
            warnings.simplefilter("ignore")
            mdg = pp.meshing.cart_grid([np.array([[1.0, 2.0], [1.0, 1.0]])], np.array([4, 2]))
            mdg.compute_geometry()
            sd2, sd1 = mdg.subdomains(dim=2)[0], mdg.subdomains(dim=1)[0]
            for sd, lab in ((sd2, "prop/d2/before"), (sd1, "prop/d1/before")):
                check_grid(sd, lab, out, born="frac")
            fc = sd2.face_centers
            face = np.where(np.logical_and(np.isclose(fc[0], 2.5), np.isclose(fc[1], 1.0)))[0]
            nf0 = sd2.num_faces
            pp.propagate_fracture.propagate_fractures(mdg, {sd1: face})
        if sd2.num_faces != nf0 + 1:
            raise RuntimeError("harness: propagation did not split one face")
        for sd, lab in ((sd2, "prop/d2/after"), (sd1, "prop/d1/after")):
            check_grid(sd, lab, out, born="seq")
        out.samples.append({"sequence": "queries; propagate_fractures (in place); queries", "faces_before_after": [int(nf0), int(sd2.num_faces)]})
        return
    # hand-made in-place edit: the last cell is removed from the incidence of the object
    g = G.build(case["spec"])
    check_grid(g, case["name"] + "/before", out)
    g.cell_faces = g.cell_faces[:, : g.num_cells - 1].tocsc()
    g.num_cells -= 1
    g.parent_cell_ind = np.arange(g.num_cells)
    g.update_boundary_face_tag()
    check_grid(g, case["name"] + "/after-removing-last-cell", out, born="seq")


def _connected(adj):
    n = adj.shape[0]
    if n == 0:
        return True
    seen = {0}
    stack = [0]
    while stack:
        i = stack.pop()
        for j in np.where(adj[i])[0]:
            if j not in seen:
                seen.add(int(j))
                stack.append(int(j))
    return len(seen) == n


def run_case(case) -> Outcome:
    import porepy as pp

    out = Outcome()
    if case["src"] == "base":
        g = G.build(case["spec"])
        check_grid(g, case["name"], out)
        if not out.samples:
            out.samples.append({"grid": case["name"], "spec": case["spec"], "cells": g.num_cells, "faces": g.num_faces})
    elif case["src"] == "frac":
        for label, g in G.frac_grids(case["name"]):
            check_grid(g, label, out, born="frac")
    elif case["src"] == "seq":
        _run_sequence(case, out)
    elif case["src"] == "multi":
        g = multi_face_grid(case["k"])
        check_grid(g, f"multi{case['k']}", out)
        out.samples.append({"grid": f"two cells sharing {case['k']} faces", "faces": g.num_faces})
    else:
        g = G.build(case["spec"])
        for c in itertools.combinations(range(g.num_cells), case["k"]):
            try:
                h, _, _ = pp.partition.extract_subgrid(g, np.array(c))
            except Exception as e:
                out.violate("extract_subgrid raised", grid=case["name"], cells=list(c), error=repr(e))
                out.ev("VIOLATION")
                continue
            check_grid(h, f"{case['name']}{list(c)}", out, born="sub")
    return out


def known_finding(case, viol):
    return None
