"""C08 — stored time-step / iterate histories behave as sliding windows.

Engine H: explicit-state BFS over histories of ``set`` (overwrite / additive, at the
time-step location, the iterate location, or both) and ``shift`` (per location, with
``max_index`` in {None, 1, 2, 3}, the depth may change from shift to shift).

Every history is replayed in lock-step on
  (a) a plain data dictionary through ``pp.set_solution_values`` /
      ``pp.get_solution_values`` / ``pp.shift_solution_values`` and
  (b) a fresh ``EquationSystem`` through ``set_variable_values`` /
      ``get_variable_values`` / ``shift_time_step_values`` / ``shift_iterate_values``
and a plain-list window model is stepped alongside. After *every* operation every index
0..NPROBE-1 is read through both interfaces and compared with the model; the caller's
array is overwritten with garbage after every ``set``; every array returned by a read is
(i) kept and compared again at the end of the history ("later writes do not alter it")
and (ii) a second copy is overwritten with garbage followed by a re-read (aliasing probe).
"""

from __future__ import annotations

import numpy as np

from mc.core import Abort, Outcome, bfs

PROPERTY = "C08"
LEVEL = "model_checking"
RULE = (
    "BFS over all histories of 14 operations {set(loc in T/I/both, overwrite|additive), "
    "shift(loc in T/I, max_index in None/1/2/3)}; the k-th set of a history writes the fresh "
    "value 2^(k-1)*pattern so every slot content identifies the set of writes it came from; "
    "one case = (interface mode, first two operations); all indices are read after every "
    "operation; non-trivial = a state in which some location holds >= 2 slots with different "
    "values or a slot that is a sum of >= 2 writes; distinct by (mode, stored slot values of "
    "both locations)"
)
ASSUMPTIONS = [
    "writes go to index 0 only (the property speaks about values written at index 0)",
    "window model: a shift with depth d moves the content of slot i-1 to slot i for every "
    "1 <= i < d (all i for d=None); slot i is demanded to hold a value only while that value "
    "has been moved by every shift since it was written at index 0 (i.e. it never sat at an "
    "index >= the depth of a later shift); slots at or beyond the depth in force are left "
    "unconstrained (class 'free'); the number of stored slots grows by at most one per shift and "
    "a shift with maximum depth d never creates a slot at an index >= d (that is what makes d a "
    "*maximum* depth): an index that no admissible shift could have created must read as KeyError",
    "a rejected additive write with both indices may or may not have been applied to the "
    "location whose slot was non-empty (both outcomes accepted, classified)",
    "canonical state = stored slot values seen through both interfaces + window model state "
    "+ number of sets so far; merged histories are compared on the full read-out",
]
BOUNDS = {
    "quick": "histories of length <= 5 (single-grid mode) and <= 4 (md-grid mode: variable on 2 subdomains + an interface variable) over the 14-letter alphabet, depth+2 indices read per location",
    "thorough": "histories of length <= 6 over the 14-letter alphabet, both modes, 8 indices read per location",
}
MIN_CLASSES = 4
CHUNK = 4

LOCS = ("T", "I")
SET_OPS = [["set", loc, add] for loc in ("T", "I", "B") for add in (False, True)]
SHIFT_OPS = [["shift", loc, d] for loc in LOCS for d in (None, 1, 2, 3)]
OPS = SET_OPS + SHIFT_OPS

FREE = "free"  # model: slot content not constrained by the property
GARBAGE = -777.0


def cases(tier):
    depth = {"quick": {"single": 5, "md": 4}, "thorough": {"single": 6, "md": 6}}[tier]
    out = []
    for mode in ("single", "md"):
        for a in OPS:
            for b in OPS:
                out.append({"mode": mode, "prefix": [a, b], "depth": depth[mode], "nprobe": depth[mode] + 2})
    return out


# ----------------------------------------------------------------------------- model


class Window:
    """Plain-list reference of one storage location."""

    def __init__(self):
        self.slots: list = []  # slots[i] = int coefficient or FREE; [] = nothing stored

    def can_add(self):
        return len(self.slots) > 0

    def set(self, c, additive):
        if additive:
            assert self.slots
            self.slots[0] = self.slots[0] + c
        elif self.slots:
            self.slots[0] = c
        else:
            self.slots = [c]

    def shift(self, d):
        if not self.slots:
            return
        old = self.slots
        new = [old[0]]
        for i in range(1, len(old) + 1):
            if d is None or d > i:
                new.append(old[i - 1])
            elif i < len(old):
                new.append(FREE)  # at or beyond the depth of this shift: unconstrained
        self.slots = new

    def expected(self, i):
        """int: demanded value; FREE: unconstrained; None: must not hold a value."""
        if i < len(self.slots):
            return self.slots[i]
        return None

    def key(self):
        return tuple(self.slots)


# ------------------------------------------------------------------ implementation


_GRIDS: dict = {}


def _mdg(mode):
    import porepy as pp

    if mode not in _GRIDS:
        if mode == "single":
            _GRIDS[mode] = pp.meshing.cart_grid([], [2, 1])
        else:
            _GRIDS[mode] = pp.meshing.cart_grid([np.array([[1, 1], [0, 1]])], [2, 1])
    mdg = _GRIDS[mode]
    for _, d in list(mdg.subdomains(return_data=True)) + list(mdg.interfaces(return_data=True)):
        d.clear()
    return mdg


class Impl:
    """The two real storages, driven in lock-step."""

    def __init__(self, mode):
        import porepy as pp

        self.pp = pp
        self.loc = {"T": pp.TIME_STEP_SOLUTIONS, "I": pp.ITERATE_SOLUTIONS}
        self.data: dict = {}
        self.pat_d = np.array([1.0, 3.0])
        mdg = _mdg(mode)
        self.es = pp.ad.EquationSystem(mdg)
        self.mode = mode
        if mode == "single":
            self.var = self.es.create_variables("x", subdomains=mdg.subdomains())
            self.varforms = [[self.var], ["x"], None]
        else:
            # a second variable on the interface sits between nothing: global order is
            # x@sd2, x@sd1, (lam@intf); only x is written/read/shifted
            self.var = self.es.create_variables("x", dof_info={"cells": 1}, subdomains=mdg.subdomains())
            self.es.create_variables("lam", interfaces=mdg.interfaces())
            self.varforms = [[self.var], ["x"], list(self.var.sub_vars), list(reversed(self.var.sub_vars))]
        n = int(sum(self.es.dofs_of([v]).size for v in self.var.sub_vars))
        self.pat_e = np.arange(1.0, n + 1.0) * 2.0 - 1.0  # 1,3,5,...
        self.nops = 0

    def _idx(self, loc):
        return {"T": (0, None), "I": (None, 0), "B": (0, 0)}[loc]

    def _vf(self):
        return self.varforms[self.nops % len(self.varforms)]

    def set(self, loc, c, additive):
        """Returns (exception class name or None) per interface."""
        ts, it = self._idx(loc)
        res = []
        vd = c * self.pat_d
        try:
            self.pp.set_solution_values("x", vd, self.data, time_step_index=ts, iterate_index=it, additive=additive)
            res.append(None)
        except ValueError:
            res.append("ValueError")
        except Exception as e:  # noqa
            res.append(repr(e))
        if not np.array_equal(vd, c * self.pat_d):
            res[-1] = "set_solution_values modified its argument"
        vd[:] = GARBAGE
        ve = c * self.pat_e
        try:
            self.es.set_variable_values(ve, self._vf(), time_step_index=ts, iterate_index=it, additive=additive)
            res.append(None)
        except ValueError:
            res.append("ValueError")
        except Exception as e:  # noqa
            res.append(repr(e))
        if not np.array_equal(ve, c * self.pat_e):
            res[-1] = "set_variable_values modified its argument"
        ve[:] = GARBAGE
        self.nops += 1
        return res

    def shift(self, loc, d):
        res = []
        try:
            self.pp.shift_solution_values("x", self.data, self.loc[loc], d)
            res.append(None)
        except Exception as e:  # noqa
            res.append(repr(e))
        try:
            if loc == "T":
                self.es.shift_time_step_values(self._vf(), max_index=d)
            else:
                self.es.shift_iterate_values(self._vf(), max_index=d)
            res.append(None)
        except Exception as e:  # noqa
            res.append(repr(e))
        self.nops += 1
        return res

    def get(self, which, loc, i):
        """Raw read through one interface: ndarray, or 'KeyError', or repr(other exc)."""
        kw = {"time_step_index": i} if loc == "T" else {"iterate_index": i}
        try:
            if which == 0:
                return self.pp.get_solution_values("x", self.data, **kw)
            return self.es.get_variable_values(self._vf(), **kw)
        except KeyError:
            return "KeyError"
        except Exception as e:  # noqa
            return repr(e)

    def coeff(self, which, arr):
        """Integer coefficient c with arr == c*pattern, or a tuple of raw floats."""
        pat = self.pat_d if which == 0 else self.pat_e
        if isinstance(arr, np.ndarray) and arr.shape == pat.shape:
            c = arr[0] / pat[0]
            if c == int(c) and np.array_equal(arr, c * pat):
                return int(c)
        if isinstance(arr, np.ndarray):
            return ("raw",) + tuple(float(x) for x in arr.ravel())
        return arr


class State:
    def __init__(self, mode, nprobe):
        self.impl = Impl(mode)
        self.win = {"T": Window(), "I": Window()}
        self.nprobe = nprobe
        self.nsets = 0
        self.problems: list = []
        self.held: list = []  # (description, array, frozen copy)
        self.readout = None
        self.flags: set = set()
        self.hist: list = []
        self.abort = None

    # -- one transition on model and both implementations
    def step(self, op, full=True):
        """``full``: verify the complete read-out after the operation (always done for the
        last operation of a history and inside the case prefix; the intermediate states of
        a history are verified as histories of their own), otherwise only read and keep the
        stored arrays for the "later writes do not alter reads" probe."""
        self.hist.append(op)
        if op[0] == "set":
            _, loc, additive = op
            self.nsets += 1
            c = 2 ** (self.nsets - 1)
            locs = LOCS if loc == "B" else (loc,)
            if additive:
                empty = [l for l in locs if not self.win[l].can_add()]
                before = {l: self.win[l].expected(0) for l in locs}
                res = self.impl.set(loc, c, True)
                if empty:
                    for which, r in enumerate(res):
                        if r != "ValueError":
                            self._bad("additive write to an empty slot was not rejected with ValueError", which, op, got=r)
                    self.flags.add("add-rejected")
                    if len(empty) < len(locs) and self.impl.mode == "md":
                        # one call = several (sub-variable, location) writes of which some are
                        # admissible: the property does not say which of them are applied
                        # before the rejection; the state is not explored further
                        self.abort = "additive-both/one-location-empty"
                    # location(s) whose slot was non-empty: applied or not, both accepted
                    for l in locs:
                        if l in empty:
                            continue
                        got = [self.impl.coeff(w, self.impl.get(w, l, 0)) for w in (0, 1)]
                        if got[0] == got[1] == before[l] + c:
                            self.win[l].set(c, True)
                            self.flags.add("add-rejected-partially-applied")
                        elif got[0] == got[1] == before[l]:
                            self.flags.add("add-rejected-atomic")
                        # anything else is reported by the read-out below
                else:
                    for which, r in enumerate(res):
                        if r is not None:
                            self._bad("additive write to a filled slot raised", which, op, got=r)
                    for l in locs:
                        self.win[l].set(c, True)
                    self.flags.add("add")
            else:
                res = self.impl.set(loc, c, False)
                for which, r in enumerate(res):
                    if r is not None:
                        self._bad("overwriting set raised", which, op, got=r)
                for l in locs:
                    self.win[l].set(c, False)
                self.flags.add("ovw")
        else:
            _, loc, d = op
            res = self.impl.shift(loc, d)
            for which, r in enumerate(res):
                if r is not None:
                    self._bad("shift raised", which, op, got=r)
            self.win[loc].shift(d)
            self.flags.add("shift-None" if d is None else "shift-d")
        if self.abort:
            return
        if full:
            self._read_all(op)
        else:
            self._hold_all()

    def _bad(self, what, which, op, **kw):
        self.problems.append(dict(what=what, interface=("helpers", "EquationSystem")[which], op=op,
                                  history=list(self.hist), **kw))

    def _hold_all(self):
        for l in LOCS:
            for which in (0, 1):
                for i in range(self.nprobe):
                    a = self.impl.get(which, l, i)
                    if not isinstance(a, np.ndarray):
                        break
                    self.held.append(((which, l, i, len(self.hist)), a, a.copy()))

    def _read_all(self, op):
        ro = []
        for l in LOCS:
            for i in range(self.nprobe):
                exp = self.win[l].expected(i)
                for which in (0, 1):
                    a = self.impl.get(which, l, i)
                    c = self.impl.coeff(which, a)
                    ro.append(c)
                    if isinstance(a, np.ndarray):
                        self.held.append(((which, l, i, len(self.hist)), a, a.copy()))
                        # aliasing probe: scribble over a second returned array, re-read
                        b = self.impl.get(which, l, i)
                        if isinstance(b, np.ndarray):
                            b[:] = GARBAGE
                        c2 = self.impl.coeff(which, self.impl.get(which, l, i))
                        if c2 != c:
                            self._bad("overwriting the array returned by a read changed the stored value", which, op,
                                      location=l, index=i, before=c, after=c2)
                    if exp is None:
                        if c != "KeyError":
                            self._bad("a value is stored at an index that no shift within its maximum depth could have created", which, op,
                                      location=l, index=i, got=c)
                    elif exp == FREE:
                        self.flags.add("free-slot")
                    elif c != exp:
                        self._bad("stored value differs from the sliding-window model", which, op,
                                  location=l, index=i, expected=exp, got=c, model=list(self.win[l].slots))
        self.readout = tuple(ro)

    def finish(self):
        for (which, l, i, t), arr, frozen in self.held:
            if not np.array_equal(arr, frozen):
                self._bad("an array returned by a read was altered by a later operation", which, self.hist[-1],
                          location=l, index=i, read_after_op=t, was=frozen, now=arr)
                break


def run_case(case) -> Outcome:
    out = Outcome()
    mode, prefix, nprobe = case["mode"], [list(o) for o in case["prefix"]], case["nprobe"]

    def build(hist):
        st = State(mode, nprobe)
        ops = prefix + [list(o) for o in hist]
        for k, op in enumerate(ops):
            st.step(op, full=(k < len(prefix) or k == len(ops) - 1))
            if st.abort:
                break
        st.finish()
        if st.abort and not st.problems:
            return Abort(st.abort)
        return st

    def enabled(st, hist):
        return [tuple(o) for o in OPS]

    def canon(st):
        return (st.readout, st.win["T"].key(), st.win["I"].key(), st.nsets)

    def observe(st):
        return st.readout

    def check(st, hist, o: Outcome):
        if st.problems:
            p = st.problems[0]
            o.violate(p["what"], mode=mode, **{k: v for k, v in p.items() if k != "what"})
            o.ev("VIOLATION")
            return
        slots = {l: [s for s in st.win[l].slots] for l in LOCS}
        nontrivial = False
        for l in LOCS:
            vals = [s for s in slots[l] if s != FREE]
            if len(set(vals)) >= 2 or any(bin(v).count("1") >= 2 for v in vals):
                nontrivial = True
        key = (mode, st.readout) if nontrivial else None
        last = st.hist[-1]
        cls = last[0] + ":" + last[1]
        if last[0] == "set":
            cls += "/add" if last[2] else "/ovw"
        else:
            cls += "/d=" + str(last[2])
        cls += "/depthT%d,I%d" % (min(len(slots["T"]), 3), min(len(slots["I"]), 3))
        if any(FREE in slots[l] for l in LOCS):
            cls += "/stale"
        if "add-rejected-partially-applied" in st.flags:
            cls += "/partial-reject"
        o.ev(cls, key)
        if nontrivial and len(o.samples) < 1 and len(st.hist) >= 4:
            o.samples.append({"mode": mode, "history": st.hist, "model": {l: [str(s) for s in slots[l]] for l in LOCS}})

    s0 = build(())
    if isinstance(s0, Abort):
        out.ev("rejected:" + s0.why)
        return out
    bfs(build=build, enabled=enabled, canon=canon, check=check, observe=observe,
        max_depth=case["depth"] - len(prefix), out=out, label=f"C08 {mode} {prefix}")
    return out


def known_finding(case, viol):
    return None
