"""C45 — operator hash keys identify operator trees.

Engine E (programs x single-datum mutations). For every leaf family a list of variants
is built in which any two members differ in at least one leaf datum (value, index, size,
name, domain, time/iterate index); trees of depth <= 2 are built over these leaves.
Demanded: (i) two independently constructed copies of the same variant / tree have equal
``_key()`` and equal ``hash``; (ii) any two different variants of a family, and any two
trees differing in exactly one leaf datum, one operator or the operand order / nesting,
have different keys. The oracle is the identity of the construction recipe itself.
"""

from __future__ import annotations

import itertools

import numpy as np

from mc.core import Outcome

PROPERTY = "C45"
LEVEL = "exploration"
RULE = (
    "leaf families (Scalar, DenseArray short/long, SparseArray in csr/csc/coo x "
    "spmatrix/sparray, Variable, MixedDimensionalVariable, TimeDependentDenseArray, "
    "Divergence, MergedOperator, Projection short/long incl. transposes, ProjectionList) "
    "each with a list of variants differing pairwise in >= 1 datum: every variant built "
    "twice (equal key+hash demanded) and every unordered pair of variants (different keys "
    "demanded); trees a op b, (a op1 b) op2 c, a op2 (b op1 c) over + - * / ** @ with a "
    "leaf pool: rebuild equality, and every single-leaf, single-operator, operand-swap and "
    "re-nesting mutation must change the key; order axis: for every tree template over 5 "
    "unshifted leaves and every shift t1 t2 i1 i2, (a) keys/hash of the tree and all its "
    "nodes queried (and the tree used as dict key) before previous_timestep/iteration, (b) "
    "shift first, (c) query, shift, query, shift again: the shifted tree and every inner "
    "node must have the key of the same tree rebuilt from shifted leaves, differ from the "
    "original, and leave all earlier keys unchanged; same for leaves (shift), projections "
    "(transpose), wrapped constants (negation) and Scalar.set_value (all ordered value "
    "pairs, key queried before or not, alone and inside 12 compound trees whose key was not "
    "cached). Non-trivial = distinct (family or template, "
    "variant pair) in which the two recipes differ in exactly one datum"
)
ASSUMPTIONS = [
    "operators produced by pp.ad.Function are outside the domain (AbstractFunction._key is declared not implemented)",
    "same matrix stored in different sparse formats / index dtypes, and -0.0 vs 0.0, are not compared (the property is silent)",
    "grids, interfaces and boundary grids of one md-grid are different domains even when their integer ids coincide",
]
BOUNDS = {
    "quick": "order axis over 349 trees x 4 shifts x 3 scenarios per operator; all families, all variant pairs; tree templates of depth <= 2 over 6 operators and a pool of 5 leaves with 2 mutations per leaf",
    "thorough": "order axis over 793 trees x 4 shifts x 3 scenarios per operator; same as quick plus depth-2 trees over the full variant lists of Scalar, DenseArray, Variable, md-variable and Projection leaves",
}
MIN_CLASSES = 4

OPS = ("add", "sub", "mul", "div", "pow", "matmul")

_CTX = {}


def _ctx():
    if "c" in _CTX:
        return _CTX["c"]
    import porepy as pp

    mdg, _ = pp.mdg_library.square_with_orthogonal_fractures("cartesian", {"cell_size": 0.5}, fracture_indices=[1])
    eqs = pp.ad.EquationSystem(mdg)
    sds, intfs = mdg.subdomains(), mdg.interfaces()
    eqs.create_variables("p", dof_info={"cells": 1}, subdomains=sds)
    eqs.create_variables("p2", dof_info={"cells": 1}, subdomains=sds)
    eqs.create_variables("lam", dof_info={"cells": 1}, interfaces=intfs)
    _CTX["c"] = {"mdg": mdg, "eqs": eqs, "sds": sds, "intfs": intfs, "bgs": mdg.boundaries()}
    return _CTX["c"]


# ----------------------------------------------------------------------------- families
# A family is a list of recipes; a recipe is a JSON-able description; build(recipe) makes a
# fresh operator. "one" marks the pairs (i, j) whose recipes differ in exactly one datum
# (all pairs are demanded to have different keys).


def _long(n, mid=None):
    a = np.arange(n)
    if mid is not None:
        a[n // 2] = mid
    return a


def families():
    F = {}
    F["scalar"] = [["scalar", 1.0], ["scalar", 2.0], ["scalar", -1.0], ["scalar", 1.5], ["scalar", 0.0]]
    F["dense"] = [["dense", [1.0, 2.0, 3.0]], ["dense", [1.0, 2.0, 4.0]], ["dense", [1.0, 2.0, 3.0, 0.0]], ["dense", [3.0, 2.0, 1.0]], ["dense", [1.0, 2.0]]]
    F["dense_long"] = [["dense_long", 1200, None], ["dense_long", 1200, 7], ["dense_long", 1201, None], ["dense_long", 1200, 8]]
    for fmt in ("csr", "csc", "coo"):
        for flav in ("m", "a"):
            F[f"sparse_{fmt}_{flav}"] = [
                ["sparse", fmt, flav, [[1.0, 2.0, 0.0], [0.0, 3.0, 0.0]]],
                ["sparse", fmt, flav, [[1.0, 5.0, 0.0], [0.0, 3.0, 0.0]]],  # one value
                ["sparse", fmt, flav, [[1.0, 0.0, 2.0], [0.0, 3.0, 0.0]]],  # one column index
                ["sparse", fmt, flav, [[1.0, 2.0, 0.0], [3.0, 0.0, 0.0]]],  # same row pattern, other column
                ["sparse", fmt, flav, [[1.0, 2.0, 0.0, 0.0], [0.0, 3.0, 0.0, 0.0]]],  # one more (empty) column
                ["sparse", fmt, flav, [[1.0, 2.0, 0.0], [0.0, 3.0, 0.0], [0.0, 0.0, 0.0]]],  # one more (empty) row
                ["sparse", fmt, flav, [[1.0, 2.0, 0.0], [0.0, 0.0, 0.0], [0.0, 3.0, 0.0]]],  # entry moved one row down
            ]
    shifts = [None, ["t", 1], ["t", 2], ["i", 1], ["i", 2]]
    F["variable"] = [["var", nm, dom, sh] for nm, dom in (("p", "sd0"), ("p", "sd1"), ("p2", "sd0"), ("lam", "intf0")) for sh in shifts]
    F["mdvar"] = [["mdvar", nm, doms, sh] for nm, doms in (("p", ["sd0", "sd1"]), ("p", ["sd1", "sd0"]), ("p", ["sd0"]), ("p", ["sd1"]), ("p2", ["sd0", "sd1"]), ("lam", ["intf0"])) for sh in shifts]
    F["tdd"] = [
        ["tdd", nm, doms, sh]
        for nm, doms in (("a", ["sd0", "sd1"]), ("b", ["sd0", "sd1"]), ("a", ["sd1", "sd0"]), ("a", ["sd0"]), ("a", ["sd1"]), ("a", ["intf0"]), ("a", ["bg0"]), ("a", ["bg0", "bg1"]), ("a", []))
        for sh in (None, ["t", 1], ["t", 2])
    ]
    F["divergence"] = [["div", ["sd0", "sd1"], 1], ["div", ["sd0", "sd1"], 2], ["div", ["sd0"], 1], ["div", ["sd1"], 1], ["div", ["sd1", "sd0"], 1]]
    F["merged"] = [
        ["merged", "MpfaAd", "flow", ["sd0", "sd1"], "flux"],
        ["merged", "MpfaAd", "flow", ["sd0", "sd1"], "bound_flux"],
        ["merged", "MpfaAd", "heat", ["sd0", "sd1"], "flux"],
        ["merged", "MpfaAd", "flow", ["sd0"], "flux"],
        ["merged", "MpfaAd", "flow", ["sd1", "sd0"], "flux"],
        ["merged", "TpfaAd", "flow", ["sd0", "sd1"], "flux"],
    ]
    base = [[0, 2], [0, 1], 4, 3]  # domain_indices, range_indices, domain_size, range_size
    F["projection"] = [
        ["proj", [0, 2], [0, 1], 4, 3, False],
        ["proj", [0, 3], [0, 1], 4, 3, False],  # domain index
        ["proj", [0, 2], [0, 2], 4, 3, False],  # range index
        ["proj", [0, 2], [0, 1], 5, 3, False],  # domain size only
        ["proj", [0, 2], [0, 1], 4, 4, False],  # range size only
        ["proj", [2, 0], [0, 1], 4, 3, False],  # order of domain indices
        ["proj", [0, 2], [0, 1], 4, 3, True],  # transposed
        ["proj", [0, 2], [0, 1], 5, 3, True],  # transposed, other domain size
        ["proj", [0, 1], [0, 2], 3, 4, False],  # = transpose of the base written directly
    ]
    F["projection_long"] = [
        ["proj_long", 1200, None, None, 1200, 1200],
        ["proj_long", 1200, 7, None, 1200, 1200],  # domain indices differ in the middle
        ["proj_long", 1200, None, 7, 1200, 1200],  # range indices differ in the middle
        ["proj_long", 1200, None, None, 1201, 1200],
        ["proj_long", 1200, None, None, 1200, 1201],
        ["proj_long", 1200, 8, None, 1200, 1200],
    ]
    F["projection_list"] = [
        ["projlist", [[[0], [0], 2, 2], [[1], [1], 2, 2]]],
        ["projlist", [[[1], [0], 2, 2], [[0], [1], 2, 2]]],  # same sizes, other indices
        ["projlist", [[[0], [0], 2, 2], [[1], [0], 2, 2]]],
        ["projlist", [[[0], [0], 3, 2], [[1], [1], 3, 2]]],  # domain size
        ["projlist", [[[0], [0], 2, 2], [[1], [1], 2, 2], [[1], [0], 2, 2]]],  # one more projection
    ]
    del base
    return F


# pairs of recipes that denote the same operator although the recipes differ
def same_operator(a, b):
    if a[0] == "proj" and b[0] == "proj":
        def norm(r):
            _, di, ri, ds, rs, tr = r
            return (tuple(ri), tuple(di), rs, ds) if tr else (tuple(di), tuple(ri), ds, rs)
        return norm(a) == norm(b)
    return False


def _dom(c, name):
    kind, i = name.rstrip("0123456789"), int(name[len(name.rstrip("0123456789")):])
    return {"sd": c["sds"], "intf": c["intfs"], "bg": c["bgs"]}[kind][i]


def _shift(op, sh):
    if sh is None:
        return op
    return op.previous_timestep(sh[1]) if sh[0] == "t" else op.previous_iteration(sh[1])


def build(r):
    import porepy as pp
    import scipy.sparse as sps

    c = _ctx()
    t = r[0]
    if t == "scalar":
        return pp.ad.Scalar(r[1])
    if t == "dense":
        return pp.ad.DenseArray(np.array(r[1], dtype=float))
    if t == "dense_long":
        return pp.ad.DenseArray(_long(r[1], r[2]).astype(float))
    if t == "sparse":
        D = np.array(r[3])
        M = (sps.csr_matrix(D) if r[2] == "m" else sps.csr_array(D)).asformat(r[1])
        return pp.ad.SparseArray(M)
    if t == "var":
        v = [v for v in c["eqs"].variables if v.name == r[1] and v.domain is _dom(c, r[2])][0]
        return _shift(v, r[3])
    if t == "mdvar":
        vs = [[v for v in c["eqs"].variables if v.name == r[1] and v.domain is _dom(c, d)][0] for d in r[2]]
        return _shift(pp.ad.MixedDimensionalVariable(vs), r[3])
    if t == "tdd":
        return _shift(pp.ad.TimeDependentDenseArray(r[1], [_dom(c, d) for d in r[2]]), r[3])
    if t == "div":
        return pp.ad.Divergence([_dom(c, d) for d in r[1]], dim=r[2])
    if t == "merged":
        discr = getattr(pp.ad, r[1])(r[2], [_dom(c, d) for d in r[3]])
        return getattr(discr, r[4])()
    if t == "proj":
        P = pp.ad.Projection(domain_indices=np.array(r[1]), range_indices=np.array(r[2]), domain_size=r[3], range_size=r[4])
        return P.T if r[5] else P
    if t == "proj_long":
        return pp.ad.Projection(domain_indices=_long(r[1], r[2]), range_indices=_long(r[1], r[3]), domain_size=r[4], range_size=r[5])
    if t == "projlist":
        return pp.ad.ProjectionList([pp.ad.Projection(np.array(a), np.array(b), ds, rs) for a, b, ds, rs in r[1]])
    if t == "tree":
        import operator

        f = {"add": operator.add, "sub": operator.sub, "mul": operator.mul, "div": operator.truediv, "pow": operator.pow, "matmul": operator.matmul}
        if r[1] == "d1":
            return f[r[2]](build(r[3]), build(r[4]))
        if r[1] == "left":  # (a op1 b) op2 c
            return f[r[3]](f[r[2]](build(r[4]), build(r[5])), build(r[6]))
        if r[1] == "right":  # a op2 (b op1 c)
            return f[r[3]](build(r[4]), f[r[2]](build(r[5]), build(r[6])))
    raise KeyError(t)


# ----------------------------------------------------------------------------- cases

POOL = [
    # (leaf, two single-datum mutations of it)
    (["mdvar", "p", ["sd0", "sd1"], None], [["mdvar", "p", ["sd0", "sd1"], ["t", 1]], ["mdvar", "p2", ["sd0", "sd1"], None]]),
    (["scalar", 2.0], [["scalar", 3.0], ["scalar", -2.0]]),
    (["dense", [1.0, 2.0, 3.0]], [["dense", [1.0, 2.0, 4.0]], ["dense", [1.0, 2.0, 3.0, 0.0]]]),
    (["tdd", "a", ["sd0", "sd1"], None], [["tdd", "a", ["sd0", "sd1"], ["t", 1]], ["tdd", "a", ["sd0"], None]]),
    (["proj", [0, 2], [0, 1], 4, 3, False], [["proj", [0, 2], [0, 1], 5, 3, False], ["proj", [0, 3], [0, 1], 4, 3, False]]),
]
THOROUGH_FAMILIES = ("scalar", "dense", "variable", "mdvar", "projection")


def cases(tier):
    out = [{"kind": "family", "family": f} for f in families()]
    for op1 in OPS:
        out.append({"kind": "trees", "op": op1, "pool": "small"})
    if tier == "thorough":
        for fam in THOROUGH_FAMILIES:
            for op1 in OPS:
                out.append({"kind": "trees", "op": op1, "pool": fam})
    # order axis: query keys, derive (shift / transpose / negate), query again
    out.append({"kind": "order-leaf"})
    for op1 in OPS:
        out.append({"kind": "order", "op": op1, "tier": tier})
    return out


# ----------------------------------------------------------------------------- order axis

ORDER_LEAVES = [
    ["mdvar", "p", ["sd0", "sd1"], None],
    ["var", "p2", "sd0", None],
    ["tdd", "a", ["sd0", "sd1"], None],
    ["scalar", 2.0],
    ["dense", [1.0, 2.0, 3.0]],
]
SHIFTS = (("t", 1), ("t", 2), ("i", 1), ("i", 2))


def shifted_recipe(r, kind, k):
    """The same tree written with shifted leaves (what op.previous_*(k) must denote)."""
    if r[0] in ("var", "mdvar"):
        return r[:3] + [[kind, k]]
    if r[0] == "tdd":
        return r[:3] + [[kind, k]] if kind == "t" else r
    if r[0] == "tree":
        nops = 1 if r[1] == "d1" else 2
        return r[: 2 + nops] + [shifted_recipe(x, kind, k) for x in r[2 + nops :]]
    return r


def _nodes(op):
    out = [op]
    for c in getattr(op, "children", []):
        out.extend(_nodes(c))
    return out


def _order_tree(out, tree, kind, k):
    """Scenarios (a) query-shift-query, (b) shift-query, (c) query-shift-query-shift-query."""
    ref = shifted_recipe(tree, kind, k)
    k_ref, h_ref = _key_hash(ref)
    k_orig, h_orig = _key_hash(tree)
    ref_nodes = [n._key() for n in _nodes(build(ref))]
    must_differ = ref != tree

    def bad(scn, what, **kw):
        if len(out.violations) < 12:
            out.violate(what, scenario=scn, recipe=tree, shift=[kind, k], **kw)
        else:
            out.extra["violations_not_listed"] = out.extra.get("violations_not_listed", 0) + 1
        out.ev("VIOLATION:order:" + scn)

    def check_shifted(scn, S, T, keys_before):
        kS = S._key()
        if kS != k_ref or hash(S) != h_ref:
            return bad(scn, "shifted tree does not have the key of the same tree built from shifted leaves", observed=kS[:300], expected=k_ref[:300], equals_original_key=bool(kS == k_orig))
        if must_differ and kS == k_orig:
            return bad(scn, "shifted tree shares the key of the original tree", key=kS[:300])
        got_nodes = [n._key() for n in _nodes(S)]
        if got_nodes != ref_nodes:
            return bad(scn, "inner node of the shifted tree has a wrong key", observed=[g[:120] for g in got_nodes], expected=[g[:120] for g in ref_nodes])
        if T._key() != k_orig or hash(T) != h_orig:
            return bad(scn, "key of the original tree changed by deriving the shifted tree", observed=T._key()[:300], expected=k_orig[:300])
        if keys_before is not None and [n._key() for n in _nodes(T)] != keys_before:
            return bad(scn, "key of a node of the original tree changed by the shift")
        return True

    def shift(op, kk):
        return op.previous_timestep(kk) if kind == "t" else op.previous_iteration(kk)

    try:
        # (a) keys and hash of the tree and of every node first (also used as a dict key)
        T = build(tree)
        before = [n._key() for n in _nodes(T)]
        _ = {T: hash(T)}
        if check_shifted("a", shift(T, k), T, before) is True:
            out.ev("order-a-ok", ("oa", repr(tree), kind, k) if must_differ else None)
        # (b) shift first
        T = build(tree)
        if check_shifted("b", shift(T, k), T, None) is True:
            out.ev("order-b-ok")
        # (c) query, shift by 1, query, shift again by k, query
        T = build(tree)
        before = [n._key() for n in _nodes(T)]
        S1 = shift(T, 1)
        k1 = S1._key()
        k1_ref, _ = _key_hash(shifted_recipe(tree, kind, 1))
        S2 = shift(S1, k)
        k2_ref, h2_ref = _key_hash(shifted_recipe(tree, kind, 1 + k))
        if k1 != k1_ref:
            bad("c", "shifted tree does not have the key of the same tree built from shifted leaves", observed=k1[:300], expected=k1_ref[:300])
        elif S2._key() != k2_ref or hash(S2) != h2_ref:
            bad("c", "twice shifted tree does not have the key of the tree built from leaves shifted by the total number of steps", observed=S2._key()[:300], expected=k2_ref[:300])
        elif S1._key() != k1 or T._key() != k_orig or [n._key() for n in _nodes(T)] != before:
            bad("c", "key of an earlier tree changed by a later shift")
        else:
            out.ev("order-c-ok")
    except Exception as exc:
        bad("x", "order scenario raised", error=repr(exc)[:300])


def _order_leaves(out):
    fam = families()
    # Variables, md-variables, time-dependent arrays: query, shift, query
    for r in [x for f in ("variable", "mdvar", "tdd") for x in fam[f] if x[3] is None]:
        for kind, k in SHIFTS:
            ref = shifted_recipe(r, kind, k)
            try:
                L = build(r)
                k0, h0 = L._key(), hash(L)
                S = _shift(L, [kind, k])
                k_ref, h_ref = _key_hash(ref)
                if S._key() != k_ref or hash(S) != h_ref:
                    out.violate("shifted leaf does not have the key of a freshly built shifted leaf", recipe=r, shift=[kind, k], observed=S._key()[:300], expected=k_ref[:300])
                    out.ev("VIOLATION:order:leaf")
                elif ref != r and S._key() == k0:
                    out.violate("shifted leaf shares the key of the original leaf", recipe=r, shift=[kind, k])
                    out.ev("VIOLATION:order:leaf")
                elif L._key() != k0 or hash(L) != h0 or L._key() != _key_hash(r)[0]:
                    out.violate("key of the original leaf changed by deriving the shifted leaf", recipe=r, shift=[kind, k])
                    out.ev("VIOLATION:order:leaf")
                else:
                    out.ev("order-leaf-ok:" + r[0], ("ol", repr(r), kind, k) if ref != r else None)
            except Exception as exc:
                out.violate("order scenario raised", recipe=r, shift=[kind, k], error=repr(exc)[:300])
                out.ev("VIOLATION:order:leaf")
    # Scalars: query, set_value, query (alone and inside a compound tree not yet keyed)
    import operator

    import porepy as pp

    vals = [r[1] for r in fam["scalar"]]
    partner = ["mdvar", "p", ["sd0", "sd1"], None]
    fops = {"add": operator.add, "sub": operator.sub, "mul": operator.mul, "div": operator.truediv, "pow": operator.pow, "matmul": operator.matmul}
    for v1, v2 in itertools.permutations(vals, 2):
        for queried in (True, False):
            try:
                sc = pp.ad.Scalar(v1)
                k0 = sc._key() if queried else pp.ad.Scalar(v1)._key()
                trees = {(o, side): (f(sc, build(partner)) if side == "l" else f(build(partner), sc)) for o, f in fops.items() for side in ("l", "r")}
                sc.set_value(float(v2))
                fresh = pp.ad.Scalar(v2)
                what = None
                if sc._key() != fresh._key() or hash(sc) != hash(fresh):
                    what = "key of a Scalar after set_value is not the key of a fresh Scalar with that value"
                elif sc._key() == k0:
                    what = "key of a Scalar unchanged by set_value to a different value"
                else:
                    for (o, side), T in trees.items():
                        R = fops[o](fresh, build(partner)) if side == "l" else fops[o](build(partner), fresh)
                        if T._key() != R._key() or hash(T) != hash(R):
                            what = "compound tree (key not cached before) over a Scalar changed by set_value does not have the key of the tree over a fresh Scalar"
                            break
                if what:
                    out.violate(what, recipe=["scalar", v1], new_value=v2, key_queried_before=queried, observed=sc._key(), expected=fresh._key())
                    out.ev("VIOLATION:order:set_value")
                else:
                    out.ev("order-leaf-ok:set_value", ("sv", v1, v2, queried))
            except Exception as exc:
                out.violate("order scenario raised", recipe=["scalar", v1], new_value=v2, error=repr(exc)[:300])
                out.ev("VIOLATION:order:set_value")
    # Projections: query, transpose, query
    for r in [x for x in fam["projection"] if not x[5]]:
        P = build(r)
        k0 = P._key()
        PT = P.T
        k_ref = _key_hash(r[:5] + [True])[0]
        if PT._key() != k_ref or P._key() != k0 or (not same_operator(r, r[:5] + [True]) and PT._key() == k0):
            out.violate("transposing a projection after its key was queried gives inconsistent keys", recipe=r, observed=PT._key()[:300], expected=k_ref[:300])
            out.ev("VIOLATION:order:projection")
        else:
            out.ev("order-leaf-ok:proj-transpose", ("ot", repr(r)))
    # Scalars, dense and sparse arrays: query, negate, query
    for f in ["scalar", "dense"] + [x for x in fam if x.startswith("sparse_")]:
        for r in fam[f]:
            A = build(r)
            k0 = A._key()
            N = -A
            k_ref = (-build(r))._key()
            nonzero = r != ["scalar", 0.0]
            if N._key() != k_ref or A._key() != k0 or (nonzero and N._key() == k0):
                out.violate("negating a wrapped constant after its key was queried gives inconsistent keys", recipe=r, observed=N._key()[:300], expected=k_ref[:300])
                out.ev("VIOLATION:order:neg")
            else:
                out.ev("order-leaf-ok:neg", ("on", repr(r)))


def _key_hash(r):
    op = build(r)
    return op._key(), hash(op)


def _ndiff(a, b):
    """Number of differing data between two recipes of the same family (flat compare)."""
    fa, fb = _flat(a), _flat(b)
    if len(fa) != len(fb):
        return 1 if abs(len(fa) - len(fb)) <= 4 else 2
    return sum(1 for x, y in zip(fa, fb) if x != y)


def _flat(r):
    out = []
    for x in r:
        if isinstance(x, list):
            out.append("[")
            out.extend(_flat(x))
            out.append("]")
        else:
            out.append(x)
    return out


def _demand_equal(out, what, r, nviol):
    try:
        k1, h1 = _key_hash(r)
        k2, h2 = _key_hash(r)
    except Exception as exc:
        out.violate("key construction raised", recipe=r, error=repr(exc)[:300])
        out.ev("VIOLATION:raised")
        return
    if k1 != k2 or h1 != h2:
        out.violate("two identical constructions have different keys or hashes", recipe=r, key1=k1[:300], key2=k2[:300])
        out.ev("VIOLATION:unequal")
    else:
        out.ev(f"equal-ok:{what}", ("eq", repr(r)))


def _demand_different(out, what, a, b):
    try:
        ka, _ = _key_hash(a)
        kb, _ = _key_hash(b)
    except Exception as exc:
        out.violate("key construction raised", recipe=[a, b], error=repr(exc)[:300])
        out.ev("VIOLATION:raised")
        return
    if ka == kb:
        out.violate("different operators share a key", recipe_a=a, recipe_b=b, key=ka[:400])
        out.ev(f"VIOLATION:collision:{what}")
    else:
        one = _ndiff(a, b) == 1
        out.ev(f"differ-ok:{what}", ("ne", repr(a), repr(b)) if one else None)


def run_case(case) -> Outcome:
    out = Outcome()
    if case["kind"] == "order-leaf":
        _order_leaves(out)
        return out
    if case["kind"] == "order":
        op1 = case["op"]
        trees = [["tree", "d1", op1, a, b] for a in ORDER_LEAVES for b in ORDER_LEAVES]
        inner = ORDER_LEAVES[:4] if case.get("tier") == "thorough" else [ORDER_LEAVES[0], ORDER_LEAVES[2], ORDER_LEAVES[3]]
        for op2 in OPS:
            for a, b, c in itertools.product(inner, repeat=3):
                trees.append(["tree", "left", op1, op2, a, b, c])
                trees.append(["tree", "right", op1, op2, a, b, c])
        for t in trees:
            for kind, k in SHIFTS:
                _order_tree(out, t, kind, k)
        if not out.samples:
            out.samples.append({"tree": trees[30], "shift": ["t", 1], "rebuilt_from_shifted_leaves": shifted_recipe(trees[30], "t", 1)})
        return out
    if case["kind"] == "family":
        fam = families()[case["family"]]
        for r in fam:
            _demand_equal(out, case["family"], r, 0)
        for a, b in itertools.combinations(fam, 2):
            if same_operator(a, b):
                # e.g. a transposed projection and the same projection written directly:
                # the statement demands neither equality nor difference of the keys
                out.ev("same-operator-other-recipe")
                continue
            _demand_different(out, case["family"], a, b)
        if not out.samples:
            out.samples.append({"family": case["family"], "variants": fam[:3]})
        return out

    # tree templates
    op1 = case["op"]
    if case["pool"] == "small":
        pool = POOL
    else:
        fam = families()[case["pool"]]
        pool = [(r, [x for x in fam if x is not r][:3]) for r in fam[:4]]
    leaves = [p[0] for p in pool]
    muts = {repr(p[0]): p[1] for p in pool}

    def variants_of(tree):
        """All single mutations of a tree recipe."""
        res = []
        shape = tree[1]
        nops = 1 if shape == "d1" else 2
        first_leaf = 2 + nops
        for pos in range(first_leaf, len(tree)):
            for m in muts[repr(tree[pos])]:
                t2 = list(tree)
                t2[pos] = m
                res.append(t2)
        for k in range(nops):
            for o in OPS:
                if o != tree[2 + k]:
                    t2 = list(tree)
                    t2[2 + k] = o
                    res.append(t2)
        # operand swap at the root
        if shape == "d1" and repr(tree[3]) != repr(tree[4]):
            res.append(["tree", "d1", tree[2], tree[4], tree[3]])
        if shape in ("left", "right"):
            other = "right" if shape == "left" else "left"
            res.append(["tree", other] + tree[2:])  # re-nesting with the same leaf order
        return res

    trees = []
    for a in leaves:
        for b in leaves:
            trees.append(["tree", "d1", op1, a, b])
    for op2 in OPS:
        for a, b, c in itertools.product(leaves[:3] if case["pool"] == "small" else leaves[:2], repeat=3):
            trees.append(["tree", "left", op1, op2, a, b, c])
            trees.append(["tree", "right", op1, op2, a, b, c])
    for t in trees:
        _demand_equal(out, "tree-" + t[1], t, 0)
        for t2 in variants_of(t):
            _demand_different(out, "tree-" + t[1], t, t2)
    if not out.samples:
        out.samples.append({"tree": trees[0], "mutations": variants_of(trees[0])[:2]})
    return out


def known_finding(case, viol):
    a, b = viol.get("recipe_a"), viol.get("recipe_b")
    if not a or not b or viol.get("what") != "different operators share a key":
        return None

    def strip_shift(r):
        """Recipe with every time/iterate shift removed."""
        if isinstance(r, list):
            if r and r[0] in ("var", "mdvar", "tdd"):
                return r[:3] + [None]
            return [strip_shift(x) for x in r]
        return r

    if a != b and strip_shift(a) == strip_shift(b):
        return "C45-shift-not-in-key"  # operators differing only in previous_timestep/iteration index
    if a[0] == "projlist" and b[0] == "projlist":
        return "C45-projection-list-key"  # ProjectionList key is built from repr() of its children
    if a[0] == "tdd" and b[0] == "tdd" and a[1] == b[1] and a[2] != b[2]:
        num = lambda ds: [d.lstrip("abcdefghijklmnopqrstuvwxyz") for d in ds]
        if num(a[2]) == num(b[2]):
            # subdomains / interfaces / boundary grids with the same integer ids
            return "C45-domain-type-not-in-key"
    return None
