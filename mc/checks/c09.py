"""C09 - Adaptive time stepping hits every scheduled time.

Engine H: explicit-state breadth-first search over the reachable clock states of the
real ``TimeManager`` of one configuration under every sequence of environment answers
(converged with few / in-range / many iterations, or failed). One transition is one
iteration of the time loop of ``run_time_dependent_model``: ``increase_time``,
``increase_time_index`` and then the *shipped* ``SolutionStrategy`` hook
(``after_nonlinear_convergence`` / ``after_nonlinear_failure``), which issues the
``compute_time_step`` call. States are concrete (un-rounded) clock states extended by the
state of the run-time monitor (``mc.oracles.grpC_tm.Monitor``) that decides the property.

Engine D: the same configurations are run to completion through the real
``run_time_dependent_model`` with 0, 1, 2, ... non-default answers at every placement;
the trace is judged by the same monitor and compared with the loop mirrored by engine H.
"""

from __future__ import annotations

import itertools

from mc.core import Outcome
from mc.oracles import grpC_tm as T

PROPERTY = "C09"
LEVEL = "model_checking"
RULE = (
    "one case = one (schedule, dt_init, dt_min_max kind, relax factors) with all recomputation "
    "parameter combinations; per accepted configuration: (H) BFS from the initial clock "
    "state over all answer sequences (lo/in/hi iterations, fail) up to the depth bound, "
    "states de-duplicated on the exact (time, dt, schedule cursor, recomputation count, "
    "about-to-hit flag) plus monitor state (last accepted time, scheduled times hit, "
    "consecutive failures); a violating or terminal state is not expanded; (D) full runs "
    "of the real run_time_dependent_model with 0, 1, .. k non-default answers at every "
    "placement (k shrinks with the run length, see bounds). states = H-states + distinct final observations (accepted-time "
    "sequences) of D-executions; transitions = H loop iterations + D executions (edges of "
    "the answer tree). An evaluation = one H transition or one D execution; non-trivial "
    "= the step failed, was shortened to a scheduled time, or landed on one; distinct by "
    "(configuration, resulting state)"
)
ASSUMPTIONS = [
    "valid configuration = accepted by the TimeManager constructor (cross-checked with the "
    "documented rules) and dt_init <= first scheduled interval",
    "iteration counts 4 / 5 / 7 represent <= lower endpoint, inside, >= upper endpoint of "
    "the default optimal range (4, 7); the property does not say which count maps to which "
    "adaptation, so only the invariants of the statement are demanded",
    "a scheduled time s counts as hit / the final time as not exceeded up to 10*(rtol*|s| + atol) "
    "with the manager's own rtol 1e-10 and the atol given to its constructor; clock rewind up to "
    "1e-12 relative; no absolute constant enters the monitor (time-unit invariant)",
    "time-scale axis: schedule, dt_init, dt_min_max (and atol, unless the default-atol variant) "
    "are multiplied by a power of two, so the scaled problems are exactly similar to unit scale",
    "a raise on a failed step is accepted when the consecutive failures have used up "
    "recomp_max, or the failed step already used dt == dt_min (documented: recomputation "
    "would have no effect), or dt is constant (no recomputation exists)",
    "for constant_dt the prescribed dt bounds are documented to be bypassed and are not "
    "checked",
    "the loop of run_time_dependent_model is mirrored in the H engine by the three "
    "statements increase_time / increase_time_index / hook; engine D executes the real "
    "loop and demands trace equality with the mirror",
    "a TimeManager's state is its instance __dict__ of immutable values (verified per "
    "configuration); snapshots of it are restored onto the same real object",
]

# ---------------------------------------------------------------------- configuration space

def _schedules(spec):
    """spec = list of (starts, n_intervals, interval alphabet)."""
    out = []
    for starts, ns, ivals in spec:
        for start in starts:
            for n in ns:
                for ivs in itertools.product(ivals, repeat=n):
                    sched = [start]
                    for iv in ivs:
                        sched.append(round(sched[-1] + iv, 10))
                    if sched not in out:
                        out.append(sched)
    return out


TIERS = {
    "quick": dict(
        schedules=[((0.0,), (1, 2), (0.5, 1.0, 0.2)), ((0.0,), (3,), (0.5, 0.2)), ((1.0,), (2,), (0.5, 0.2))],
        fracs=(1.0, 0.5, 0.25),
        dtmm=("wide", "narrow", "tight", "none"),
        relax=((0.5, 2.0), (0.7, 1.3)),
        recomp=((0.5, 2), (0.25, 1)),
        depth=6,
        dev=((10, 2), (10**9, 1)),
        scaled=dict(
            schedules=[((0.0,), (2,), (0.5, 0.2))],
            fracs=(0.5, 0.25),
            dtmm=("wide", "narrow"),
        ),
    ),
    "thorough": dict(
        schedules=[((0.0,), (1, 2), (0.5, 1.0, 0.2, 3.0)), ((0.0,), (3,), (0.5, 0.2, 3.0)), ((0.0,), (4,), (0.5, 0.2)),
                   ((1.0,), (1, 2), (0.5, 1.0, 0.2, 3.0))],
        fracs=(1.0, 0.5, 0.25, 0.2),
        dtmm=("wide", "narrow", "tight", "none"),
        relax=((0.5, 2.0), (0.7, 1.3), (0.9, 1.1)),
        recomp=((0.5, 2), (0.25, 1), (0.5, 3)),
        depth=7,
        dev=((5, 3), (10, 2), (10**9, 1)),
        scaled=dict(
            schedules=[((0.0,), (2, 3), (0.5, 0.2)), ((1.0,), (2,), (0.5, 0.2))],
            fracs=(1.0, 0.5, 0.25),
            dtmm=("wide", "narrow", "none"),
        ),
    ),
}
BOUNDS = {
    "quick": "schedules: start 0 x 1-2 intervals from {0.5,1,0.2}, start 0 x 3 intervals from {0.5,0.2}, "
    "start 1 x 2 intervals from {0.5,0.2}; dt_init = first interval x {1,1/2,1/4}; dt_min_max "
    "{(dt/8,4dt),(dt/2,dt),(dt,first interval),None}; relax {(0.5,2),(0.7,1.3)}; (recomp_factor,recomp_max) "
    "{(0.5,2),(0.25,1)}; constant_dt on compatible schedules; H: all answer sequences up to length 6 (or "
    "closure); D: a run with n solver calls gets one more deviation (every later placement, every kind) while it has < 2 (n <= 10) or < 1 (n > 10) deviations; all runs to the end; "
    "time-scale axis: schedules start 0 x 2 intervals from {0.5,0.2}, dt_init = first x {1/2,1/4}, dt_min_max "
    "{(dt/8,4dt),(dt/2,dt)}, all relax/recomp, times 2^k for k in {-40,-30,-20,10,30} (atol scaled) and k in {-30,-20} with default atol",
    "thorough": "schedules: start 0 x 1-2 intervals from {0.5,1,0.2,3}, start 0 x 3 intervals from {0.5,0.2,3}, "
    "start 0 x 4 intervals from {0.5,0.2}, start 1 x 1-2 intervals from {0.5,1,0.2,3}; dt_init = first interval x "
    "{1,1/2,1/4,1/5}; dt_min_max as quick; relax {(0.5,2),(0.7,1.3),(0.9,1.1)}; (recomp_factor,recomp_max) "
    "{(0.5,2),(0.25,1),(0.5,3)}; constant_dt; H: all answer sequences up to length 7 (or closure); D: a run with n solver "
    "calls gets one more deviation (every later placement, every kind) while it has < 3 (n <= 5), < 2 (n <= 10) or < 1 "
    "(n > 10) deviations; all runs to the end; time-scale axis: schedules start 0 x 2-3 intervals and start 1 x 2 intervals "
    "from {0.5,0.2}, dt_init = first x {1,1/2,1/4}, dt_min_max {(dt/8,4dt),(dt/2,dt),None}, all relax/recomp, times 2^k "
    "for k in {-40,-30,-20,10,30} (atol scaled) and k in {-30,-20} with default atol",
}
# time-scale axis (STRENGTHEN.md, pattern 3): powers of two next to 1e-12, 1e-9, 1e-6, 1e3, 1e9.
# (exponent, atol variant): "scaled" = atol 1e-16*scale passed to the constructor, "default" =
# constructor default 1e-16 (only where it stays << the smallest step: 1e-7 / 1e-10 relative)
SCALES = ((-40, "scaled"), (-30, "scaled"), (-30, "default"), (-20, "scaled"), (-20, "default"),
          (10, "scaled"), (30, "scaled"))
MIN_CLASSES = 8
CHUNK = 6


def _dtmm(kind, dt, first):
    if kind == "wide":
        return [dt / 8, 4 * dt]
    if kind == "narrow":
        return [dt / 2, dt]
    if kind == "tight":
        return [dt, first]
    return None


def cases(tier):
    P = TIERS[tier]
    out = []
    for sched in _schedules(P["schedules"]):
        first = round(sched[1] - sched[0], 10)
        for frac in P["fracs"]:
            dt = first * frac
            for kind in P["dtmm"]:
                for relax in P["relax"]:
                    out.append({"schedule": sched, "dt_init": dt, "dtmm": kind, "relax": list(relax), "tier": tier})
            out.append({"schedule": sched, "dt_init": dt, "dtmm": "constant", "relax": None, "tier": tier})
    S = P["scaled"]
    for exp, atol in SCALES:
        for sched in _schedules(S["schedules"]):
            first = round(sched[1] - sched[0], 10)
            for frac in S["fracs"]:
                for kind in S["dtmm"]:
                    for relax in P["relax"]:
                        out.append({"schedule": sched, "dt_init": first * frac, "dtmm": kind, "relax": list(relax),
                                    "tier": tier, "scale_exp": exp, "atol": atol})
    return out


def _configs(case):
    """Unit-scale configurations of a case; ``_scaled`` multiplies them by the case's scale."""
    for cfg in _unit_configs(case):
        yield _scaled(cfg, case)


def _scaled(cfg, case):
    exp = case.get("scale_exp")
    if exp is None:
        return cfg
    f = 2.0 ** exp
    c = dict(cfg)
    c["schedule"] = [t * f for t in cfg["schedule"]]
    c["dt_init"] = cfg["dt_init"] * f
    if cfg.get("dt_min_max") is not None:
        c["dt_min_max"] = [x * f for x in cfg["dt_min_max"]]
    c["atol"] = 1e-16 * f if case["atol"] == "scaled" else None
    return c


def _unit_configs(case):
    P = TIERS[case["tier"]]
    sched, dt = case["schedule"], case["dt_init"]
    first = round(sched[1] - sched[0], 10)
    if case["dtmm"] == "constant":
        yield {"schedule": sched, "dt_init": dt, "constant_dt": True, "dt_min_max": None}
        return
    for rf, rmax in P["recomp"]:
        yield {
            "schedule": sched,
            "dt_init": dt,
            "constant_dt": False,
            "dt_min_max": _dtmm(case["dtmm"], dt, first),
            "iter_relax_factors": list(case["relax"]),
            "recomp_factor": rf,
            "recomp_max": rmax,
        }


# ---------------------------------------------------------------------- engines

MAX_VIOL_PER_CONFIG = 2


def _history(states, sid, last):
    h = [last]
    while sid is not None:
        _, _, parent, a = states[sid]
        if a is not None:
            h.append(a)
        sid = parent
    return h[::-1]


def _cls(mon_before, mon_after, tm, answer, raised, dt_used, t_attempt):
    if answer == T.FAIL:
        if raised is not None:
            if mon_before.const:
                return "fail/raise:const"
            if mon_before.fails >= mon_before.rmax:
                return "fail/raise:budget"
            return "fail/raise:dtmin"
        return "fail/rewind/" + mon_after.classify_dt(float(tm.time), float(tm.dt))
    if mon_after.done:
        return "acc/final"
    landed = mon_after.hit > mon_before.hit
    return ("acc@sched/" if landed else "acc/") + mon_after.classify_dt(float(tm.time), float(tm.dt))


def _search(cfg, cid, depth_bound, out: Outcome):
    """Engine H. Returns True if the reachable set was closed within the bound."""
    st = T.Stepper(cfg)
    tm = st.tm
    # premise of snapshot/restore: the whole state is a dict of immutable values
    import numpy as np

    for k, v in tm.__dict__.items():
        ok = isinstance(v, (int, float, bool, str, tuple, type(None), np.generic)) or k in (
            "schedule", "exported_dt", "exported_times")
        if not ok:
            raise RuntimeError(f"TimeManager attribute {k!r} of type {type(v)} breaks the snapshot premise")
    sched_copy = np.array(tm.schedule, copy=True)

    answers = (T.IN, T.FAIL) if cfg.get("constant_dt") else T.ANSWERS
    mon0 = T.Monitor(cfg, cfg["schedule"][0], cfg["dt_init"])
    w = mon0.check_dt(mon0.t_last, mon0.dt)
    if abs(float(tm.time) - mon0.t_last) > 0 or float(tm.dt) != mon0.dt:
        w = w or "initial clock is not (schedule[0], dt_init)"
    out.states += 1
    if w:
        out.violate("initial " + w, config=cfg, answers=[])
        out.ev("VIOLATION")
        return True
    states = [(st.snapshot(), mon0, None, None)]
    seen = {T.tm_key(tm) + mon0.key()}
    frontier = [0]
    depth = 0
    nviol = 0
    replayed_parents = set()
    while frontier and depth < depth_bound:
        depth += 1
        nxt = []
        for sid in frontier:
            snap, mon, _, _ = states[sid]
            for a in answers:
                st.restore(snap)
                m = mon.clone()
                t_att, dt_used, exc = st.step(a)
                out.transitions += 1
                vs = T.feed(m, tm, a, t_att, dt_used, exc)
                if vs:
                    nviol += 1
                    out.ev("VIOLATION")
                    if nviol <= MAX_VIOL_PER_CONFIG:
                        out.violate(vs[0], more=vs[1:], config=cfg, answers=_history(states, sid, a),
                                    clock_after={"time": float(tm.time), "dt": float(tm.dt)},
                                    last_accepted=mon.t_last, dt_used=dt_used)
                    continue
                cls = _cls(mon, m, tm, a, exc, dt_used, t_att)
                nontrivial = a == T.FAIL or "sched" in cls or cls == "acc/final"
                k = T.tm_key(tm) + m.key()
                out.ev(cls, (cid, k) if nontrivial else None)
                if m.done:
                    # terminal: replay one terminal history per parent through the real loop
                    if sid not in replayed_parents:
                        replayed_parents.add(sid)
                        _replay_terminal(cfg, _history(states, sid, a), tm, out)
                    continue
                if k in seen:
                    out.extra["merges"] = out.extra.get("merges", 0) + 1
                    continue
                seen.add(k)
                out.states += 1
                states.append((st.snapshot(), m, sid, a))
                nxt.append(len(states) - 1)
        frontier = nxt
        out.max_depth = max(out.max_depth, depth)
    if not np.array_equal(sched_copy, tm.schedule):
        raise RuntimeError("schedule array was mutated")
    if len(out.samples) < 1 and len(states) > 3:
        out.samples.append({"config": cfg, "H_states": len(states), "closed": not frontier,
                            "example_answers": _history(states, len(states) - 1, T.IN)[:-1]})
    return not frontier


def _replay_terminal(cfg, answers, tm_after, out: Outcome):
    """Soundness of snapshot/restore + loop mirror: the history found by the search is
    pushed through the real run_time_dependent_model on a fresh TimeManager."""
    script = dict(enumerate(answers))
    trace, end, tm2 = T.run_real_loop(cfg, script, default=T.IN, step_cap=len(answers))
    out.extra["traces_replayed_on_real_loop"] = out.extra.get("traces_replayed_on_real_loop", 0) + 1
    same = (
        len(trace) == len(answers)
        and end in ("final", "raised")
        and T.tm_key(tm2) == T.tm_key(tm_after)
    )
    if not same:
        raise RuntimeError(
            f"search state and real-loop replay disagree for {cfg} answers={answers}: "
            f"{T.tm_key(tm_after)} vs {T.tm_key(tm2)} end={end} len={len(trace)}"
        )


def _mirror(cfg, answers):
    """The loop as mirrored by engine H, without snapshots (fresh object, straight run)."""
    st = T.Stepper(cfg)
    tr = []
    for a in answers:
        t_att, dt_used, exc = st.step(a)
        tr.append((a, t_att, dt_used, float(st.tm.time), float(st.tm.dt), exc is not None))
        if exc is not None:
            break
    return tr


def _deviations(cfg, cid, budget, out: Outcome):
    """Engine D on the real run_time_dependent_model."""
    const = bool(cfg.get("constant_dt"))
    devs = (T.FAIL,) if const else (T.LO, T.HI, T.FAIL)
    span = cfg["schedule"][-1] - cfg["schedule"][0]
    dt_min = T.prescribed_dt_bounds(cfg)[0] if not const else cfg["dt_init"]
    cap = int(4 * span / dt_min) + 8 * len(cfg["schedule"]) + 50
    stack = [()]
    finals = set()
    nviol = 0
    k = 0
    while stack:
        dev = stack.pop()
        trace, end, tm = T.run_real_loop(cfg, dict(dev), default=T.IN, step_cap=cap)
        out.transitions += 1
        viol, mon = T.monitor_trace(cfg, trace, end)
        answers = [r[0] for r in trace]
        if viol:
            nviol += 1
            out.ev("VIOLATION")
            if nviol <= MAX_VIOL_PER_CONFIG:
                i, what = viol[0]
                out.violate(what, more=[w for _, w in viol[1:]], config=cfg, engine="D",
                            deviations=[list(d) for d in dev], answers=answers[: i + 1],
                            times=[r[1] for r in trace[: i + 1]])
            continue
        mir = _mirror(cfg, answers)
        real = [(r[0], r[1], r[2], r[3], r[4], r[6] is not None) for r in trace]
        if mir != real:
            raise RuntimeError(f"mirrored loop and real loop disagree: cfg={cfg} dev={dev}")
        acc = tuple(r[1] for r in trace if r[0] != T.FAIL and r[6] is None)
        finals.add((acc, end))
        nf = sum(1 for a in answers if a == T.FAIL)
        out.ev(f"D{len(dev)}/{end}/" + ("fails" if nf else "nofail"),
               (cid, "D", dev) if dev else None)
        # deviation budget of a node depends on the length of its own run
        k = next(kk for n, kk in budget if len(trace) <= n)
        if len(dev) < k:
            last = dev[-1][0] if dev else -1
            for p in range(last + 1, len(trace)):
                for a in devs:
                    stack.append(dev + ((p, a),))
    out.states += len(finals)


def run_case(case) -> Outcome:
    out = Outcome()
    P = TIERS[case["tier"]]
    sched, dt = case["schedule"], case["dt_init"]
    first = round(sched[1] - sched[0], 10)
    assert dt <= first * (1 + 1e-12)  # the initial step fits in the first scheduled interval
    for j, cfg in enumerate(_configs(case)):
        cid = (tuple(sched), dt, case["dtmm"], tuple(case["relax"] or ()), j, case.get("scale_exp"), case.get("atol"))
        valid, why = T.documented_valid(cfg)
        try:
            T.make_tm(cfg)
            accepted = True
        except ValueError as e:
            accepted = False
            msg = str(e)
        if accepted != valid:
            raise RuntimeError(f"constructor and documented validity disagree on {cfg}: documented={valid} {why}")
        if not accepted:
            out.ev("rejected:" + why)
            continue
        t0 = out.transitions
        nv0 = len(out.violations)
        closed = _search(cfg, cid, P["depth"], out)
        out.extra["H_closed_configs" if closed else "H_depth_bounded_configs"] = (
            out.extra.get("H_closed_configs" if closed else "H_depth_bounded_configs", 0) + 1)
        h_tr = out.transitions - t0
        if len(out.violations) == nv0:
            _deviations(cfg, cid, P["dev"], out)
        out.extra["H_transitions"] = out.extra.get("H_transitions", 0) + h_tr
        out.extra["D_executions"] = out.extra.get("D_executions", 0) + (out.transitions - t0 - h_tr)
        out.extra["configs_explored"] = out.extra.get("configs_explored", 0) + 1
    return out


def known_finding(case, viol):
    return None
