"""C02 — operator-tree evaluation matches direct forward-mode evaluation.

Engine E (programs): every operator tree of depth <= 2 over the leaf alphabet of
``mc.oracles.grpA_opexpr`` (variables of all kinds, shifted variables, wrapped and plain
scalars / arrays / sparse matrices on either side, projections, wrapped functions,
previous_timestep / previous_iteration applied to whole trees) is built with the real
Python operators and evaluated through ``EquationSystem.evaluate``; the result is compared
with the mathematical meaning of the tree computed independently on the state vector.
"""

from __future__ import annotations

import numpy as np

from mc.core import Outcome
from mc.oracles import grpA_opexpr as O

PROPERTY = "C02"
LEVEL = "exploration"
RULE = (
    "all shape-consistent trees leaf1 op leaf2, -leaf, F(leaf), maximum(leaf1, leaf2) over "
    "the full leaf alphabet (depth 1), and all trees obtained by combining every depth-1 "
    "tree over the reduced leaf alphabet with root in {+,*,/,@,Function} with one more "
    "leaf of the full alphabet on either side, unary minus, Function, previous_timestep(k) "
    "and previous_iteration(k), k in {1,2}, and a shifted copy of it combined with a "
    "current leaf (depth 2); sums / differences / products f(a) o g(a') of every ordered pair of "
    "different wrapped functions (exp sin log abs, user lambda) over key-identical arguments "
    "(same variable, structurally equal sub-expressions built twice), as they are and under "
    "previous_timestep(1,2), previous_iteration(1,2), pp.ad.time_increment, pp.ad.dt and "
    "combined with a current leaf; each on every md-grid, with an explicit state vector and "
    "with the stored state. Trees without a pp.ad.Operator operand, and combinations "
    "without a defined meaning (shape mismatch, vector @ anything, elementwise arithmetic "
    "with projections or plain scipy matrices) are not programs. Non-trivial = distinct "
    "(program, grid) that mixes at least two leaf kinds or two operations and is evaluated "
    "inside its smooth domain"
)
ASSUMPTIONS = [
    "the position of a variable's degrees of freedom in the state vector is taken from EquationSystem.dofs_of (DOF layout is property C05)",
    "reference value/Jacobian = complex-step derivative of an independent numpy evaluation of the tree's mathematical meaning (oracle shared with C01, validated against sympy there)",
    "previous_timestep(k) / previous_iteration(k) refer to storage index k-1; a shifted sub-tree is a constant",
    "tolerance 1e-9 x largest magnitude in the reference evaluation; value with/without derivative compared at 1e-12 x scale",
    "the 'same Python expression on initAdArrays slices' comparison of the design is subsumed by the mathematical oracle (C01 checks AdArray arithmetic against the same oracle)",
]
BOUNDS = {
    "quick": "depth 1 on three md-grids (single Cartesian 2x1; 2x2 with one fracture = 2 subdomains + interface; 1-d line) with explicit and stored state; depth 2 on the fractured grid with an explicit state",
    "thorough": "depth <= 2 as in RULE on all three md-grids, 2 state modes",
}
MIN_CLASSES = 6
TOL = 1e-9


def cases(tier):
    out = []
    for g in O.GRIDS:
        for name in O.leaf_names(g):
            out.append({"kind": "d1", "grid": g, "first": name})
    d2_grids = ("frac",) if tier == "quick" else O.GRIDS
    for g in d2_grids:
        for i in range(len(O.inner_programs(g))):
            out.append({"kind": "d2", "grid": g, "inner": i, "tier": tier})
        for i in range(len(O.FN_ARGS)):
            out.append({"kind": "fnsum", "grid": g, "arg": i, "tier": "thorough"})
    return out


def _programs(case):
    g = case["grid"]
    if case["kind"] == "d1":
        f = case["first"]
        return [p for p in O.depth1(g) if O.leaves_in(p)[0] == f]
    if case["kind"] == "fnsum":
        return O.fn_sum_programs(g, O.FN_ARGS[case["arg"]])
    inner = O.inner_programs(g)[case["inner"]]
    return O.depth2_for_inner(g, inner, case.get("tier", "quick"))


def _cls(p):
    return p[1] if p[0] == "bin" else p[0]


def run_case(case) -> Outcome:
    import porepy as pp

    out = Outcome()
    ctx = O.context(case["grid"])
    eqs = ctx.eqs
    nviol = 0
    for p in _programs(case):
        kind, size, _, has_ad, has_shift = O.typ(p, case["grid"])
        if kind not in ("vec", "scalar"):
            continue  # matrix-valued roots only occur as inner nodes
        modes = ("explicit",) if (case["kind"] == "d2" and case.get("tier") == "quick") else ("explicit", "stored")
        for mode in modes:
            state = ctx.state if mode == "explicit" else ctx.state0
            orc = O.Meaning(ctx, state)
            try:
                val, jac = orc.run(p)
            except O.Skip as s:
                out.ev("skipped:" + s.why)
                continue
            bad = None
            try:
                with np.errstate(all="ignore"):
                    op = O.build(p, ctx)
                    if not isinstance(op, pp.ad.Operator):
                        bad = ("expression did not build a pp.ad.Operator", {"type": type(op).__name__})
                    else:
                        arg = state.copy() if mode == "explicit" else None
                        r = eqs.evaluate(op, True, arg)
                        r0 = eqs.evaluate(op, False, arg)
                if bad is None:
                    scale = orc.scale
                    if not isinstance(r, pp.ad.AdArray):
                        bad = ("evaluate(derivative=True) did not return an AdArray", {"type": type(r).__name__})
                    else:
                        J = r.jac.toarray() if hasattr(r.jac, "toarray") else np.asarray(r.jac)
                        v0 = np.ravel(np.asarray(r0, dtype=float)) if not hasattr(r0, "toarray") else None
                        if r.val.shape != val.shape or J.shape != jac.shape:
                            bad = ("wrong shape", {"val_shape": list(r.val.shape), "jac_shape": list(J.shape), "expected": [list(val.shape), list(jac.shape)]})
                        elif not np.all(np.abs(r.val - val) <= TOL * scale):
                            bad = ("value differs from the meaning of the tree", {"observed": r.val, "expected": val})
                        elif not np.all(np.abs(J - jac) <= TOL * scale):
                            bad = ("Jacobian differs from the meaning of the tree", {"observed": J, "expected": jac})
                        elif v0 is None or v0.shape != val.shape or not np.all(np.abs(v0 - r.val) <= 1e-12 * scale):
                            bad = ("value without derivative differs from value with derivative", {"without": v0, "with": r.val})
                        elif not has_ad:
                            jz = r.jac.copy()
                            if hasattr(jz, "eliminate_zeros"):
                                jz = jz.tocsr()
                                jz.eliminate_zeros()
                            if jz.nnz != 0:
                                bad = ("constant / shifted tree has a non-zero Jacobian", {"nnz": int(jz.nnz)})
            except Exception as exc:
                bad = ("building or evaluating raised", {"error": repr(exc)[:400]})
            if bad is not None:
                nviol += 1
                if nviol <= 12:
                    out.violate(bad[0], program=O.show(p), ast=p, grid=case["grid"], mode=mode, **bad[1])
                out.ev("VIOLATION:" + bad[0])
                continue
            kinds = {O.LEAVES[n][0] + ("/plain" if O.LEAVES[n][2] else "") for n in O.leaves_in(p)}
            key = (O.show(p), case["grid"]) if (len(kinds) >= 2 or len(O.ops_in(p)) >= 2) else None
            tag = "ad" if has_ad else ("shifted" if has_shift else "const")
            plain_left = p[0] == "bin" and p[2][0] == "leaf" and O.LEAVES[p[2][1]][2]
            out.ev(f"ok:{_cls(p)}:{tag}:{'plain-left' if plain_left else 'op-left'}", key)
            if not out.samples and key is not None and has_ad and has_shift:
                out.samples.append({"program": O.show(p), "grid": case["grid"], "mode": mode, "value": val.tolist()})
    if nviol > 12:
        out.extra["violations_not_listed"] = nviol - 12
    return out


def known_finding(case, viol):
    return None
