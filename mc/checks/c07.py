"""C07 — Schur complement reduction reproduces the full solution.

Engine H over short histories + engine E over splits: an operation is one
``assemble_schur_complement_system(split, inverter, state)`` followed by a dense solve of the
reduced system and ``expand_schur_complement_solution`` (called three times on the same
assembled system: x_p, an unrelated vector, x_p again; first and last result are compared
with the reference; arguments and returned reduced system must stay bitwise unchanged). Histories of one operation on a
fresh ``EquationSystem`` enumerate *every* admissible split; histories of two (thorough:
three) operations on the *same* ``EquationSystem`` enumerate all ordered pairs over a
history alphabet (all whole-equation/whole-variable splits, some grid-restricted ones, two
linearisation states of which one makes a derivative inside the secondary block vanish
exactly, so that the sparsity pattern of A_ss differs between the two states).

Reference: dense ``numpy.linalg.solve`` of the fully assembled system at the same state.
A split is admissible when primary rows and columns have the same positive count, the
secondary block is non-empty and the dense secondary block ``J[rows_s][:, cols_s]``
(reference row/column bookkeeping from grid sizes) has condition number <= 1e4.
"""

from __future__ import annotations

import itertools

import numpy as np

from mc.core import Abort, Outcome, bfs
from mc.oracles import grpB_schur as gs

PROPERTY = "C07"
LEVEL = "model_checking"
RULE = (
    "systems: cell-wise variables a,b,c (+ interface variable lam on G1) created in every order, "
    "cell-local equations q_a,q_b,q_c (+ q_lam, + one non-local coupling) set in every order; an "
    "operation = (split, inverter in default/dense, state in s0/s1) executed on the real "
    "EquationSystem followed by dense solve of the reduced system and expansion; depth-1 "
    "histories on a fresh object: every admissible split (per equation: absent or any subset of "
    "its grids incl. the empty one; any atomic-variable subset of matching size); depth-2 (-3) "
    "histories on one object: all ordered pairs (triples) over the history alphabet; one case = "
    "(system, chunk of splits) or (system, first operation); non-trivial = the secondary block is "
    "not a diagonal matrix; distinct by (system, history)"
)
ASSUMPTIONS = [
    "admissibility is decided on the dense reference: equal positive primary row/column counts, "
    "non-empty secondary block, cond(A_ss) <= 1e4; other splits are counted as skipped",
    "comparison |X - X_ref|_inf <= 1e-9 * max(1, |X_ref|_inf); measured floor on the unchanged "
    "tree 3e-13 (cond(J) ~ 10)",
    "no abstraction: the canonical state of a history is the history itself (depth <= 3)",
    "the reduced system is solved with dense numpy.linalg.solve (not part of the code under test)",
]
BOUNDS = {
    "quick": "G0 (3 cells): 36 creation/set orders x 18 whole splits x default@s1, 2 orders x all 54 splits x {default@s1, dense@s1, default@s0} at depth 1; depth 2 over 24 operations on 2 systems; G1 (md): 38 whole + 3 restricted splits x 3 at depth 1, depth 2 over 26 operations on 1 system; GX (4 variables, 9 states with equal per-row non-zero counts in different columns): depth 2 over 15 operations on 1 system",
    "thorough": "G0: 36 orders x 54 splits x 4 (inverter, state) at depth 1, depth 2 over 36 operations on 6 systems, depth 3 over 9 operations on 1 system; G1: all 5494 splits x {default@s1, dense@s1, default@s0} on one system at depth 1, depth 2 over 82 operations on one system; GX: depth 2 over 27 operations (3 splits x 9 states) on 2 systems",
}
MIN_CLASSES = 4
CHUNK = 1
TOL = 1e-9
COND_MAX = 1e4

PERMS = ["".join(p) for p in itertools.permutations("abc")]


def _hist_alphabet(grid, vo, eo, rich):
    ws = gs.whole_splits(grid, vo, eo)
    if not rich and grid == "G1":
        ws = ws[::2]
    ws = ws + gs.restricted_samples(grid, vo, eo)
    ops = [{"split": s, "inv": "default", "state": "s1"} for s in ws]
    s0 = ws if rich else (ws[:6] if grid == "G0" else ws[:4])
    ops += [{"split": s, "inv": "default", "state": "s0"} for s in s0]
    return ops


def cases(tier):
    out = []
    rich = tier == "thorough"
    all_combos = [("default", "s1"), ("dense", "s1"), ("default", "s0"), ("dense", "s0")]
    # ---- depth 1, G0: every creation/set order, every split
    for vo in PERMS:
        for eo in PERMS:
            sp = gs.all_splits("G0", vo, eo)
            if rich:
                combos = all_combos
            elif (vo, eo) in (("abc", "abc"), ("cab", "bca")):
                combos = all_combos[:3]
            else:
                combos = all_combos[:1]
                sp = gs.whole_splits("G0", vo, eo)
            ops = [{"split": s, "inv": i, "state": st} for s in sp for i, st in combos]
            for k in range(0, len(ops), 108):
                out.append({"sys": ["G0", vo, eo], "prefix": [], "alphabet": ops[k:k + 108], "depth": 1})
    # ---- depth 1, G1
    g1_systems = [("cab", "bca")] if rich else [("bca", "cab")]
    for vo, eo in g1_systems:
        sp = gs.all_splits("G1", vo, eo) if rich else gs.whole_splits("G1", vo, eo) + gs.restricted_samples("G1", vo, eo)
        ops = [{"split": s, "inv": i, "state": st} for s in sp for i, st in all_combos[:3]]
        for k in range(0, len(ops), 120):
            out.append({"sys": ["G1", vo, eo], "prefix": [], "alphabet": ops[k:k + 120], "depth": 1})
    # ---- depth 2: all ordered pairs over the history alphabet (one case per first operation)
    if rich:
        h_systems = [("G0", vo, eo) for vo, eo in zip(PERMS, PERMS[3:] + PERMS[:3])]
        h_systems += [("G1", "cab", "bca")]
    else:
        h_systems = [("G0", "abc", "abc"), ("G0", "cab", "bca"), ("G1", "bca", "cab")]
    for grid, vo, eo in h_systems:
        alpha = _hist_alphabet(grid, vo, eo, rich)
        for first in alpha:
            out.append({"sys": [grid, vo, eo], "prefix": [first], "alphabet": alpha, "depth": 2})
    # ---- depth 2 on GX: same / equally shaped secondary blocks whose non-zeros sit in
    # different columns with identical counts per row (which coupling vanishes in which cell)
    for vo, eo in ([("abcd", "abcd"), ("dbca", "cadb")] if rich else [("dbca", "cadb")]):
        sp = gs.swap_splits(vo, eo)
        alpha = [{"split": sp[0], "inv": "default", "state": st} for st in gs.SWAP_STATES]
        for s_ in sp[1:]:
            sts = gs.SWAP_STATES if rich else ["tf", "t010", "t101"]
            alpha += [{"split": s_, "inv": "default", "state": st} for st in sts]
        for first in alpha:
            out.append({"sys": ["GX", vo, eo], "prefix": [first], "alphabet": alpha, "depth": 2})
    # ---- depth 3 on G0 (thorough): one case per first two operations
    if rich:
        vo, eo = "cab", "bca"
        alpha = [{"split": s, "inv": "default", "state": "s1"} for s in gs.whole_splits("G0", vo, eo)[::2]]
        for first in alpha:
            for second in alpha:
                out.append({"sys": ["G0", vo, eo], "prefix": [first, second], "alphabet": alpha, "depth": 3})
    return out


def _dense_inverter(A):
    import scipy.sparse as sps

    return sps.csr_matrix(np.linalg.inv(A.toarray()))


class Run:
    """A fresh system with a history of Schur operations replayed on it."""

    def __init__(self, sysid):
        self.L = gs.LocalSystem(*sysid)
        self.results: list = []  # per op: ("ok", X) | ("exc", repr)
        self.hist: list = []

    def step(self, op):
        L = self.L
        k = len(self.hist)
        self.hist.append(op)
        split = op["split"]
        variant = sum(len(e) for e, _ in split["eqs"]) + 3 * len(split["vars"]) + k
        try:
            eq_arg = L.eq_arg(split, variant)
            var_arg = L.var_arg(split, variant)
        except Exception as e:  # harness
            raise RuntimeError(f"harness: cannot build arguments for {split}: {e!r}")
        # the state kept in storage is passed explicitly or implicitly, all others explicitly
        state = L.states[op["state"]].copy() if (op["state"] != L.stored_key or variant % 2) else None
        state_before = None if state is None else state.copy()
        try:
            S, rhs = L.es.assemble_schur_complement_system(
                eq_arg, var_arg, inverter=(_dense_inverter if op["inv"] == "dense" else None), state=state)
            Sd = S.toarray() if hasattr(S, "toarray") else np.asarray(S)
            rhs0 = np.array(rhs, dtype=float, copy=True)
            xp = np.linalg.solve(Sd, rhs0)
            xp0 = xp.copy()
            # the expansion belongs to the *last assembled* system, however often and with
            # whatever argument it is called: expand x_p, expand something else, expand x_p
            X = np.asarray(L.es.expand_schur_complement_solution(xp), dtype=float).copy()
            L.es.expand_schur_complement_solution(2.0 * xp0 + 1.0)
            X2 = np.asarray(L.es.expand_schur_complement_solution(xp), dtype=float).copy()
            self.results.append(("ok", X, X2))
            # purity of the arguments / returned objects
            if state is not None and not np.array_equal(state, state_before):
                self.results[-1] = ("impure", "assemble_schur_complement_system modified the state argument")
            elif not np.array_equal(xp, xp0):
                self.results[-1] = ("impure", "expand_schur_complement_solution modified its argument")
            elif not np.array_equal(np.asarray(rhs, dtype=float), rhs0) or not np.array_equal(
                    S.toarray() if hasattr(S, "toarray") else np.asarray(S), Sd):
                self.results[-1] = ("impure", "expansion modified the reduced system returned by the assembly")
        except Exception as e:  # noqa
            self.results.append(("exc", repr(e)))


def run_case(case) -> Outcome:
    out = Outcome()
    sysid = tuple(case["sys"])
    prefix = case["prefix"]
    alphabet = case["alphabet"]

    # dense references of this (deterministic) system
    L0 = gs.LocalSystem(*sysid)
    full = {sk: L0.full(sk) for sk in L0.states}
    for sk, (J, r) in full.items():
        if J.shape[0] != J.shape[1] or J.shape[0] != L0.N or not np.linalg.cond(J) < 1e6:
            raise RuntimeError("harness: full system is not square and well conditioned")
    xref = {sk: np.linalg.solve(J, r) for sk, (J, r) in full.items()}
    adm_cache: dict = {}

    def admissible(op):
        key = (repr(op["split"]), op["state"])
        if key not in adm_cache:
            J, _ = full[op["state"]]
            pr, pc = L0.primary_rows(op["split"]), L0.primary_cols(op["split"])
            sr = np.setdiff1d(np.arange(J.shape[0]), pr)
            sc = np.setdiff1d(np.arange(J.shape[1]), pc)
            info = {"ok": False, "why": "", "diag": True, "nblocks": 0}
            if len(pr) != len(pc) or len(pr) == 0 or len(sr) == 0 or len(sr) != len(sc):
                info["why"] = "shape"
            else:
                Ass = J[sr][:, sc]
                c = np.linalg.cond(Ass)
                if not c <= COND_MAX:
                    info["why"] = "cond"
                else:
                    info["ok"] = True
                    info["diag"] = bool(np.count_nonzero(Ass - np.diag(np.diag(Ass))) == 0)
                    info["ns"] = len(sr)
            adm_cache[key] = info
        return adm_cache[key]

    nskip = sum(0 if admissible(op)["ok"] else 1 for op in alphabet)
    if nskip:
        out.ev("skipped:secondary-block-singular-or-ill-conditioned", None, n=nskip)
    ops_ok = [op for op in alphabet if admissible(op)["ok"]]

    for op in prefix:
        if not admissible(op)["ok"]:
            out.ev("skipped:first-operation-not-admissible")
            return out

    def build(hist):
        run = Run(sysid)
        for op in list(prefix) + list(hist):
            run.step(op)
        return run

    def enabled(st, hist):
        return ops_ok

    def canon(st):
        return tuple(repr(o) for o in st.hist)

    def check(st, hist, o: Outcome):
        if not st.hist:
            o.ev("root")
            return
        op = st.hist[-1]
        info = admissible(op)
        res = st.results[-1]
        kind = res[0]
        desc = dict(system=list(sysid), history=st.hist)
        cls = "depth%d/%s/%s" % (len(st.hist), op["inv"], op["state"])
        if len(st.hist) >= 2:
            prev = st.hist[-2]
            if prev["split"] == op["split"]:
                cls += "/same-split" + ("" if prev["state"] == op["state"] else "-other-state")
            else:
                cls += "/other-split" + ("/size-change" if admissible(prev)["ns"] != info["ns"] else "")
        if sysid[0] == "GX" and len(st.hist) >= 2:
            cls += "/swap-columns" if st.hist[-2]["state"] != op["state"] else "/same-state"
        restricted = any(sorted(r) != gs.eq_ranks(sysid[0], e) for e, r in op["split"]["eqs"])
        cls += "/restricted" if restricted else "/whole"
        bad = False
        if kind == "exc":
            o.violate("Schur complement assembly / expansion raised on an admissible split", error=res[1], **desc)
            bad = True
        elif kind == "impure":
            o.violate(res[1], **desc)
            bad = True
        else:
            Xr = xref[op["state"]]
            worst = 0.0
            for which, val in (("first expansion", res[1]), ("repeated expansion of the same assembled system", res[2])):
                if val.shape != Xr.shape:
                    o.violate("expanded solution has the wrong size", which=which, got_shape=list(val.shape),
                              expected_shape=list(Xr.shape), **desc)
                    bad = True
                    break
                err = float(np.abs(val - Xr).max() / max(1.0, np.abs(Xr).max()))
                worst = max(worst, err)
                if not err <= TOL:
                    o.violate("expanded Schur solution differs from the solution of the full system",
                              which=which, rel_error=err, expected=Xr, got=val, **desc)
                    bad = True
                    break
            if not bad:
                cls += "/err<1e-12" if worst < 1e-12 else "/err<1e-9"
        if bad:
            cls = "VIOLATION"
        key = (sysid, canon(st)) if not info["diag"] else None
        o.ev(cls, key)
        if not o.samples and len(st.hist) == 2 and st.hist[0]["split"] != st.hist[1]["split"]:
            o.samples.append({"system": list(sysid), "history": st.hist})

    bfs(build=build, enabled=enabled, canon=canon, check=check, observe=None,
        max_depth=case["depth"] - len(prefix), out=out, label=f"C07 {sysid}")
    return out


def known_finding(case, viol):
    return None
