"""C11 — MPFA reproduces linear pressure fields exactly.

Engine E. One evaluation = one call of the real ``pp.Mpfa.discretize`` for one letter
(grid, node perturbation / affine image, permeability, eta, inverter, Dirichlet/Neumann
assignment), followed by applying the stored matrices to the basis {1, x, y[, z]} of the
linear fields and comparing with the closed-form Darcy flux ``-n_f . K grad p`` on every
face and with ``p(x_f)`` on every boundary face. Matrices are applied, never inverted,
so all-Neumann assignments are ordinary members of the space.

Further letters: periodic grids (``set_periodic_map`` on tensor grids with uneven spacing;
fields restricted to those that are periodic themselves: the constant and the coordinates
of the non-periodic axes), a scale axis (all node coordinates x 1e-3 / 1e3, tolerances
relative to the scale) and the non-default scalar eta 0.25. Every evaluation carries a
purity oracle (bitwise digest of grid, tensor, boundary condition around ``discretize``)
and every 4th assignment a reuse oracle (a second ``discretize`` on the same data dictionary
reproduces the matrices exactly).
"""

from __future__ import annotations

import numpy as np

from mc.core import Outcome
from mc.oracles import grpE_flow as F
from mc.oracles import grpE_grids as G

PROPERTY = "C11"
LEVEL = "exploration"
RULE = (
    "mixed-radix enumeration of (grid letter x node-offset pattern / affine image x K x eta x "
    "inverter x Dirichlet/Neumann assignment); the linear pressure space is covered by its "
    "basis {1,x,y[,z]} (the discretization is linear in p and in the boundary data). One "
    "evaluation = one Mpfa.discretize + all basis fields. Non-trivial = the assignment has "
    "both Dirichlet and Neumann faces and the letter is not the symmetric one (K != I, or "
    "perturbed / affine / simplex grid); distinct by (grid, K, eta, inverter, assignment)."
)
ASSUMPTIONS = [
    "faces are planar: node perturbation only for 2-d grids and simplices, hexahedra only under affine maps",
    "Neumann data = outward flux integrated over the face (sign from the cell-face incidence); "
    "Dirichlet data = p at the face centre",
    "K constant, SPD, cond <= 10; offsets 0.1 h; tolerance 1e-10 * |K| |n| (1 + |x|/h) for fluxes "
    "(measured floor 2e-14), 1e-10 * (1 + |x|) for boundary pressures (floor 2e-15)",
]
BOUNDS = {
    "quick": (
        "2-d. Block A (python inverter, default eta, all 2^|dF| assignments): C(2,2) and T(2,2) with the "
        "interior node on all 9 offsets {0,+-0.1}^2, K in {full, rot}; C(3,2) with 2 two-node patterns, K=full "
        "(1024 assignments each). Block B (K in {I,diag,full,rot} x [eta in {default,0,1/3} with the python "
        "inverter, default eta with the numba inverter]): 7 grid letters (Cartesian/triangle, unperturbed, perturbed, affine) x (16 side-wise "
        "assignments U all single-face flips of all-Dir and all-Neu). Block P (periodic map): Tensor 2x2 /per-x, /per-y, "
        "Tensor 3x2 /per-xy, C(3,3) /per-y, Tensor 3x2 /per-y *1e3 x 4 K x default eta x all assignments. Block S: "
        "scale 1e-3 / 1e3 on perturbed letters and eta = 0.25. Purity digest on every evaluation, reuse on every 4th. Block F (partition_arguments in {num_subproblems 2, 3, max_memory "
        "forcing 2 parts}, K=full, python, side-wise U single flips; 3-d: 2 parts, side-wise only): C(2,2), C(2,2)~, C(3,2)~@shear, C(3,3), C(4,2), T(2,2), T(2,2)~, "
        "C(2,2,2), C(2,2,2)@shear, Tet(1,1,1)~, one embedded and one numba case; oracle = exactness of the split matrices AND equality "
        "(1e-12) of every stored matrix with an unsplit discretization on separate parameter objects. Block E (2-d grids rotated into tilted planes rx45 / gen / gen2 "
        "and translated; K in {Q K_plane Q^T, full 3x3, rotated 3x3}; fields linear in the 3-d coordinates; oracle with the "
        "tangential gradient): C(2,2), T(2,2), perturbed and affine variants, C(3,2)~ *1e-3. Block D (3-d, python "
        "inverter, default eta, K in {diag, full}, side-wise (64) U single flips): C(2,2,2), C(2,2,2)@shear, Tensor 2x2x2 uneven, "
        "Prism(1,1;2 layers) and its affine image, Tet(1,1,1)~; C(2,2,2)@rotscale with numba."
    ),
    "thorough": (
        "quick + Block B with the full eta x inverter product; Block A with all 4 K and eta in {default,0,1/3}; C(3,2): all 81 two-node patterns x (side-wise U "
        "single U pair flips) and 9 patterns x all 1024; 3-d: Tet(1,1,1) (3 node patterns, all 4096 assignments), "
        "Tet(2,1,1) (27 offsets of a mid-plane node), Tet(2,2,2) (interior node, 7 offsets), C(2,2,2) under "
        "{id, shear, rotscale}: side-wise (64) U single U pair flips; K x eta x inverter product on side-wise U "
        "single flips."
    ),
}
MIN_CLASSES = 6
CHUNK = 4

TOL = 1e-10

ETAS = [None, 0.0, 1.0 / 3.0]


def _aset_size(spec, aset):
    nb = G.num_boundary_faces(spec)
    dim = len(spec["coords"]) if spec["kind"] == "Tensor" else (3 if spec["kind"] == "Prism" else len(spec["n"]))
    if aset == "all":
        return 1 << nb
    n = 1 << (2 * dim)
    if aset in ("flip1", "flip2"):
        n += 2 * nb  # upper bound (a few coincide with side-wise ones)
    if aset == "flip2":
        n += nb * (nb - 1)
    return n


def _emit(out, spec, K, eta, inv, aset, per_case, partition=None):
    size = _aset_size(spec, aset)
    nch = max(1, (size + per_case - 1) // per_case)
    for i in range(nch):
        c = {"grid": spec, "K": K, "eta": eta, "inv": inv, "aset": aset, "chunk": [i, nch]}
        if partition is not None:
            c["partition"] = partition
        out.append(c)


def cases(tier):
    out: list = []
    c22 = lambda **kw: dict({"kind": "C", "n": [2, 2]}, **kw)  # noqa: E731
    t22 = lambda **kw: dict({"kind": "T", "n": [2, 2]}, **kw)  # noqa: E731
    c32 = lambda **kw: dict({"kind": "C", "n": [3, 2]}, **kw)  # noqa: E731
    offs2 = G.offsets(2)

    # ---- Block A: all assignments
    ks = ["full", "rot"] if tier == "quick" else list(G.K_LETTERS)
    etas = [None] if tier == "quick" else ETAS
    for mk in (c22, t22):
        for o in offs2:
            spec = mk(pert=[[4, o]]) if any(o) else mk()
            for K in ks:
                if tier == "quick" and K == "rot" and o not in ([0, 0], [1, -1], [0, 1]):
                    continue  # quick: the second tensor on 3 of the 9 offsets
                for eta in etas:
                    _emit(out, spec, K, eta, "python", "all", 128)
    for pat in ([[5, [1, -1]], [6, [0, 1]]], [[5, [-1, -1]], [6, [1, 1]]]):
        _emit(out, c32(pert=pat), "full", None, "python", "all", 128)

    # ---- Block B: parameter product on a reduced assignment set
    letters = [
        c22(),
        c22(pert=[[4, [1, -1]]]),
        c22(affine="shear"),
        t22(),
        t22(pert=[[4, [-1, 1]]]),
        t22(affine="rotscale"),
        c32(pert=[[5, [1, 0]], [6, [-1, 1]]]),
    ]
    for spec in letters:
        for K in G.K_LETTERS:
            for eta in ETAS:
                for inv in ("python", "numba"):
                    if tier == "quick" and inv == "numba" and eta is not None:
                        continue  # quick: numba (the default inverter) with the default eta only
                    _emit(out, spec, K, eta, inv, "flip1", 40)

    # ---- Block P: periodic grids (uneven spacing), all assignments of the remaining boundary
    T22 = {"kind": "Tensor", "coords": [[0, 1, 3], [0, 2, 3]]}
    T32 = {"kind": "Tensor", "coords": [[0, 0.5, 2, 3], [0, 1, 1.5]]}
    for spec in (dict(T22, periodic=[0]), dict(T22, periodic=[1]), dict(T32, periodic=[0, 1]),
                 {"kind": "C", "n": [3, 3], "periodic": [1]}, dict(T32, periodic=[1], scale=1e3)):
        for K in G.K_LETTERS:
            # default eta only: a non-zero eta together with a periodic map is outside the statement
            _emit(out, spec, K, None, "python", "all", 64)
        _emit(out, spec, "full", None, "numba", "all", 64)

    # ---- Block S: scale axis and a non-default scalar eta
    for spec in (c22(pert=[[4, [1, -1]]], scale=1e-3), t22(pert=[[4, [-1, 1]]], scale=1e3),
                 c32(pert=[[5, [1, 0]], [6, [-1, 1]]], scale=1e-3), c22(scale=1e3), T22):
        for K in ("full", "rot"):
            for eta in (None, 0.25):
                _emit(out, spec, K, eta, "python", "flip1", 40)
        _emit(out, spec, "rot", 0.25, "numba", "flip1", 40)

    # ---- Block F: configuration axis partition_arguments (split discretization) on small grids, where the overlapped
    # sub-grids span (almost) the whole grid: exactness of the split matrices + equality with the unsplit ones
    small = [c22(), c22(pert=[[4, [1, -1]]]), c32(pert=[[5, [1, -1]], [6, [0, 1]]], affine="shear"), {"kind": "C", "n": [3, 3]},
             {"kind": "C", "n": [4, 2]}, t22(), t22(pert=[[4, [-1, 1]]]), {"kind": "C", "n": [2, 2, 2]},
             {"kind": "C", "n": [2, 2, 2], "affine": "shear"}, {"kind": "Tet", "n": [1, 1, 1], "pert": [[0, [1, -1, 1]]]}]
    for spec in small:
        three_d = spec["kind"] == "Tet" or len(spec["n"]) == 3
        for part in ({"num_subproblems": 2}, {"num_subproblems": 3}, {"max_memory_parts": 2}):
            if tier == "quick" and three_d and part == {"num_subproblems": 3}:
                continue
            _emit(out, spec, "full", None, "python", "side" if (tier == "quick" and three_d) else "flip1", 40, partition=part)
    _emit(out, c22(pert=[[4, [1, -1]]], embed="gen"), "Qplane", None, "python", "flip1", 40, partition={"num_subproblems": 2})
    _emit(out, {"kind": "C", "n": [3, 3]}, "rot", None, "numba", "flip1", 40, partition={"num_subproblems": 2})
    if tier == "thorough":
        for part in ({"num_subproblems": 2}, {"max_memory_parts": 3}):
            _emit(out, {"kind": "C", "n": [3, 3, 3]}, "full", None, "python", "side", 16, partition=part)
            _emit(out, {"kind": "C", "n": [6, 6]}, "full", None, "python", "side", 16, partition=part)

    # ---- Block E: 2-d grids embedded in a tilted plane of 3-d space (as fracture grids are), 3x3 tensors whose
    # restriction to the plane is anisotropic and not aligned with the plane axes
    emb = [c22(embed="gen"), t22(embed="gen"), t22(pert=[[4, [-1, 1]]], embed="rx45"), c22(affine="shear", embed="gen2"),
           c22(pert=[[4, [1, -1]]], embed="rx45"), c22(pert=[[4, [1, -1]]], embed="gen"), c22(pert=[[4, [1, -1]]], embed="gen2"),
           c32(pert=[[5, [1, 0]], [6, [-1, 1]]], embed="gen", scale=1e-3)]
    for spec in emb:
        for K in ("Qplane", "full", "rot"):
            _emit(out, spec, K, None, "python", "flip1", 40)
    _emit(out, c22(pert=[[4, [1, -1]]], embed="gen"), "Qplane", 0.25, "numba", "flip1", 40)
    _emit(out, t22(embed="gen2"), "full", 0.0, "python", "all", 128)

    # ---- Block D: 3-d letters with non-triangular faces (4 nodes per face) and a 3-d simplex letter
    c222q = {"kind": "C", "n": [2, 2, 2]}
    for spec in (c222q, dict(c222q, affine="shear"), {"kind": "Tensor", "coords": [[0, 1, 3], [0, 2, 3], [0, 0.5, 2]]},
                 {"kind": "Prism", "n": [1, 1], "z": [0, 1, 2.5]}, {"kind": "Prism", "n": [1, 1], "z": [0, 1, 2.5], "affine": "rotscale"},
                 {"kind": "Tet", "n": [1, 1, 1], "pert": [[0, [1, -1, 1]]]}):
        for K in ("diag", "full"):
            _emit(out, spec, K, None, "python", "flip1", 40)
    _emit(out, dict(c222q, affine="rotscale"), "rot", None, "numba", "flip1", 40)

    if tier == "thorough":
        # C(3,2): every pattern on the two interior nodes
        for o5 in offs2:
            for o6 in offs2:
                pat = [[n, o] for n, o in ((5, o5), (6, o6)) if any(o)]
                spec = c32(pert=pat) if pat else c32()
                for K in ("full", "rot"):
                    _emit(out, spec, K, None, "python", "flip2", 128)
        for o5 in offs2:
            _emit(out, c32(pert=[[5, o5], [6, [1, 1]]]) if any(o5) else c32(pert=[[6, [1, 1]]]), "rot", None, "python", "all", 128)
        # 3-d simplices
        t111 = lambda **kw: dict({"kind": "Tet", "n": [1, 1, 1]}, **kw)  # noqa: E731
        for pat in (None, [[0, [1, -1, 1]]], [[0, [-1, 0, 1]], [7, [1, 1, -1]]]):
            _emit(out, t111(pert=pat) if pat else t111(), "full", None, "python", "all", 128)
        t211 = lambda **kw: dict({"kind": "Tet", "n": [2, 1, 1]}, **kw)  # noqa: E731
        for o in G.offsets(3):
            _emit(out, t211(pert=[[1, o]]) if any(o) else t211(), "rot", None, "python", "flip2", 64)
        t222 = lambda **kw: dict({"kind": "Tet", "n": [2, 2, 2]}, **kw)  # noqa: E731
        for o in G.offsets(3)[:7]:
            _emit(out, t222(pert=[[13, o]]) if any(o) else t222(), "full", None, "python", "flip1", 20)
        c222 = lambda **kw: dict({"kind": "C", "n": [2, 2, 2]}, **kw)  # noqa: E731
        for aff in ("id", "shear", "rotscale"):
            for K in G.K_LETTERS:
                _emit(out, c222(affine=aff), K, None, "python", "flip2", 64)
        # 3-d parameter product
        for spec in (t111(pert=[[0, [1, -1, 1]]]), t211(pert=[[1, [1, 1, -1]]]), c222(affine="shear"), c222()):
            for K in G.K_LETTERS:
                for eta in ETAS:
                    for inv in ("python", "numba"):
                        _emit(out, spec, K, eta, inv, "flip1", 40)
    return out


def _masks(info, dim, aset):
    nb = len(info["bfaces"])
    if aset == "all":
        return G.all_assignments(nb)
    if aset == "side":
        return G.side_assignments(info["side"], dim)
    return G.flip_assignments(info["side"], dim, pairs=(aset == "flip2"))


def run_case(case) -> Outcome:
    out = Outcome()
    spec, kl, eta, inv = case["grid"], case["K"], case["eta"], case["inv"]
    g, info = G.build_grid(spec)
    dim = g.dim
    nb = len(info["bfaces"])
    assert nb == G.num_boundary_faces(spec), (nb, spec)
    K = G.k_matrix_embedded(kl, spec) if spec.get("embed") else G.k_matrix(kl, dim)
    perm = G.tensor_from_matrix(K, g.num_cells)
    masks = _masks(info, dim, case["aset"])
    i, nch = case["chunk"]
    masks = masks[i::nch]
    part_extra = None
    if case.get("partition"):
        pa = dict(case["partition"])
        if "max_memory_parts" in pa:
            import porepy as pp

            peak = int(pp.Mpfa(F.KW)._estimate_peak_memory(g))
            parts = pa.pop("max_memory_parts")
            pa["max_memory"] = peak // parts + 1
            assert int(np.ceil(peak / pa["max_memory"])) == parts
        part_extra = {"partition_arguments": pa}
    nmax, hmin, xmax = F.geom_scales(g)
    kmax = float(np.max(np.abs(K)))
    tol_f = TOL * kmax * nmax * (1.0 + xmax / hmin)
    tol_p = TOL * (1.0 + xmax)
    gname = G.grid_name(spec)
    gcls = f"{dim}d-{spec['kind']}" + ("~" if spec.get("pert") else "") + ("@" if spec.get("affine", "id") != "id" else "")
    symmetric_letter = (kl == "I" and spec["kind"] == "C" and not spec.get("pert") and spec.get("affine", "id") == "id"
                        and not spec.get("periodic"))
    bf = info["bfaces"]
    fields = G.basis_fields(3 if spec.get("embed") else dim)  # embedded: linear in the physical 3-d coordinates
    kdim = 3 if spec.get("embed") else dim
    if info.get("periodic_pairs") is not None:
        per_axes = {int(np.argmax(np.abs(g.face_centers[:, r] - g.face_centers[:, l]))) for l, r in info["periodic_pairs"].T}  # noqa: E741
        fields = [f for f in fields if not any(f[2][a] != 0 for a in per_axes)]
    gcls += ("/split" if case.get("partition") else "") + ("^emb" if spec.get("embed") else "") + ("/per" if spec.get("periodic") else "") + ("*" if spec.get("scale", 1.0) != 1.0 else "")

    for m in masks:
        is_dir = G.mask_to_dir(m, nb)
        nd = int(is_dir.sum())
        bccls = "noBnd" if nb == 0 else "allDir" if nd == nb else ("allNeu" if nd == 0 else ("1Dir" if nd == 1 else ("1Neu" if nd == nb - 1 else "mixed")))
        try:
            bc = G.make_bc(g, bf, is_dir)
            dg0 = G.digest(g, perm, bc)
            md, data = F.discretize_flow("mpfa", g, perm, bc, eta, inv, extra=part_extra)
            dg1 = G.digest(g, perm, bc)
            flux_m, bflux_m = md["flux"], md["bound_flux"]
            bpc, bpf = md["bound_pressure_cell"], md["bound_pressure_face"]
        except Exception as e:
            out.violate("Mpfa.discretize raised on a valid input", error=repr(e), grid=gname, K=kl, eta=eta,
                        inverter=inv, dirichlet_mask=m)
            out.ev("exception")
            continue
        bad = None
        if part_extra is not None:
            # differential oracle: separate boundary object, tensor object and parameter dictionary, no partition arguments
            try:
                md_one, _ = F.discretize_flow("mpfa", g, G.tensor_from_matrix(K, g.num_cells), G.make_bc(g, bf, is_dir), eta, inv)
                one, split = G.dense_copy(md_one), G.dense_copy(md)
                for k in sorted(one):
                    sc = max(float(np.max(np.abs(one[k]))) if one[k].size else 0.0, 1e-300)
                    if k not in split or split[k].shape != one[k].shape or not np.all(np.abs(split[k] - one[k]) <= 1e-12 * sc):
                        d = np.abs(split[k] - one[k]) if k in split and split[k].shape == one[k].shape else None
                        ij = np.unravel_index(int(np.argmax(d)), d.shape) if d is not None else (0, 0)
                        bad = ("split discretization (partition_arguments) differs from the unsplit one",
                               {"matrix": k, "row": int(ij[0]), "col": int(ij[1]), "partition_arguments": part_extra["partition_arguments"],
                                "unsplit": float(one[k][ij]) if d is not None else None, "split": float(split[k][ij]) if d is not None else None})
                        break
            except Exception as e:
                bad = ("unsplit reference discretization raised", {"error": repr(e)})
        if bad is not None:
            pass
        elif dg0 != dg1:
            bad = ("Mpfa.discretize modified its arguments (grid / tensor / boundary condition)", {})
        elif m % 4 == 0:
            first = G.dense_copy(md)
            try:
                second = G.dense_copy(F.rediscretize("mpfa", g, data))
                for k in first:
                    if k not in second or not np.array_equal(first[k], second[k]):
                        bad = ("second Mpfa.discretize on the same data dictionary gives different matrices", {"matrix": k})
                        break
                if bad is None and G.digest(g, perm, bc) != dg0:
                    bad = ("second Mpfa.discretize modified its arguments", {})
            except Exception as e:
                bad = ("second Mpfa.discretize on the same data dictionary raised", {"error": repr(e)})
        for name, p0, grad in fields:
            if bad is not None:
                break
            pc, pf, bcv, q = F.linear_data(g, info, K, is_dir, p0, grad)
            flux = flux_m @ pc + bflux_m @ bcv
            err = np.abs(flux - q)
            if not np.all(err <= tol_f):
                f = int(np.argmax(err))
                bad = ("flux of a linear field is not the exact Darcy flux" if name != "1" else "constant pressure gives non-zero flux",
                       {"field": name, "face": f, "is_boundary_face": bool(f in set(bf.tolist())),
                        "expected": float(q[f]), "observed": float(flux[f]), "tol": tol_f})
                break
            pb = bpc @ pc + bpf @ bcv
            errp = np.abs(pb[bf] - pf[bf])
            if not np.all(errp <= tol_p):
                j = int(np.argmax(errp))
                bad = ("boundary pressure reconstruction is not exact for a linear field",
                       {"field": name, "face": int(bf[j]), "face_is_dirichlet": bool(is_dir[j]),
                        "expected": float(pf[bf[j]]), "observed": float(pb[bf[j]]), "tol": tol_p})
                break
        key = None
        if (0 < nd < nb or spec.get("periodic")) and not symmetric_letter:
            key = (gname, kl, eta, inv, m, str(case.get("partition")))
        if bad is not None:
            out.violate(bad[0], grid=gname, grid_spec=spec, K=K[:kdim, :kdim], K_letter=kl, eta=eta, inverter=inv,
                        dirichlet_mask=m, dirichlet_faces=bf[is_dir], neumann_faces=bf[~is_dir], **bad[1])
            out.ev("VIOLATION", key)
        else:
            out.ev(f"{gcls}/{inv}/{bccls}", key)
        if not out.samples and key is not None:
            out.samples.append({"grid": gname, "K": K[:kdim, :kdim].tolist(), "eta": eta, "inverter": inv,
                                "dirichlet_faces": bf[is_dir].tolist(), "neumann_faces": bf[~is_dir].tolist(),
                                "fields": [f[0] for f in fields], "tol_flux": tol_f})
    return out


def known_finding(case, viol):
    return None
