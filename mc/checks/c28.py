"""C28 — segments_2d / segments_3d agree with exact rational arithmetic.

Engine E: every ordered pair of oriented, non-degenerate integer-lattice segments in a
box is passed to the real function; the answer (None / one point / two points) is
compared with the exact intersection computed in ``fractions.Fraction``
(``mc.oracles.grpI_exact.seg_isect``: closest points of the two lines by the normal
equations + exact collinearity / skewness tests -- no projection to a coordinate plane,
no tolerance).
"""

from __future__ import annotations

import itertools

import numpy as np

from mc.core import Outcome
from mc.oracles import grpI_exact as X
from mc.oracles import grpI_variants as VR

PROPERTY = "C28"
LEVEL = "exploration"
RULE = (
    "[each evaluation = plain call + one transformed/re-represented call] all ordered pairs (s1, s2) of oriented non-degenerate segments with integer endpoints "
    "in the box, both orientations of both segments (second orientation only where stated "
    "in the bound); one case = one unoriented first segment against every second segment; "
    "non-trivial = the two segments' axis-aligned bounding boxes intersect; distinct by "
    "(dimension, box, unordered pair of unoriented segments)"
)
ASSUMPTIONS = [
    "integer lattice endpoints: every degeneracy (parallel, collinear, touching, skew) is "
    "separated from its neighbours by >= 1e-2 relative, far above the code's 1e-8 tolerance",
    "returned points are compared with the exact ones with absolute tolerance 1e-9 "
    "(coordinates <= 4; measured round-off <= 5e-16)",
    "a two-column result with coincident columns is accepted as a point",
    "segments_2d is called with Python lists of ints, segments_3d with float ndarrays "
    "(and, on the small box, with int ndarrays as well)",
    "every evaluation is repeated once in a variant representation, rotating over {translated by 1000, "
    "scaled by 2^-10, scaled by 2^10, int64} x {C, F order} x {writeable, read-only}; these maps are exact "
    "in binary floating point, the returned points are mapped back and judged against the same exact "
    "answer (default tol=1e-8 stays >= 95x below every non-zero quantity the code compares with it)",
    "purity: the four endpoint arguments must be bitwise unchanged after every call",
    "scale axis: every unordered-pair configuration of the quick boxes is also evaluated under exact "
    "power-of-two diagonal scalings (uniform 2^14, 2^17, 2^20, 2^-14, 2^-20 and anisotropic ones giving "
    "crossing angles down to ~1e-6 rad); diagonal maps preserve the exact verdict and map the exact points; "
    "a scaled configuration is skipped (and counted) when a quantity the code compares with its tol=1e-8 "
    "is non-zero but below 50*tol (2-d: sin of the crossing angle, relative line offset; 3-d: all scales "
    "below 2^-10, because segments_3d compares length^2 quantities with an absolute tol)",
]
BOUNDS = {
    "quick": "2-d: endpoints in {0..3}^2, 240 oriented segments, all 57 600 ordered pairs; "
    "3-d: endpoints in {0,1,2}^3, 702 oriented segments, all 492 804 ordered pairs; scale axis: all 14 400 "
    "(2-d) / 123 201 (3-d) ordered pairs of unoriented segments x 10 / 6 diagonal scalings, orientation alternating",
    "thorough": "quick + 2-d {0..4}^2 (600 oriented segments, 360 000 ordered pairs) + 3-d "
    "{0..3}^3 (2016 segments: first in both orientations x second in lexicographic "
    "orientation, 8.1e6 calls) + 3-d {0,1,2}^3 repeated with int64 arrays",
}
MIN_CLASSES = 6
CHUNK = 8
TOL = 1e-9


def _points(dim, n):
    return list(itertools.product(range(n), repeat=dim))


def _segments(dim, n):
    pts = _points(dim, n)
    return [(a, b) for a, b in itertools.combinations(pts, 2)]  # a < b lexicographically


def cases(tier):
    out = []
    boxes = [(2, 4, "both", "list"), (3, 3, "both", "float")]
    if tier == "thorough":
        boxes += [(2, 5, "both", "list"), (3, 4, "lex", "float"), (3, 3, "both", "int")]
    for dim, n, second, how in boxes:
        for k in range(len(_segments(dim, n))):
            out.append({"dim": dim, "n": n, "first": k, "second": second, "how": how})
    # scale axis: the same lattice configurations under exact diagonal scalings
    for dim, n in ((2, 4), (3, 3)):
        for k in range(len(_segments(dim, n))):
            out.append({"dim": dim, "n": n, "first": k, "axis": "scale"})
    return out


# Exact diagonal scalings (powers of two per coordinate axis). Any invertible diagonal map
# preserves parallelism, collinearity, skewness and the parameters t of intersection points,
# so the exact answer is the image of the lattice answer. Large uniform scales probe
# thresholds that are not homogeneous in the segment length; anisotropic ones produce small
# crossing angles (down to ~1e-6 rad) with exactly representable integer coordinates.
SCALES = {
    2: [(14, 14), (17, 17), (20, 20), (-14, -14), (-20, -20), (10, 0), (0, 10), (17, 0), (0, 17), (20, 6)],
    3: [(14, 14, 14), (17, 17, 17), (20, 20, 20), (10, 0, 0), (0, 10, 10), (-14, -14, -14)],
}
BAND = 50.0  # a quantity the code compares with tol must be 0 or >= BAND * tol
CODE_TOL = 1e-8


def _in_band_2d(a, b, c, d):
    """True if segments_2d's (relative) tolerance tests are not decided by a safe margin for
    this exact configuration: crossing angle sin < BAND*tol, or parallel lines closer than
    BAND*tol*max(L1,L2)/L1."""
    u, v, w = X.sub(b, a), X.sub(d, c), X.sub(c, a)
    l1, l2 = X.dot(u, u), X.dot(v, v)
    discr = u[0] * v[1] - u[1] * v[0]
    lim2 = X.F(BAND * CODE_TOL) ** 2
    if discr != 0:
        return discr * discr < lim2 * l1 * l2
    cr = w[0] * u[1] - w[1] * u[0]
    if cr != 0:
        return cr * cr < lim2 * max(l1, l2)
    return False


def _run_scale_case(case) -> Outcome:
    out = Outcome()
    dim, n = case["dim"], case["n"]
    fn = _fn(dim)
    segs = _segments(dim, n)
    s1 = segs[case["first"]]
    per_cat: dict = {}
    for j, s2 in enumerate(segs):
        exact = X.seg_isect(s1[0], s1[1], s2[0], s2[1])
        regime = _regime(s1[0], s1[1], s2[0], s2[1])
        ex_pts = list(exact[1:])
        nontrivial = _bbox_meet(s1[0], s1[1], s2[0], s2[1])
        for si, exps in enumerate(SCALES[dim]):
            sname = "x".join(f"2^{e}" for e in exps)
            if dim == 3 and min(exps) < -10:
                # segments_3d compares products of two coordinate differences (~ scale^2) with
                # the absolute tol=1e-8: below 2^-10 every such product is inside the band
                out.ev(f"skipped:3d/{sname}/inside-tolerance-band")
                continue
            fac = [2.0 ** e for e in exps]
            if dim == 2:
                fr = [X.F(2) ** e for e in exps]
                sc = lambda p: tuple(x * f for x, f in zip(p, fr))  # noqa: E731
                if _in_band_2d(sc(s1[0]), sc(s1[1]), sc(s2[0]), sc(s2[1])):
                    out.ev(f"skipped:2d/{sname}/inside-tolerance-band")
                    continue
            o1 = (j + si) % 2
            a, b = (s1[0], s1[1]) if o1 == 0 else (s1[1], s1[0])
            c, d = (s2[0], s2[1]) if (j // 2 + si) % 2 == 0 else (s2[1], s2[0])
            args = [np.array([x * f for x, f in zip(p, fac)], dtype=float) for p in (a, b, c, d)]
            try:
                res = fn(*args)
                res_u = None if res is None else np.asarray(res, dtype=float) / np.array(fac).reshape((-1, 1))
                kind, pts = _classify_result(res_u, dim)
            except Exception as e:
                kind, pts, res = "raised", [], repr(e)
            bad = _verdict(exact, ex_pts, kind, pts)
            key = (dim, "sc", si, min(case["first"], j), max(case["first"], j)) if nontrivial else None
            if bad is not None:
                cat = (bad, sname)
                per_cat[cat] = per_cat.get(cat, 0) + 1
                if per_cat[cat] <= 1:
                    out.violate(
                        f"segments_{dim}d: {bad}", scaling=sname,
                        start_1=args[0], end_1=args[1], start_2=args[2], end_2=args[3],
                        lattice=[list(a), list(b), list(c), list(d)],
                        expected=[exact[0]] + [[float(x) * f for x, f in zip(p, fac)] for p in ex_pts],
                        observed=res if isinstance(res, str) else (None if res is None else np.asarray(res)),
                        regime=regime,
                    )
                out.ev(f"VIOLATION/{dim}d/scale/{sname}/{regime}/{exact[0]}->{kind}", key)
            else:
                out.ev(f"{dim}d/scale/{sname}", key)
    for cat, cnt in per_cat.items():
        if cnt > 1:
            out.extra["violations_not_listed"] = out.extra.get("violations_not_listed", 0) + cnt - 1
    return out


def _classify_result(res, dim):
    """-> (kind, list of point tuples) ; kind in none/point/segment/malformed."""
    if res is None:
        return "none", []
    arr = np.asarray(res, dtype=float)
    if arr.ndim != 2 or arr.shape[0] != dim or arr.shape[1] not in (1, 2) or not np.all(np.isfinite(arr)):
        return "malformed", []
    if arr.shape[1] == 1:
        return "point", [tuple(arr[:, 0])]
    p, q = tuple(arr[:, 0]), tuple(arr[:, 1])
    if max(abs(x - y) for x, y in zip(p, q)) <= TOL:
        return "point2", [p]
    return "segment", [p, q]


def _close(p, q):
    return max(abs(float(x) - float(y)) for x, y in zip(p, q)) <= TOL


def _regime(a, b, c, d):
    u, v, w = X.sub(b, a), X.sub(d, c), X.sub(c, a)
    if X.is_zero(X.minors(u, v)):
        return "collinear" if X.is_zero(X.minors(u, w)) else "parallel"
    if len(a) == 3 and X.dot(X.cross3(u, v), w) != 0:
        return "skew"
    return "coplanar-nonparallel"


def _bbox_meet(a, b, c, d):
    return all(min(a[i], b[i]) <= max(c[i], d[i]) and min(c[i], d[i]) <= max(a[i], b[i]) for i in range(len(a)))


def _projection_parallel(a, b, c, d):
    """The coordinate plane chosen by segments_3d (first two axes along which at least
    one segment moves) shows parallel projections although the segments are not parallel."""
    u, v = X.sub(b, a), X.sub(d, c)
    m = [u[i] != 0 or v[i] != 0 for i in range(3)]
    if sum(m) > 1:
        if m[0] and m[1]:
            i, j = 0, 1
        elif m[0] and m[2]:
            i, j = 0, 2
        else:
            i, j = 1, 2
    else:
        i, j = 0, 1
    return u[i] * v[j] - u[j] * v[i] == 0 and not X.is_zero(X.minors(u, v))


def _verdict(exact, ex_pts, kind, pts):
    if kind == "raised":
        return "raised on valid input"
    if kind == "malformed":
        return "malformed result"
    if exact[0] == "none":
        return None if kind == "none" else "reports an intersection where there is none"
    if exact[0] == "point":
        if kind not in ("point", "point2"):
            return f"exact answer is one point, function returned {kind}"
        return None if _close(pts[0], ex_pts[0]) else "wrong intersection point"
    if kind != "segment":
        return f"exact answer is a segment, function returned {kind}"
    if (_close(pts[0], ex_pts[0]) and _close(pts[1], ex_pts[1])) or (_close(pts[0], ex_pts[1]) and _close(pts[1], ex_pts[0])):
        return None
    return "wrong overlap segment"


def _args(dim, how, a, b, c, d):
    if dim == 2:
        return [list(a), list(b), list(c), list(d)]
    dt = float if how == "float" else np.int64
    return [np.array(x, dtype=dt) for x in (a, b, c, d)]


_VCACHE: dict = {}


def _variant_args(k, pts):
    """Fresh argument arrays of variant k for the given endpoints + their reference bytes."""
    v = VR.VARIANTS[k]
    args, ref = [], []
    for p in pts:
        m = _VCACHE.get((k, p))
        if m is None:
            arr = VR.make(np.array(p), v)
            m = _VCACHE[(k, p)] = (arr, arr.tobytes())
        x = m[0].copy()
        if v[3]:
            x.flags.writeable = False
        args.append(x)
        ref.append(m[1])
    return args, ref


def _fn(dim):
    from porepy.geometry import intersections

    return intersections.segments_2d if dim == 2 else intersections.segments_3d


def run_case(case) -> Outcome:
    if case.get("axis") == "scale":
        return _run_scale_case(case)
    out = Outcome()
    dim, n, how = case["dim"], case["n"], case["how"]
    fn = _fn(dim)
    segs = _segments(dim, n)
    s1 = segs[case["first"]]
    per_cat: dict = {}
    orient2 = (0, 1) if case["second"] == "both" else (0,)
    for j, s2 in enumerate(segs):
        exact = X.seg_isect(s1[0], s1[1], s2[0], s2[1])
        regime = _regime(s1[0], s1[1], s2[0], s2[1])
        nontrivial = _bbox_meet(s1[0], s1[1], s2[0], s2[1])
        key = (dim, n, min(case["first"], j), max(case["first"], j)) if nontrivial else None
        ex_pts = list(exact[1:])
        for o1 in (0, 1):
            a, b = (s1[0], s1[1]) if o1 == 0 else (s1[1], s1[0])
            for o2 in orient2:
                c, d = (s2[0], s2[1]) if o2 == 0 else (s2[1], s2[0])
                # one call in the plain representation, one in a rotating (transform,
                # memory order, dtype, read-only) variant; arguments must stay bitwise intact
                k = (o1 * 2 + o2 + j) % len(VR.VARIANTS)
                v = VR.VARIANTS[k]
                calls = [("plain", "id", _args(dim, how, a, b, c, d), None),
                         (VR.name(v), v[0], *_variant_args(k, (a, b, c, d)))]
                for vname, tr, args, ref in calls:
                    if ref is None:
                        ref = [x.tobytes() if isinstance(x, np.ndarray) else list(x) for x in args]
                    try:
                        res = fn(*args)
                        res_u = res if (res is None or tr == "id") else VR.inv(res, tr)
                        kind, pts = _classify_result(res_u, dim)
                    except Exception as e:  # the functions promise an answer for valid input
                        kind, pts, res = "raised", [], repr(e)
                    bad = _verdict(exact, ex_pts, kind, pts)
                    if bad is None and any((x.tobytes() if isinstance(x, np.ndarray) else x) != r for x, r in zip(args, ref)):
                        bad = "an input argument was modified"
                    cls = f"{dim}d/{regime}/{exact[0]}" + ("/two-equal-columns" if kind == "point2" else "")
                    if bad is not None:
                        cls = f"VIOLATION/{dim}d/{regime}/{exact[0]}->{kind}"
                        cat = (bad, dim == 3 and _projection_parallel(a, b, c, d))
                        per_cat[cat] = per_cat.get(cat, 0) + 1
                        if per_cat[cat] <= 2:
                            out.violate(
                                f"segments_{dim}d: {bad}",
                                start_1=list(a), end_1=list(b), start_2=list(c), end_2=list(d),
                                dtype=how, variant=vname,
                                expected=[exact[0]] + [[float(x) for x in p] for p in ex_pts],
                                expected_exact=[[str(x) for x in p] for p in ex_pts],
                                observed=res if isinstance(res, str) else (None if res is None else np.asarray(res)),
                                regime=regime,
                            )
                    out.ev(cls if vname == "plain" or bad is not None else "variant/" + vname, key)
        if not out.samples and exact[0] == "point" and regime == "coplanar-nonparallel" and j > case["first"]:
            out.samples.append({"dim": dim, "start_1": list(s1[0]), "end_1": list(s1[1]), "start_2": list(s2[0]),
                                "end_2": list(s2[1]), "exact": [str(x) for x in ex_pts[0]]})
    for cat, cnt in per_cat.items():
        if cnt > 2:
            out.extra["violations_not_listed"] = out.extra.get("violations_not_listed", 0) + cnt - 2
    return out


def known_finding(case, viol):
    """Narrow predicate for the projection-parallel defect of segments_3d: the true answer
    is a point, the function says None, and the coordinate plane it projects to shows the
    two (non-parallel) segments as parallel."""
    try:
        if not viol["what"].startswith("segments_3d: exact answer is one point, function returned none"):
            return None
        a, b, c, d = (tuple(viol[k]) for k in ("start_1", "end_1", "start_2", "end_2"))
        if _projection_parallel(a, b, c, d):
            return "C28-segments3d-projection-parallel"
    except Exception:
        return None
    return None
