"""C31 — geometric predicates and point orderings agree with exact oracles.

Engine E. Every member of the declared lattice input spaces is run through the real
predicate / sorting routine and compared with exact rational arithmetic
(``mc.oracles.grpJ_exact`` / ``grpJ_shapes``):

ccw3        is_ccw_polyline on every point triple of {0..2}^2 (single and batched p3)
polygon     is_ccw_polygon + point_in_polygon: every simple lattice polygon of the family
            (all vertex orders / orientations) x every half-integer query point
shapes      curated non-convex polygons (L, U, T, dart, collinear vertices ...) under the 8
            symmetries x both orientations x every cyclic shift: point_in_polygon,
            is_ccw_polygon, point_in_cell (in the xy-plane and embedded in tilted planes)
planar      points_are_planar on every 4-subset of {0,1,2}^3 (normal computed and given)
collinear   points_are_collinear on every ordered triple and every 4-subset (3 orders)
polyhedron  point_in_polyhedron: convex and non-convex polyhedra, three face-orientation
            patterns, every half-integer query point
halfspace   point_inside_half_space_intersection / half_space_interior_point
pairs       sort_point_pairs on every permutation x flip pattern of cycles and chains
multipairs  sort_multiple_point_pairs on all (ordered pairs of) cycle variants
plane_sort  sort_point_plane on every ordered subset of the 8 ring directions, several planes
line_sort   sort_points_on_line on every ordered subset of positions, every direction
tri_edges   sort_triangle_edges on closed/open triangulated surfaces, every flip pattern

Points exactly on a boundary (polygon edge, polyhedron face, half-space plane) are outside
the property ("away from the tolerance band") and are only counted (class skipped:boundary).
"""

from __future__ import annotations

import itertools
import math

import numpy as np

from mc.core import Outcome
from mc.oracles import grpJ_exact as X
from mc.oracles import grpJ_shapes as S

F = X.F

PROPERTY = "C31"
LEVEL = "exploration"
RULE = (
    "exhaustive over lattice inputs per family (see module docstring): every simple polygon with "
    "k vertices on {0..m}^2 in every vertex order x every half-integer query; every 3-/4-point "
    "subset of {0,1,2}^3; polyhedra x orientation patterns x half-integer queries; every "
    "permutation x flip pattern of cycles/chains up to the length bound. Non-trivial = the exact "
    "answer is not forced by a bounding-box argument (query inside the bounding box / non-convex "
    "or permuted input / non-identity permutation); distinct by (family, input, query)."
)
ASSUMPTIONS = [
    "integer vertex coordinates, half-integer query coordinates: all orientation determinants are "
    "exact in float64, so predicates must agree exactly with rational arithmetic off the boundary",
    "points exactly on a polygon edge / polyhedron face / half-space plane are skipped",
    "planarity / collinearity: lattice sets that are not planar (collinear) are off by >= 0.08 "
    "(relative), far outside the default tolerance 1e-5; all-collinear sets are skipped for the "
    "planarity test (no plane is defined)",
    "point_in_polyhedron: faces are convex polygons listed in a consistent or inconsistent "
    "orientation (the routine re-orients them itself); the surface is closed and conforming",
    "orderings: validity only (chain property, permutation of the input, monotone along the line, "
    "cyclically monotone in angle); the starting element and the direction are free",
]
BOUNDS = {
    "quick": "ccw3 {0..2}^2; polygons: all triangles on {0..3}^2, all simple quads on {0..2}^2, 10 curated shapes; "
             "queries half-integers of [-0.5, m+0.5]^2; planar/collinear {0,1,2}^3; 10 polyhedra (cube, box, 4 tetrahedra, L-/U-/corner voxel solids) x 3 orientation patterns; "
             "pairs: cycles n<=5, chains n<=4; multipairs L<=4 (+ all ordered pairs L=3); plane_sort subsets <=4 of 8 ring points x 5 planes; "
             "line_sort 26 directions; tri_edges 6 surfaces",
    "thorough": "(both tiers: curated shapes, polyhedra (mixed orientation) and planar/collinear subsets also under x -> x+1024, x*1024, x*2^-6; "
                "inputs of the pure routines must be unchanged after the call) as quick plus all simple quads on {0..3}^2, all simple pentagons on {0..2}^2, chains n<=5, multipairs L<=5 and all ordered pairs L=4, "
                "plane_sort subsets <=5",
}
MIN_CLASSES = 10
CHUNK = 2


def _viol(out: Outcome, what: str, **detail):
    """At most three written-out violations per case and message; the rest is counted."""
    cnt = out.extra.setdefault("_cap", {})
    cnt[what] = cnt.get(what, 0) + 1
    if cnt[what] <= 3:
        out.violate(what, **detail)
    else:
        out.extra["suppressed_violation_reports"] = out.extra.get("suppressed_violation_reports", 0) + 1


# scale / translation axis: x -> s * x + t with exactly representable results, so every
# orientation determinant stays exact and "off the boundary" means the same as before
TRANSFORMS = {"id": (1.0, 0.0), "shift": (1.0, 1024.0), "big": (1024.0, 0.0), "small": (2.0**-6, 0.0)}


def _tr(p, tr):
    sc, sh = TRANSFORMS[tr]
    return tuple(sc * c + sh for c in p)


def _fp(poly):
    return [(F(x), F(y)) for x, y in poly]


# --------------------------------------------------------------------------- cases


def cases(tier):
    out = []
    for i in range(9):
        out.append({"kind": "ccw3", "p1": i})
    for first in range(16):
        out.append({"kind": "polygon", "m": 3, "k": 3, "first": first})
    for first in range(9):
        out.append({"kind": "polygon", "m": 2, "k": 4, "first": first})
    if tier == "thorough":
        for first in range(16):
            out.append({"kind": "polygon", "m": 3, "k": 4, "first": first})
        for first in range(9):
            out.append({"kind": "polygon", "m": 2, "k": 5, "first": first})
    for name in S.SHAPES:
        for tr in TRANSFORMS:
            out.append({"kind": "shapes", "shape": name, "tr": tr})
    for first in range(27 - 3):
        out.append({"kind": "planar", "first": first, "tr": "id"})
    for lo in (0, 9, 18):
        out.append({"kind": "collinear", "firsts": list(range(lo, lo + 9)), "tr": "id"})
    for tr in ("shift", "big", "small"):
        for first in (0, 13):
            out.append({"kind": "planar", "first": first, "tr": tr})
        out.append({"kind": "collinear", "firsts": [0, 13], "tr": tr})
    for name in S.polyhedra():
        for orient in ("outward", "inward", "mixed"):
            out.append({"kind": "polyhedron", "shape": name, "orient": orient, "tr": "id"})
        for tr in ("shift", "big", "small"):
            out.append({"kind": "polyhedron", "shape": name, "orient": "mixed", "tr": tr})
    for name in ("cube2", "tet", "tet2", "box211"):
        out.append({"kind": "halfspace", "shape": name})
    nmax_chain = 5 if tier == "thorough" else 4
    for n in range(2, 6):
        out.append({"kind": "pairs", "n": n, "circular": True})
    for n in range(1, nmax_chain + 1):
        out.append({"kind": "pairs", "n": n, "circular": False})
    for L in range(2, (6 if tier == "thorough" else 5)):
        out.append({"kind": "multipairs", "L": L, "mode": "single"})
    out.append({"kind": "multipairs", "L": 3, "mode": "pairs"})
    if tier == "thorough":
        out.append({"kind": "multipairs", "L": 4, "mode": "pairs"})
    for pl in range(len(PLANES)):
        for k in range(3, (6 if tier == "thorough" else 5)):
            out.append({"kind": "plane_sort", "plane": pl, "k": k})
    for di in range(26):
        out.append({"kind": "line_sort", "dir": di})
    for name in SURFACES:
        out.append({"kind": "tri_edges", "surface": name})
    return out


# --------------------------------------------------------------------------- ccw


def _run_ccw3(case, out: Outcome):
    from porepy.geometry.geometry_property_checks import is_ccw_polyline

    pts = [(x, y) for x in range(3) for y in range(3)]
    p1 = pts[case["p1"]]
    for p2 in pts:
        a1, a2 = np.array(p1, dtype=float), np.array(p2, dtype=float)
        exact = [X.sign(X.orient2d(_fp([p1])[0], _fp([p2])[0], _fp([p3])[0])) for p3 in pts]
        for default in (False, True):
            exp = [True if s > 0 else False if s < 0 else default for s in exact]
            # batched
            try:
                got = is_ccw_polyline(a1, a2, np.array(pts, dtype=float).T.copy(), default=default)
                got = np.asarray(got).tolist()
            except Exception as e:
                _viol(out, "is_ccw_polyline raised", error=repr(e), p1=p1, p2=p2)
                out.ev("ccw3/exception")
                continue
            for p3, g, e_, s in zip(pts, got, exp, exact):
                key = ("ccw3", p1, p2, p3) if (p1 != p2 and s != 0) else None
                if g != e_:
                    _viol(out, "is_ccw_polyline differs from the exact orientation test", p1=p1, p2=p2, p3=p3, default=default, got=g, expected=e_)
                    out.ev("ccw3/VIOLATION", key)
                else:
                    out.ev("ccw3/" + ("left" if s > 0 else "right" if s < 0 else "on-line:default"), key)
            # single points (1-d p3)
            for p3, e_, s in zip(pts, exp, exact):
                g = is_ccw_polyline(a1, a2, np.array(p3, dtype=float), default=default)
                g = bool(np.asarray(g).ravel()[0]) if np.asarray(g).size == 1 else None
                if g != e_:
                    _viol(out, "is_ccw_polyline (single point) differs from the exact orientation test", p1=p1, p2=p2, p3=p3,
                                default=default, got=g, expected=e_)
                    out.ev("ccw3/VIOLATION")
                else:
                    out.ev("ccw3/single/" + ("left" if s > 0 else "right" if s < 0 else "on-line:default"))


# --------------------------------------------------------------------------- polygons


def _check_polygon(poly, queries, out: Outcome, tag, single_every=0):
    """is_ccw_polygon and point_in_polygon for one integer polygon (list of tuples)."""
    from porepy.geometry.geometry_property_checks import is_ccw_polygon, point_in_polygon

    fp = _fp(poly)
    P = np.array(poly, dtype=float).T.copy()
    area2 = X.polygon_area2(fp)
    convex = all(X.sign(X.orient2d(fp[i - 1], fp[i], fp[(i + 1) % len(fp)])) * X.sign(area2) >= 0 for i in range(len(fp)))
    shape_cls = f"{tag}/" + ("convex" if convex else "nonconvex") + ("/ccw" if area2 > 0 else "/cw")
    try:
        g = bool(is_ccw_polygon(P))
        if g != (area2 > 0):
            _viol(out, "is_ccw_polygon differs from the sign of the exact signed area", polygon=poly, got=g, exact_area2=float(area2))
            out.ev("is_ccw/VIOLATION", ("ccwpoly", tuple(poly)))
        else:
            out.ev("is_ccw/" + shape_cls, ("ccwpoly", tuple(poly)))
    except Exception as e:
        _viol(out, "is_ccw_polygon raised", error=repr(e), polygon=poly)
        out.ev("is_ccw/exception")
    Q = np.array(queries, dtype=float).T.copy()
    exact = [X.point_in_polygon_2d((X.fr(x), X.fr(y)), fp) for (x, y) in queries]
    xs = [p[0] for p in poly]
    ys = [p[1] for p in poly]
    P0, Q0 = P.copy(), Q.copy()
    for default in (False, True):
        try:
            got = np.asarray(point_in_polygon(P, Q, default=default)).tolist()
            if not (np.array_equal(P, P0) and np.array_equal(Q, Q0)):
                _viol(out, "point_in_polygon / is_ccw_polygon modified an input array", polygon=poly)
        except Exception as e:
            _viol(out, "point_in_polygon raised", error=repr(e), polygon=poly)
            out.ev("pip/exception")
            continue
        for q, g, ex in zip(queries, got, exact):
            if ex == "boundary":
                out.ev("pip/skipped:boundary")
                continue
            inbox = min(xs) < q[0] < max(xs) and min(ys) < q[1] < max(ys)
            key = ("pip", tuple(poly), q) if inbox else None
            if bool(g) != (ex == "in"):
                _viol(out, "point_in_polygon differs from the exact winding number", polygon=poly, point=q, default=default,
                            got=bool(g), expected=ex)
                out.ev("pip/VIOLATION", key)
            else:
                out.ev(f"pip/{shape_cls}/{ex}" + ("/inbox" if inbox else ""), key)
    if single_every:
        # 1-d point argument
        for qi in range(0, len(queries), single_every):
            if exact[qi] == "boundary":
                continue
            g = np.asarray(point_in_polygon(P, np.array(queries[qi], dtype=float))).ravel()
            if g.size != 1 or bool(g[0]) != (exact[qi] == "in"):
                _viol(out, "point_in_polygon (single 1-d point) differs from the exact winding number", polygon=poly, point=queries[qi],
                            got=g, expected=exact[qi])
                out.ev("pip/VIOLATION")
            else:
                out.ev("pip/single/" + exact[qi])


def _run_polygon(case, out: Outcome):
    m, k = case["m"], case["k"]
    polys = S.lattice_polygons(m, k, case["first"])
    queries = S.half_lattice_2d(-0.5, m + 0.5)
    for poly in polys:
        _check_polygon(poly, queries, out, f"k{k}", single_every=7)
    if polys and not out.samples:
        out.samples.append({"polygon": polys[len(polys) // 2], "queries": "half-integer lattice of [-0.5, %g]^2" % (m + 0.5)})


# tilted planes for point_in_cell / sort_point_plane: origin, in-plane integer basis (u, v)
PLANES = [
    ((0.0, 0.0, 0.0), (1.0, 0.0, 0.0), (0.0, 1.0, 0.0)),  # the xy-plane
    ((1.0, -2.0, 3.0), (0.0, 1.0, 0.0), (0.0, 0.0, 1.0)),  # normal e_x
    ((0.0, 0.0, 1.0), (1.0, 0.0, 0.0), (0.0, 0.0, -1.0)),  # normal e_y
    ((1.0, 1.0, 0.0), (2.0, -1.0, 0.0), (2.0, 4.0, -5.0)),  # normal (1,2,2), orthogonal basis, different lengths
    ((0.0, 2.0, 0.0), (1.0, 1.0, 0.0), (0.0, 1.0, 1.0)),  # normal (1,-1,1), skew basis
]


def _embed(plane, xy):
    o, u, v = (np.array(a) for a in plane)
    xy = np.asarray(xy, dtype=float)
    return o[:, None] + np.outer(u, xy[:, 0]) + np.outer(v, xy[:, 1])


def _run_shapes(case, out: Outcome):
    from porepy.geometry.geometry_property_checks import point_in_cell

    base = S.SHAPES[case["shape"]]
    tr = case.get("tr", "id")
    queries0 = S.half_lattice_2d(-0.5, 3.5)
    queries = [_tr(q, tr) for q in queries0]
    seen = set()
    for sym in S.symmetries(base, 3):
        for rev in (False, True):
            p = sym[::-1] if rev else sym
            for sh in range(len(p)):
                poly = p[sh:] + p[:sh]
                if tuple(poly) in seen:
                    continue
                seen.add(tuple(poly))
                if tr != "id":
                    poly = [_tr(q, tr) for q in poly]
                if not S.is_simple_polygon(_fp(poly)):
                    raise AssertionError("harness: curated shape is not simple")
                _check_polygon(poly, queries, out, "shape" if tr == "id" else "shape-" + tr, single_every=0)
                if sh not in (0, 1) or tr != "id":
                    continue
                # point_in_cell, in the xy-plane without projection and in every plane with projection
                fp = _fp(poly)
                exact = [X.point_in_polygon_2d((X.fr(x), X.fr(y)), fp) for (x, y) in queries]
                for pi_, plane in enumerate(PLANES):
                    P3 = _embed(plane, poly)
                    Q3 = _embed(plane, queries)
                    modes = [True] if pi_ > 0 else [False, True]
                    for make_planar in modes:
                        for qi, ex in enumerate(exact):
                            if ex == "boundary":
                                out.ev("cell/skipped:boundary")
                                continue
                            try:
                                g = point_in_cell(P3.copy(), Q3[:, qi].copy(), if_make_planar=make_planar)
                                g = bool(np.asarray(g).ravel()[0])
                            except Exception as e:
                                _viol(out, "point_in_cell raised", error=repr(e), polygon=P3, point=Q3[:, qi])
                                out.ev("cell/exception")
                                continue
                            key = ("cell", tuple(poly), pi_, make_planar, qi)
                            if g != (ex == "in"):
                                _viol(out, "point_in_cell differs from the exact winding number", polygon=P3, point=Q3[:, qi],
                                            if_make_planar=make_planar, polygon_2d=poly, point_2d=queries[qi], got=g, expected=ex)
                                out.ev("cell/VIOLATION", key)
                            else:
                                out.ev(f"cell/plane{pi_}/" + ("proj/" if make_planar else "noproj/") + ex, key)
    if not out.samples:
        out.samples.append({"shape": case["shape"], "polygon": base})


# --------------------------------------------------------------------------- planar / collinear

LAT3 = [(x, y, z) for x in range(3) for y in range(3) for z in range(3)]


def _exact_collinear(ps):
    a = X.vec(ps[0])
    others = [X.sub(X.vec(p), a) for p in ps[1:]]
    d = next((o for o in others if any(c != 0 for c in o)), None)
    if d is None:
        return True
    return all(all(c == 0 for c in X.cross(d, o)) for o in others)


def _exact_planar(ps):
    if _exact_collinear(ps):
        return True
    a = X.vec(ps[0])
    vs = [X.sub(X.vec(p), a) for p in ps[1:]]
    for i in range(len(vs)):
        for j in range(i + 1, len(vs)):
            n = X.cross(vs[i], vs[j])
            if any(c != 0 for c in n):
                return all(X.dot(n, v) == 0 for v in vs), n
    raise AssertionError


def _run_planar(case, out: Outcome):
    from porepy.geometry.geometry_property_checks import points_are_planar

    first = case["first"]
    tr = case.get("tr", "id")
    ttag = "" if tr == "id" else "-" + tr
    for rest in itertools.combinations(range(first + 1, 27), 3):
        ps = [_tr(LAT3[first], tr)] + [_tr(LAT3[i], tr) for i in rest]
        if _exact_collinear(ps):
            out.ev("planar/skipped:collinear")
            continue
        planar, n_exact = _exact_planar(ps)
        for order in ((0, 1, 2, 3), (3, 2, 1, 0), (2, 0, 3, 1)):
            q = [ps[i] for i in order]
            P = np.array(q, dtype=float).T.copy()
            key = ("planar", tuple(q))
            try:
                g = bool(points_are_planar(P))
            except Exception as e:
                _viol(out, "points_are_planar raised", error=repr(e), points=q)
                out.ev("planar/exception", key)
                continue
            if g != planar:
                _viol(out, "points_are_planar differs from the exact coplanarity test", points=q, got=g, expected=planar)
                out.ev("planar/VIOLATION", key)
            else:
                out.ev(f"planar{ttag}/computed-normal/" + ("planar" if planar else "nonplanar"), key)
        # with a normal supplied: the plane through the first three non-collinear points
        trip = next(t for t in itertools.combinations(range(4), 3) if not _exact_collinear([ps[i] for i in t]))
        a, b, c = (X.vec(ps[i]) for i in trip)
        n = X.cross(X.sub(b, a), X.sub(c, a))
        P = np.array(ps, dtype=float).T.copy()
        g = bool(points_are_planar(P, normal=np.array([float(x) for x in n])))
        if g != planar:
            _viol(out, "points_are_planar(normal given) differs from the exact coplanarity test", points=ps, normal=[float(x) for x in n],
                        got=g, expected=planar)
            out.ev("planar/VIOLATION", ("planar-n", tuple(ps)))
        else:
            out.ev(f"planar{ttag}/given-normal/" + ("planar" if planar else "nonplanar"), ("planar-n", tuple(ps)))


def _run_collinear(case, out: Outcome):
    from porepy.geometry.geometry_property_checks import points_are_collinear

    def one(q, tag):
        P = np.array(q, dtype=float).T.copy()
        exp = _exact_collinear(q)
        key = ("collinear", tuple(q))
        try:
            P0 = P.copy()
            g = bool(points_are_collinear(P))
            if not np.array_equal(P, P0):
                _viol(out, "points_are_collinear modified its input array", points=q)
        except Exception as e:
            _viol(out, "points_are_collinear raised", error=repr(e), points=q)
            out.ev("collinear/exception", key)
            return
        if g != exp:
            _viol(out, "points_are_collinear differs from the exact collinearity test", points=q, got=g, expected=exp)
            out.ev("collinear/VIOLATION", key)
        else:
            out.ev(f"collinear{ttag}/{tag}/" + ("collinear" if exp else "noncollinear"), key)

    tr = case.get("tr", "id")
    ttag = "" if tr == "id" else "-" + tr
    L3 = [_tr(p, tr) for p in LAT3]
    for first in case["firsts"]:
        p0 = L3[first]
        # every ordered triple starting with p0
        for i, j in itertools.permutations([k for k in range(27) if k != first], 2):
            one([p0, L3[i], L3[j]], "n3")
        # every 4-subset with smallest element p0, in three orders (the odd one out in each position class)
        for rest in itertools.combinations(range(first + 1, 27), 3):
            ps = [p0] + [L3[i] for i in rest]
            for order in ((0, 1, 2, 3), (3, 2, 1, 0), (1, 3, 0, 2)):
                one([ps[i] for i in order], "n4")


# --------------------------------------------------------------------------- polyhedra / half spaces


def _oriented_faces(faces, orient):
    if orient == "outward":
        return [list(f) for f in faces]
    if orient == "inward":
        return [list(f[::-1]) for f in faces]
    return [list(f[::-1]) if i % 2 else list(f) for i, f in enumerate(faces)]


def _run_polyhedron(case, out: Outcome):
    from porepy.geometry.geometry_property_checks import point_in_polyhedron

    faces, convex = S.polyhedra()[case["shape"]]
    tr = case.get("tr", "id")
    allp = [p for f in faces for p in f]
    lo = [min(p[i] for p in allp) - 0.5 for i in range(3)]
    hi = [max(p[i] for p in allp) + 0.5 for i in range(3)]
    queries = S.half_lattice_3d(lo, hi)
    if tr != "id":
        faces = [[_tr(p, tr) for p in f] for f in faces]
        queries = [_tr(q, tr) for q in queries]
    verts, tris = S.fan_triangles(faces)
    exact = [S.classify_point_polyhedron(q, verts, tris) for q in queries]
    planes = S.face_planes(faces)
    fl = _oriented_faces(faces, case["orient"])
    poly = [np.array(f, dtype=float).T.copy() for f in fl]
    keep = [i for i, e in enumerate(exact) if e != "boundary"]
    if len(keep) < len(queries):
        out.ev("polyhedron/skipped:boundary", None, n=len(queries) - len(keep))
    Q = np.array([queries[i] for i in keep], dtype=float).T.copy()
    poly0, Q0 = [a.copy() for a in poly], Q.copy()
    try:
        got = np.asarray(point_in_polyhedron(poly, Q)).tolist()
    except Exception as e:
        _viol(out, "point_in_polyhedron raised", error=repr(e), faces=fl)
        out.ev("polyhedron/exception")
        return
    if not (np.array_equal(Q, Q0) and all(np.array_equal(a, b) for a, b in zip(poly, poly0))):
        _viol(out, "point_in_polyhedron modified an input array", shape=case["shape"], orientation=case["orient"])
    for gi, qi in enumerate(keep):
        q, ex = queries[qi], exact[qi]
        # is the query in the plane of some face (without being on the face)?
        qf = tuple(X.fr(c) for c in q)
        coplanar = any(X.dot(n, X.sub(qf, a)) == 0 for n, a in planes)
        key = ("polyhedron", case["shape"], case["orient"], tr, q)
        cls = "polyhedron" + ("" if tr == "id" else "-" + tr) + "/" + ("convex" if convex else "nonconvex") + f"/{ex}" + ("/in-face-plane" if coplanar else "")
        if bool(got[gi]) != (ex == "in"):
            _viol(out, "point_in_polyhedron differs from the exact inside test", point=q, got=bool(got[gi]), expected=ex,
                  point_in_plane_of_a_face=coplanar, shape=case["shape"], orientation=case["orient"], transform=tr, n_faces=len(fl),
                  faces="boundary faces of " + case["shape"] + " (mc.oracles.grpJ_shapes.polyhedra)")
            cls = "polyhedron/VIOLATION"
        out.ev(cls, key)
    if not out.samples:
        out.samples.append({"polyhedron": case["shape"], "faces": fl[:3], "n_queries": len(keep)})


def _run_halfspace(case, out: Outcome):
    from porepy.geometry import half_space as hs

    faces, _ = S.polyhedra()[case["shape"]]
    planes = S.face_planes(faces)
    nrm = np.array([[float(c) for c in n] for n, _ in planes]).T.copy()
    x0 = np.array([[float(c) for c in a] for _, a in planes]).T.copy()
    allp = [p for f in faces for p in f]
    lo = [min(p[i] for p in allp) - 0.5 for i in range(3)]
    hi = [max(p[i] for p in allp) + 0.5 for i in range(3)]
    queries = S.half_lattice_3d(lo, hi)
    # all planes, and every subset obtained by dropping one plane (unbounded intersections)
    subsets = [list(range(len(planes)))] + [[j for j in range(len(planes)) if j != i] for i in range(len(planes))]
    for sub in subsets:
        vals = [[X.dot(planes[j][0], X.sub(tuple(X.fr(c) for c in q), planes[j][1])) for j in sub] for q in queries]
        keep = [i for i, v in enumerate(vals) if all(x != 0 for x in v)]
        if len(keep) < len(queries):
            out.ev("halfspace/skipped:boundary", None, n=len(queries) - len(keep))
        Q = np.array([queries[i] for i in keep], dtype=float).T.copy()
        try:
            got = np.asarray(hs.point_inside_half_space_intersection(nrm[:, sub].copy(), x0[:, sub].copy(), Q)).tolist()
        except Exception as e:
            _viol(out, "point_inside_half_space_intersection raised", error=repr(e), normals=nrm[:, sub], x0=x0[:, sub])
            out.ev("halfspace/exception")
            continue
        for gi, qi in enumerate(keep):
            exp = all(x < 0 for x in vals[qi])
            nviol = sum(1 for x in vals[qi] if x > 0)
            key = ("halfspace", case["shape"], tuple(sub), queries[qi])
            if bool(got[gi]) != exp:
                _viol(out, "point_inside_half_space_intersection differs from the exact sign test", normals=nrm[:, sub], x0=x0[:, sub],
                            point=queries[qi], got=bool(got[gi]), expected=exp)
                out.ev("halfspace/VIOLATION", key)
            else:
                out.ev("halfspace/" + ("inside" if exp else f"outside-by-{min(nviol, 3)}"), key)
    # interior point of the bounded intersection, normals coherently outward or inward
    box = np.array([lo, hi]).T.copy()
    for sgn, tag in ((1.0, "outward"), (-1.0, "inward")):
        try:
            ip = np.asarray(hs.half_space_interior_point(sgn * nrm, x0.copy(), box)).ravel()
            vals = [X.dot(n, X.sub(tuple(X.fr(c) for c in ip), a)) for n, a in planes]
            if ip.shape != (3,) or not all(float(v) < -1e-9 for v in vals):
                _viol(out, "half_space_interior_point: returned point is not strictly inside all half spaces", normals=sgn * nrm, x0=x0,
                            point=ip, signed_distances_times_norm=[float(v) for v in vals])
                out.ev("interior/VIOLATION", ("interior", case["shape"], tag))
            else:
                out.ev("interior/" + tag, ("interior", case["shape"], tag))
        except Exception as e:
            _viol(out, "half_space_interior_point raised for a bounded non-empty intersection", error=repr(e), normals=sgn * nrm, x0=x0)
            out.ev("interior/exception")


# --------------------------------------------------------------------------- sort_point_pairs

RELABEL = [3, 0, 4, 1, 5, 2, 6]


def _edge_variants(edges):
    """Every permutation of the edge list combined with every flip pattern."""
    n = len(edges)
    for perm in itertools.permutations(range(n)):
        for flips in itertools.product((0, 1), repeat=n):
            yield perm, flips, [(edges[p][1], edges[p][0]) if f else edges[p] for p, f in zip(perm, flips)]


def _valid_chain(sorted_lines, sort_ind, lines, circular):
    """sorted_lines is lines[:, sort_ind] modulo flips of the first two rows, consecutive
    segments share their node, circular chains close."""
    n = lines.shape[1]
    if sorted_lines.shape != lines.shape or len(sort_ind) != n:
        return "wrong shapes"
    if sorted(int(i) for i in sort_ind) != list(range(n)):
        return "sort_ind is not a permutation"
    for i in range(n):
        src = lines[:, int(sort_ind[i])]
        col = sorted_lines[:, i]
        same = col[0] == src[0] and col[1] == src[1]
        flip = col[0] == src[1] and col[1] == src[0]
        if not (same or flip):
            return f"column {i} is not input column sort_ind[{i}] (modulo flip)"
        if not np.array_equal(col[2:], src[2:]):
            return f"extra rows of column {i} do not follow the column"
    for i in range(n - 1):
        if sorted_lines[1, i] != sorted_lines[0, i + 1]:
            return f"segments {i} and {i + 1} are not connected"
    if circular and sorted_lines[1, -1] != sorted_lines[0, 0]:
        return "chain is not closed"
    return None


def _run_pairs(case, out: Outcome):
    from porepy.geometry.sort_points import sort_point_pairs

    n, circ = case["n"], case["circular"]
    for relabel in (False, True):
        lab = (lambda i: RELABEL[i]) if relabel else (lambda i: i)
        if circ:
            edges = [(lab(i), lab((i + 1) % n)) for i in range(n)]
        else:
            edges = [(lab(i), lab(i + 1)) for i in range(n)]
        for perm, flips, ev in _edge_variants(edges):
            for extra in (False, True):
                lines = np.array(ev, dtype=np.int64).T.copy()
                if extra:
                    lines = np.vstack([lines, 10 + np.array(perm, dtype=np.int64)[None, :]])
                trivial = perm == tuple(range(n)) and not any(flips)
                key = None if trivial else ("pairs", n, circ, relabel, perm, flips, extra)
                kwargs_list = [dict(is_circular=True, check_circular=True), dict(is_circular=True, check_circular=False)] if circ \
                    else [dict(is_circular=False)]
                for kw in kwargs_list:
                    arg = lines.copy()
                    try:
                        sl, si = sort_point_pairs(arg, **kw)
                        if not np.array_equal(arg, lines):
                            _viol(out, "sort_point_pairs modified its input array", lines=lines, after=arg)
                    except Exception as e:
                        _viol(out, "sort_point_pairs raised on a valid " + ("cycle" if circ else "chain"), error=repr(e), lines=lines, kwargs=kw)
                        out.ev("pairs/exception", key)
                        continue
                    bad = _valid_chain(np.asarray(sl), np.asarray(si), lines, circ)
                    if bad:
                        _viol(out, "sort_point_pairs: " + bad, lines=lines, kwargs=kw, sorted_lines=sl, sort_ind=si)
                        out.ev("pairs/VIOLATION", key)
                    else:
                        nfl = int(sum(1 for i in range(n) if sl[0, i] != lines[0, int(si[i])]))
                        out.ev(f"pairs/{'cycle' if circ else 'chain'}/n{n}/" + ("flipped" if nfl else "noflip") + ("/extra" if extra else ""), key)
    if not out.samples:
        out.samples.append({"n": n, "circular": circ, "variants": "all permutations x all flip patterns x 2 labelings x extra row"})


def _run_multipairs(case, out: Outcome):
    from porepy.geometry.sort_points import sort_multiple_point_pairs

    L = case["L"]
    variants = []
    for relabel in ((False, True) if case["mode"] == "single" else (False,)):
        lab = (lambda i: RELABEL[i]) if relabel else (lambda i: i)
        edges = [(lab(i), lab((i + 1) % L)) for i in range(L)]
        for perm, flips, ev in _edge_variants(edges):
            variants.append((relabel, perm, flips, np.array(ev, dtype=np.int64).T))
    if case["mode"] == "single":
        # one chain per call would be slow (the routine re-creates its jitted kernel on every
        # call): all variants are packed as independent chains of one call
        packed = np.vstack([v[3] for v in variants])
        calls = [(packed, variants)]
        # also a few genuinely single-chain calls
        for v in variants[:: max(1, len(variants) // 12)]:
            calls.append((v[3].copy(), [v]))
    else:
        seq = []
        for a in variants:
            for b in variants:
                seq.append(a)
                seq.append(b)
        calls = [(np.vstack([v[3] for v in seq]), seq)]
    for arr, chain_list in calls:
        for dtype in (np.int64, np.int32):
            a = np.ascontiguousarray(arr.astype(dtype))
            try:
                res = np.asarray(sort_multiple_point_pairs(a.copy()))
            except Exception as e:
                _viol(out, "sort_multiple_point_pairs raised", error=repr(e), lines=a if a.shape[0] <= 8 else a[:8])
                out.ev("multipairs/exception")
                continue
            if res.shape != a.shape:
                _viol(out, "sort_multiple_point_pairs: wrong output shape", got=res.shape, expected=a.shape)
                out.ev("multipairs/VIOLATION")
                continue
            nbad = 0
            for c, (relabel, perm, flips, lines) in enumerate(chain_list):
                sl = res[2 * c: 2 * c + 2]
                # validity: multiset of undirected segments preserved, chain connected and closed
                bad = None
                if sorted(tuple(sorted(x)) for x in sl.T.tolist()) != sorted(tuple(sorted(x)) for x in lines.T.tolist()):
                    bad = "segments are not a permutation of the input segments"
                elif any(sl[1, i] != sl[0, i + 1] for i in range(L - 1)) or sl[1, -1] != sl[0, 0]:
                    bad = "sorted chain is not connected / closed"
                trivial = perm == tuple(range(L)) and not any(flips)
                if case["mode"] == "pairs":
                    key = ("multipairs", L, "pairs", c // 2) if c % 2 else None
                else:
                    key = None if trivial else ("multipairs", L, relabel, perm, flips, len(chain_list) == 1)
                if bad:
                    nbad += 1
                    if nbad <= 3:
                        _viol(out, "sort_multiple_point_pairs: " + bad, chain_index=c, chain=lines, got=sl,
                                    previous_chain=(chain_list[c - 1][3] if c else None), n_chains_in_call=len(chain_list))
                    out.ev("multipairs/VIOLATION", key)
                else:
                    out.ev(f"multipairs/L{L}/" + ("batch" if len(chain_list) > 1 else "single") + ("/i32" if dtype == np.int32 else "/i64"), key)


# --------------------------------------------------------------------------- sort_point_plane / on_line

RING = [(1, 0), (1, 1), (0, 1), (-1, 1), (-1, 0), (-1, -1), (0, -1), (1, -1)]  # ccw in (u, v) coordinates


def _cyclic_ok(order_labels, k_true):
    """order_labels: ring indices in the returned order. Valid iff it is a rotation of the
    increasing (ccw) or decreasing (cw) cyclic order of the ring indices."""
    k = len(order_labels)
    inc = sorted(order_labels)
    i0 = inc.index(order_labels[0])
    ccw = [inc[(i0 + j) % k] for j in range(k)]
    cw = [inc[(i0 - j) % k] for j in range(k)]
    return order_labels == ccw or order_labels == cw


def _run_plane_sort(case, out: Outcome):
    from porepy.geometry.sort_points import sort_point_plane

    plane = PLANES[case["plane"]]
    o, u, v = (np.array(a) for a in plane)
    nrm = np.cross(u, v)
    k = case["k"]
    for sub in itertools.combinations(range(8), k):
        xy = [RING[i] for i in sub]
        coll = all(X.orient2d(_fp([xy[0]])[0], _fp([xy[1]])[0], _fp([p])[0]) == 0 for p in xy[2:])
        for perm in itertools.permutations(range(k)):
            labels = [sub[i] for i in perm]
            P = _embed(plane, [RING[i] for i in labels])
            key = ("plane_sort", case["plane"], tuple(labels)) if perm != tuple(range(k)) else None
            for given in ((True,) if coll else (True, False)):
                try:
                    argP, argo = P.copy(), o.copy()
                    idx = np.asarray(sort_point_plane(argP, argo, normal=(nrm.copy() if given else None))).ravel()
                    if not (np.array_equal(argP, P) and np.array_equal(argo, o)):
                        _viol(out, "sort_point_plane modified an input array", points=P, centre=o)
                except Exception as e:
                    _viol(out, "sort_point_plane raised", error=repr(e), points=P, centre=o, normal_given=given)
                    out.ev("plane_sort/exception", key)
                    continue
                if sorted(idx.tolist()) != list(range(k)):
                    _viol(out, "sort_point_plane: result is not a permutation", points=P, centre=o, got=idx)
                    out.ev("plane_sort/VIOLATION", key)
                    continue
                got_labels = [labels[int(i)] for i in idx]
                if not _cyclic_ok(got_labels, k):
                    _viol(out, "sort_point_plane: returned order is not monotone in the angle around the centre", points=P, centre=o,
                                normal_given=given, got=idx, ring_positions_in_returned_order=got_labels)
                    out.ev("plane_sort/VIOLATION", key)
                else:
                    inc = sorted(got_labels)
                    i0 = inc.index(got_labels[0])
                    ccw = got_labels == [inc[(i0 + j) % k] for j in range(k)]
                    out.ev(f"plane_sort/plane{case['plane']}/" + ("given" if given else "computed") + ("/ccw" if ccw else "/cw"), key)


LINE_DIRS = [d for d in itertools.product((-1, 0, 1), repeat=3) if any(d)]
POSITIONS = [0.0, 1.0, 3.0, 4.0, -2.0]


def _run_line_sort(case, out: Outcome):
    from porepy.geometry.sort_points import sort_points_on_line

    d = np.array(LINE_DIRS[case["dir"]], dtype=float)
    for off in ((0.0, 0.0, 0.0), (1.0, -2.0, 3.0)):
        for k in range(2, 5):
            for pos in itertools.permutations(POSITIONS, k):
                P = np.array(off)[:, None] + np.outer(d, np.array(pos))
                sorted_in = list(pos) == sorted(pos) or list(pos) == sorted(pos, reverse=True)
                key = None if sorted_in else ("line_sort", case["dir"], off, pos)
                try:
                    argP = P.copy()
                    idx = np.asarray(sort_points_on_line(argP)).ravel()
                    if not np.array_equal(argP, P):
                        _viol(out, "sort_points_on_line modified its input array", points=P)
                except Exception as e:
                    _viol(out, "sort_points_on_line raised on collinear points", error=repr(e), points=P)
                    out.ev("line_sort/exception", key)
                    continue
                if sorted(idx.tolist()) != list(range(k)):
                    _viol(out, "sort_points_on_line: result is not a permutation", points=P, got=idx)
                    out.ev("line_sort/VIOLATION", key)
                    continue
                seq = [pos[int(i)] for i in idx]
                inc = all(seq[i] < seq[i + 1] for i in range(k - 1))
                dec = all(seq[i] > seq[i + 1] for i in range(k - 1))
                if not (inc or dec):
                    _viol(out, "sort_points_on_line: returned order is not monotone along the line", points=P, got=idx, positions_in_returned_order=seq)
                    out.ev("line_sort/VIOLATION", key)
                else:
                    out.ev(f"line_sort/k{k}/" + ("increasing" if inc else "decreasing"), key)


# --------------------------------------------------------------------------- sort_triangle_edges


def _surfaces():
    tet = [(0, 1, 2), (0, 1, 3), (0, 2, 3), (1, 2, 3)]
    octa = [(0, 2, 4), (2, 1, 4), (1, 3, 4), (3, 0, 4), (2, 0, 5), (1, 2, 5), (3, 1, 5), (0, 3, 5)]
    strip = [(0, 1, 2), (1, 2, 3), (2, 3, 4), (3, 4, 5)]
    fan = [(0, 1, 2), (0, 2, 3), (0, 3, 4), (0, 4, 5), (0, 5, 1)]
    quad2 = [(0, 1, 2), (0, 2, 3)]
    # surface of a cube, 12 triangles
    cube = [(0, 1, 3), (0, 3, 2), (4, 5, 7), (4, 7, 6), (0, 1, 5), (0, 5, 4), (2, 3, 7), (2, 7, 6), (0, 2, 6), (0, 6, 4), (1, 3, 7), (1, 7, 5)]
    return {"quad2": quad2, "strip4": strip, "fan5": fan, "tet": tet, "octa": octa, "cube12": cube}


SURFACES = list(_surfaces())


def _run_tri_edges(case, out: Outcome):
    from porepy.geometry.sort_points import sort_triangle_edges

    tris = _surfaces()[case["surface"]]
    nt = len(tris)
    orders = list(itertools.permutations(range(nt))) if nt <= 5 else [tuple(range(nt)), tuple(range(nt))[::-1], tuple(range(1, nt)) + (0,),
                                                                           tuple(range(0, nt, 2)) + tuple(range(1, nt, 2))]
    rots = [0, 1, 2]
    for order in orders:
        for flips in itertools.product((0, 1), repeat=nt):
            for rot in rots if nt <= 5 else [0, 1]:
                cols = []
                for ti, f in zip(order, flips):
                    t = list(tris[ti])
                    if f:
                        t = [t[0], t[2], t[1]]
                    r = rot if ti % 2 else 0
                    t = t[r:] + t[:r]
                    cols.append(t)
                T = np.array(cols, dtype=np.int64).T.copy()
                key = ("tri_edges", case["surface"], order, flips, rot) if any(flips) else None
                try:
                    R = np.asarray(sort_triangle_edges(T.copy()))
                except Exception as e:
                    _viol(out, "sort_triangle_edges raised on an orientable manifold triangulation", error=repr(e), triangles=T)
                    out.ev("tri_edges/exception", key)
                    continue
                bad = None
                if R.shape != T.shape:
                    bad = "wrong shape"
                elif any(sorted(R[:, j].tolist()) != sorted(T[:, j].tolist()) for j in range(nt)):
                    bad = "a triangle's vertex set was changed"
                else:
                    directed = [(int(R[i, j]), int(R[(i + 1) % 3, j])) for j in range(nt) for i in range(3)]
                    if len(set(directed)) != len(directed):
                        bad = "an edge occurs twice with the same direction"
                if bad:
                    _viol(out, "sort_triangle_edges: " + bad, triangles=T, got=R)
                    out.ev("tri_edges/VIOLATION", key)
                else:
                    changed = int((R != T).any(axis=0).sum())
                    out.ev(f"tri_edges/{case['surface']}/" + ("unchanged" if changed == 0 else "reoriented"), key)


_RUN = {
    "ccw3": _run_ccw3, "polygon": _run_polygon, "shapes": _run_shapes, "planar": _run_planar, "collinear": _run_collinear,
    "polyhedron": _run_polyhedron, "halfspace": _run_halfspace, "pairs": _run_pairs, "multipairs": _run_multipairs,
    "plane_sort": _run_plane_sort, "line_sort": _run_line_sort, "tri_edges": _run_tri_edges,
}


def run_case(case) -> Outcome:
    out = Outcome()
    _RUN[case["kind"]](case, out)
    out.extra.pop("_cap", None)
    return out


def known_finding(case, viol):
    return None
