"""C15 — Biot coupling terms are consistent.

Engine E: bounded-exhaustive enumeration of (grid, Lame pair); the real ``Biot``
discretization is computed once with all-Dirichlet mechanics and several coupling
coefficients at the same time; for every coefficient the displacement-divergence
matrices are applied to the basis of affine displacement fields (closed form
``alpha * div(u) * |cell|``) and the scalar-gradient matrix to constant pressures
(closed form ``-alpha * p * n_f`` per face).
"""

from __future__ import annotations

import numpy as np

from mc.core import Outcome
from mc.oracles import grpF_fields as F
from mc.oracles import grpF_grids as G

PROPERTY = "C15"
LEVEL = "exploration"
RULE = (
    "every (grid, (mu,lambda), inverter) of the declared alphabet is discretized once with "
    "the real Biot class with the coupling dictionary {one: 1.0, frac: 0.7, iso: "
    "SecondOrderTensor(1.3)}; one evaluation = (coupling key, affine basis field) for the "
    "divergence or (coupling key, constant pressure in {1,-2}) for the scalar gradient; "
    "non-trivial = coupling coefficient != 1 or grid not K-orthogonal, and (divergence) a "
    "field with non-zero gradient; distinct by (grid, mu, lambda, key, field / pressure, eta, pass); "
    "axes: documented scalar `mpsa_eta` in {default, 0, 0.25, 1/3} and uniform grid scale in "
    "{1, 1e-3, 1e3} on one grid per family, where the discretization is also repeated on the SAME "
    "grid and data dictionary and the second set of matrices is checked; grid, stiffness, "
    "coupling tensor and bc arrays are digested before / after every discretize (purity); valid "
    "NON-CONVEX grids (5 dart-quadrilateral grids); `partition_arguments` num_subproblems in "
    "{1 (main alphabet), 2, 3} on one grid per family, C/T(3,2)@map and a dart grid; sequences: ONE "
    "Biot object (and stiffness / coupling objects) used for two grids in a row (same sizes / "
    "different topology; same topology / different geometry; the same grid object moved); 4 prism "
    "grids (grid_extrusion of triangle grids: 3- and 4-node faces); partial update: full discretize then "
    "specified_cells / _faces / _nodes + update_discretization for every single cell, some pairs, "
    "nodes and faces, with a per-cell varying coupling tensor: all stored matrices must equal a fresh "
    "full discretization (1e-12) and alpha_c*div(u)*|c| must hold"
)
ASSUMPTIONS = [
    "all mechanical boundary faces Dirichlet with data u(x_f); constant isotropic stiffness",
    "coupling coefficients are scalars (float, or the equivalent isotropic SecondOrderTensor); "
    "both coupling terms carry the coefficient: alpha*div(u)*|cell| and -alpha*p*n_f",
    "2-d grids lie in the xy-plane; 3-d node perturbations only on simplex grids",
    "tolerance 1e-10 * alpha * max|cell| * (|grad u| + |u|/h_min) for the divergence and "
    "1e-10 * alpha * |p| * max|n_f| for the scalar gradient (measured floor 3e-16); all scales "
    "are geometric, so tolerances are relative under grid scaling",
    "Biot honours the documented scalar `mpsa_eta`; consistency must hold for every eta in [0,1)",
]
BOUNDS = {
    "quick": "C(2,2), T(2,2) x 9 offsets of the interior node; C(3,2), T(3,2) @shear/@skew; "
    "Tet(1,1,1) x 7 offsets of a corner node; C(2,2,2) @id/@shear; Tet(2,1,1)@skew; "
    "(mu,lambda) in {(1,1),(1,10),(3,0)}; inverter python, numba on 4 grids; eta in {0,0.25,1/3} "
    "and scale in {1e-3,1e3} with repeated discretize on C(2,2)~, T(2,2)~, Tet(1,1,1)~, C(2,2,2)@shear",
    "thorough": "quick + C(3,2), T(3,2) x 81 offset pairs; C(3,3), T(3,3) single offsets of "
    "each interior node; Tet(1,1,1) x 27 offsets; Tet(2,2,2) x 27 offsets of the interior "
    "node; C(2,2,2)@skew, C(3,2,2)@shear, Tet(2,2,1)@shear",
}
MIN_CLASSES = 6
CHUNK = 8
TOL = 1e-10
KW = "mechanics"
DARTS = [  # valid non-convex (dart) quadrilaterals: an interior node moved past a neighbour's diagonal
    {"kind": "cart", "n": [3, 3], "set": [[5, [0.05, 0.07]]]},
    {"kind": "cart", "n": [3, 3], "set": [[5, [0.05, 0.07]]], "map": "shear"},
    {"kind": "cart", "n": [2, 2], "set": [[4, [0.9, 0.88]]]},
    {"kind": "cart", "n": [3, 2], "set": [[5, [0.06, 0.1]]]},
    {"kind": "cart", "n": [3, 3], "set": [[5, [0.05, 0.07]], [10, [0.95, 0.93]]]},
]
PRISMS = [  # extruded triangle grids: cells with triangular AND quadrilateral faces
    {"kind": "prism", "n": [2, 2], "z": [0, 0.4, 1]},
    {"kind": "prism", "n": [2, 1], "z": [0, 0.4, 1]},
    {"kind": "prism", "n": [2, 2], "z": [0, 0.4, 1], "pert": [[4, [1, -1]]]},
    {"kind": "prism", "n": [2, 1], "z": [0, 0.4, 1], "map": "shear"},
]
MULAM = [(1.0, 1.0), (1.0, 10.0), (3.0, 0.0)]
ALPHAS = {"one": 1.0, "frac": 0.7, "iso": 1.3}
PRESSURES = [1.0, -2.0]


def _patterns(spec, nodes, lattice):
    import itertools

    out = []
    for combo in itertools.product(lattice, repeat=len(nodes)):
        pert = [[n, list(o)] for n, o in zip(nodes, combo) if any(o)]
        out.append(dict(spec, pert=pert) if pert else dict(spec))
    return out


def _grids(tier):
    L2, L3 = G.lattice(2), G.lattice(3)
    c22, t22 = {"kind": "cart", "n": [2, 2]}, {"kind": "tri", "n": [2, 2]}
    c32, t32 = {"kind": "cart", "n": [3, 2]}, {"kind": "tri", "n": [3, 2]}
    tet1 = {"kind": "tet", "n": [1, 1, 1]}
    c222 = {"kind": "cart", "n": [2, 2, 2]}
    gs = []
    for b in (c22, t22):
        gs += _patterns(b, G.interior_nodes(b), L2)
    for b in (c32, t32):
        gs += [dict(b, map=m) for m in ("shear", "skew")]
    gs += [c222, dict(c222, map="shear"), {"kind": "tet", "n": [2, 1, 1], "map": "skew"}]
    if tier == "quick":
        gs += _patterns(tet1, [7], [o for o in L3 if sum(abs(x) for x in o) <= 1])
        return gs
    gs += _patterns(tet1, [7], L3)
    for b in (c32, t32):
        gs += _patterns(b, G.interior_nodes(b), L2)[1:]
    for b in ({"kind": "cart", "n": [3, 3]}, {"kind": "tri", "n": [3, 3]}):
        for nd in G.interior_nodes(b):
            gs += _patterns(b, [nd], [o for o in L2 if any(o)])
    t222 = {"kind": "tet", "n": [2, 2, 2]}
    gs += _patterns(t222, G.interior_nodes(t222), L3)
    gs += [dict(c222, map="skew"), {"kind": "cart", "n": [3, 2, 2], "map": "shear"},
           {"kind": "tet", "n": [2, 2, 1], "map": "shear"}]
    return gs


def cases(tier):
    out = [{"grid": s, "mu": mu, "lam": lam, "inverter": "python"} for s in _grids(tier) for mu, lam in MULAM]
    numba_grids = [
        {"kind": "cart", "n": [2, 2], "pert": [[4, [1, -1]]]},
        {"kind": "tri", "n": [2, 2], "pert": [[4, [1, -1]]]},
        {"kind": "tet", "n": [1, 1, 1], "pert": [[7, [1, 0, 0]]]},
        {"kind": "cart", "n": [2, 2, 2], "map": "shear"},
    ]
    out += [{"grid": s, "mu": 1.0, "lam": 10.0, "inverter": "numba"} for s in numba_grids]
    # eta / scale axes, each with a repeated discretization on the same grid and data dict
    fam = [
        {"kind": "cart", "n": [2, 2], "pert": [[4, [1, -1]]]},
        {"kind": "tri", "n": [2, 2], "pert": [[4, [1, -1]]]},
        {"kind": "tet", "n": [1, 1, 1], "pert": [[7, [1, -1, 1]]]},
        {"kind": "cart", "n": [2, 2, 2], "map": "shear"},
    ]
    for sp in fam:
        for mu, lam in MULAM if tier != "quick" else [(1.0, 10.0)]:
            out += [{"grid": sp, "mu": mu, "lam": lam, "inverter": "python", "eta": e, "reuse": True}
                    for e in (0.0, 0.25, 1.0 / 3.0)]
        out += [{"grid": dict(sp, scale=sc), "mu": 1.0, "lam": 10.0, "inverter": "python", "reuse": True}
                for sc in (1e-3, 1e3)]
    # valid non-convex (dart) grids, and partitioned discretization on one grid per family + a dart
    ml = MULAM if tier != "quick" else [(1.0, 10.0)]
    out += [{"grid": sp, "mu": mu, "lam": lam, "inverter": "python"} for sp in DARTS for mu, lam in ml]
    part_grids = fam + [{"kind": "cart", "n": [3, 2], "map": "shear"}, {"kind": "tri", "n": [3, 2], "map": "skew"}, DARTS[0]]
    out += [{"grid": sp, "mu": mu, "lam": lam, "inverter": "python", "nsub": k}
            for sp in part_grids for k in (2, 3) for mu, lam in ml]
    # grids with mixed face types (prisms), also partitioned
    out += [{"grid": sp, "mu": mu, "lam": lam, "inverter": "python"} for sp in PRISMS for mu, lam in ml]
    out += [{"grid": PRISMS[1], "mu": 1.0, "lam": 10.0, "inverter": "python", "nsub": 2},
            {"grid": PRISMS[3], "mu": 1.0, "lam": 10.0, "inverter": "python", "eta": 0.25, "reuse": True}]
    # partial update: full discretize, then re-discretize a proper subset (specified cells / faces /
    # nodes, update_discretization=True) with a coupling tensor that varies from cell to cell
    upd = [
        ({"kind": "cart", "n": [4, 4]}, 16, None),
        ({"kind": "tri", "n": [3, 3], "pert": [[5, [1, -1]]]}, 18, None),
        ({"kind": "tet", "n": [1, 1, 1], "pert": [[7, [1, -1, 1]]]}, 6, []),
        ({"kind": "cart", "n": [2, 2, 2], "map": "shear"}, 8, []),
        ({"kind": "cart", "n": [3, 3, 3]}, 27, [0, 13, 26]),
    ]
    for sp, nc_, single in upd:
        cells = range(nc_) if single is None else single
        subsets = [["cells", [c]] for c in cells] + [["nodes", [0]], ["nodes", [4]], ["faces", [0]]]
        if single is None:
            subsets += [["cells", [0, nc_ - 1]], ["cells", [1, 2]], ["faces", [3]], ["faces", [0, 5]]]
        out += [{"grid": sp, "mu": 1.0, "lam": 10.0, "inverter": "python", "update": u} for u in subsets]
    # ONE Biot object (and stiffness / coupling objects) reused for two grids
    out += [{"grid": s1, "seq": [kind, s1, s2], "mu": mu, "lam": lam, "inverter": "python"}
            for kind, s1, s2 in G.SEQ_PAIRS_2D + G.SEQ_PAIRS_3D for mu, lam in ml]
    return out


def _run_update(case) -> Outcome:
    """Full discretization, then a partial re-discretization of a proper subset with a coupling
    tensor that varies from cell to cell. Oracles: (a) every stored matrix equals the one of a fresh
    full discretization with the same parameters (1e-12 relative); (b) the divergence identity
    alpha_c * div(u) * |c| for every cell (closed form)."""
    import porepy as pp
    import scipy.sparse as sps

    out = Outcome()
    spec, mu, lam = case["grid"], case["mu"], case["lam"]
    what, idx = case["update"]
    g = G.build(spec)
    d, nf, nc = g.dim, g.num_faces, g.num_cells
    bf = G.boundary_faces(g)
    xc, xf, vol = g.cell_centers[:d].copy(), g.face_centers[:d].copy(), g.cell_volumes.copy()
    hmin, vmax = G.h_min(g), float(g.cell_volumes.max())
    alpha_c = 0.5 + 0.1 * np.arange(nc)
    gname = G.name(spec)
    gcls = f"{d}d/{spec['kind']}/update-{what}{len(idx)}"
    base = {"grid": spec, "grid_name": gname, "mu": mu, "lam": lam, "update": case["update"], "alpha_cells": alpha_c}

    def params():
        return {"fourth_order_tensor": pp.FourthOrderTensor(mu * np.ones(nc), lam * np.ones(nc)),
                "bc": pp.BoundaryConditionVectorial(g, bf, ["dir"] * bf.size), "inverter": "python",
                "scalar_vector_mappings": {"var": pp.SecondOrderTensor(alpha_c.copy()), "frac": ALPHAS["frac"]}}

    def flat(M):
        res = {}
        for k, v in M.items():
            if isinstance(v, dict):
                for k2, v2 in v.items():
                    res[f"{k}[{k2}]"] = sps.csr_matrix(v2).toarray()
            elif sps.issparse(v):
                res[k] = v.toarray()
        return res

    try:
        fresh = pp.initialize_data({}, KW, params())
        pp.Biot(KW).discretize(g, fresh)
        ref = flat(fresh[pp.DISCRETIZATION_MATRICES][KW])
        data = pp.initialize_data({}, KW, params())
        disc = pp.Biot(KW)
        disc.discretize(g, data)
        prm = data[pp.PARAMETERS][KW]
        prm["specified_" + what] = np.array(idx, dtype=int)
        prm["update_discretization"] = True
        disc.discretize(g, data)
        active = np.asarray(prm.get("active_cells", np.arange(nc)))
        M = data[pp.DISCRETIZATION_MATRICES][KW]
        got = flat(M)
    except Exception as e:
        out.violate("Biot partial update (specified_" + what + ", update_discretization) raised", error=repr(e), **base)
        out.ev(f"{gcls}/exception")
        return out
    proper = active.size < nc
    key = (gname, what, tuple(idx)) if proper else None
    bad = None
    for k in sorted(ref):
        scale = max(1e-300, float(np.abs(ref[k]).max()))
        if k not in got or got[k].shape != ref[k].shape or np.abs(got[k] - ref[k]).max() > 1e-12 * scale:
            err = float(np.abs(got[k] - ref[k]).max()) if k in got and got[k].shape == ref[k].shape else None
            bad = ("matrix after a partial update differs from a fresh full discretization", {"matrix": k, "max_abs_diff": err, "scale": scale})
            break
    if bad is None:
        du = M[disc.displacement_divergence_matrix_key]["var"]
        bdu = M[disc.bound_displacement_divergence_matrix_key]["var"]
        for label, kind, a, Gm in F.affine_vector_basis(d, rotations=False):
            uc = a[:, None] + Gm @ xc
            uf = a[:, None] + Gm @ xf
            bcv = np.zeros((d, nf))
            bcv[:, bf] = uf[:, bf]
            val = du @ uc.ravel("F") + bdu @ bcv.ravel("F")
            exp = alpha_c * float(np.trace(Gm)) * vol
            umax = float(max(1.0, np.abs(uc).max(), np.abs(uf).max()))
            tol = TOL * alpha_c.max() * vmax * (float(np.abs(Gm).max()) + umax / hmin)
            if not np.all(np.isfinite(val)) or np.abs(val - exp).max() > tol:
                c = int(np.nanargmax(np.abs(val - exp)))
                bad = ("after a partial update the displacement divergence differs from alpha_c*div(u)*|cell|",
                       {"field": label, "cell": c, "observed": float(val[c]), "expected": float(exp[c]), "tol": tol})
                break
    cls = f"{gcls}/" + ("proper-subset" if proper else "whole-grid-active")
    if bad is not None:
        out.violate(bad[0], active_cells=active, **bad[1], **base)
        cls += "/VIOLATION"
    out.ev(cls, key)
    return out


def run_case(case) -> Outcome:
    if "update" in case:
        return _run_update(case)
    if "seq" not in case:
        return _run_single(case)
    # one Biot object (and, sizes permitting, the same stiffness / coupling objects) for both grids
    out = Outcome()
    shared = {"kind": case["seq"][0], "step": 0}
    for spec in case["seq"][1:]:
        shared["step"] += 1
        out.merge(_run_single(dict(case, grid=spec), shared))
    return out


def _run_single(case, shared=None) -> Outcome:
    import porepy as pp

    out = Outcome()
    spec, mu, lam = case["grid"], case["mu"], case["lam"]
    g = G.get_grid(spec, shared)
    d, nf, nc = g.dim, g.num_faces, g.num_cells
    bf = G.boundary_faces(g)
    xc, xf, nrm = g.cell_centers[:d].copy(), g.face_centers[:d].copy(), g.face_normals[:d].copy()
    vol = g.cell_volumes.copy()
    eta = case.get("eta", None)
    hmin = G.h_min(g)
    amax = float(np.linalg.norm(nrm, axis=0).max())
    vmax = float(g.cell_volumes.max())
    gname = G.name(spec)
    korth = spec["kind"] == "cart" and not spec.get("pert") and not spec.get("set") and spec.get("map", "id") == "id"
    plain = not spec.get("pert") and not spec.get("set") and spec.get("map", "id") == "id"
    if spec.get("set") and not G.nonconvex_cells(g):
        raise RuntimeError("declared dart grid has no non-convex cell")
    nsub = case.get("nsub", None)
    gcls = f"{d}d/{spec['kind']}" + ("" if plain else "*") + f"/{case['inverter']}"
    if eta is not None:
        gcls += f"/eta={eta:.2f}"
    if spec.get("scale", 1) != 1:
        gcls += f"/x{spec['scale']:g}"
    if spec.get("set"):
        gcls += "/dart"
    if nsub is not None:
        gcls += f"/nsub={nsub}"
    base = {"grid": spec, "grid_name": gname, "mu": mu, "lam": lam, "inverter": case["inverter"], "eta": eta,
            "num_subproblems": nsub}

    coupling = {"one": ALPHAS["one"], "frac": ALPHAS["frac"],
                "iso": pp.SecondOrderTensor(ALPHAS["iso"] * np.ones(nc))}
    bc = pp.BoundaryConditionVectorial(g, bf, ["dir"] * bf.size)
    stiff = pp.FourthOrderTensor(mu * np.ones(nc), lam * np.ones(nc))
    if shared is not None:
        gcls += f"/seq-{shared['kind']}{shared['step']}"
        base["sequence"] = [shared["kind"], shared["step"]]
        if shared.get("nc") == nc:
            stiff, coupling = shared["stiff"], shared["coupling"]
        shared.update(nc=nc, stiff=stiff, coupling=coupling)
    prm = {"fourth_order_tensor": stiff, "bc": bc, "inverter": case["inverter"], "scalar_vector_mappings": coupling}
    if eta is not None:
        prm["mpsa_eta"] = eta
    if nsub is not None:
        prm["partition_arguments"] = {"num_subproblems": nsub}
    data = pp.initialize_data({}, KW, prm)
    disc = shared.setdefault("disc", pp.Biot(KW)) if shared is not None else pp.Biot(KW)
    dig0 = G.digest(g, stiff, bc, coupling["iso"])
    case = dict(case, _step=shared["step"] if shared else 0)
    for npass in range(2 if case.get("reuse") else 1):
        _one_pass(out, pp, disc, g, data, coupling, dig0, (stiff, bc), npass, base, gcls, gname, korth, case,
                  d, nf, nc, bf, xc, xf, nrm, vol, hmin, amax, vmax, mu, lam, eta)
    if not korth:
        out.samples.append({"grid": gname, "mu": mu, "lam": lam, "alphas": ALPHAS, "pressures": PRESSURES,
                            "fields": [f[0] for f in F.affine_vector_basis(d)]})
    return out


def _one_pass(out, pp, disc, g, data, coupling, dig0, args, npass, base, gcls, gname, korth, case,
              d, nf, nc, bf, xc, xf, nrm, vol, hmin, amax, vmax, mu, lam, eta):
    """One discretize on (g, data) followed by all evaluations; pass 2 reuses everything."""
    tag = "" if npass == 0 else "/reuse"
    base = dict(base, discretize_pass=npass + 1)
    try:
        disc.discretize(g, data)
        M = data[pp.DISCRETIZATION_MATRICES][KW]
        DU = M[disc.displacement_divergence_matrix_key]
        BDU = M[disc.bound_displacement_divergence_matrix_key]
        SG = M[disc.scalar_gradient_matrix_key]
        mats = {k: (DU[k], BDU[k], SG[k]) for k in coupling}
    except Exception as e:
        out.violate("Biot.discretize raised / did not store the coupling matrices", error=repr(e), **base)
        out.ev(f"{gcls}/exception{tag}")
        return

    if G.digest(g, args[0], args[1], coupling["iso"]) != dig0:
        out.violate("Biot.discretize modified its grid / stiffness / coupling / boundary-condition arguments", **base)
        out.ev(f"{gcls}/impure/VIOLATION")
    for key, alpha in ALPHAS.items():
        du, bdu, sg = mats[key]
        if du.shape != (nc, nc * d) or bdu.shape != (nc, nf * d) or sg.shape != (nf * d, nc):
            out.violate("coupling matrix has the wrong shape", key=key, shapes=[du.shape, bdu.shape, sg.shape], **base)
            out.ev(f"{gcls}/{key}/VIOLATION")
            continue
        for label, kind, a, Gm in F.affine_vector_basis(d):
            uc = a[:, None] + Gm @ xc
            uf = a[:, None] + Gm @ xf
            bcv = np.zeros((d, nf))
            bcv[:, bf] = uf[:, bf]
            got = du @ uc.ravel("F") + bdu @ bcv.ravel("F")
            exp = alpha * float(np.trace(Gm)) * vol
            umax = float(max(1.0, np.abs(uc).max(), np.abs(uf).max()))
            tol = TOL * alpha * vmax * (float(np.abs(Gm).max()) + umax / hmin)
            trace = "div" if abs(np.trace(Gm)) > 0 else ("shear" if kind == "lin" else kind)
            nontrivial = kind != "transl" and (alpha != 1.0 or not korth)
            k = (gname, mu, lam, key, label, case["inverter"], eta, npass, case.get("nsub"), case.get("_step")) if nontrivial else None
            err = np.abs(got - exp)
            if not np.all(np.isfinite(got)) or err.max() > tol:
                c = int(np.nanargmax(err)) if np.all(np.isfinite(err)) else 0
                if len(out.violations) < 5:
                    out.violate("displacement divergence differs from alpha*div(u)*|cell| for a linear field",
                                key=key, alpha=alpha, field=label, a=a, grad=Gm, cell=c, observed=got[c],
                                expected=exp[c], tol=tol, **base)
                out.ev(f"{gcls}/{key}/divu/{trace}{tag}/VIOLATION", k)
            else:
                out.ev(f"{gcls}/{key}/divu/{trace}{tag}", k)
        for p in PRESSURES:
            got = (sg @ (p * np.ones(nc))).reshape((d, nf), order="F")
            exp = -alpha * p * nrm
            tol = TOL * alpha * abs(p) * amax
            k = (gname, mu, lam, key, f"p={p}", case["inverter"], eta, npass, case.get("nsub"), case.get("_step")) if (alpha != 1.0 or not korth) else None
            err = np.abs(got - exp)
            if not np.all(np.isfinite(got)) or err.max() > tol:
                f = int(np.nanargmax(err.max(axis=0))) if np.all(np.isfinite(err)) else 0
                if len(out.violations) < 5:
                    out.violate("scalar gradient of a constant pressure differs from -alpha*p*n_f",
                                key=key, alpha=alpha, pressure=p, face=f, is_boundary=bool(f in set(bf.tolist())),
                                observed=got[:, f], expected=exp[:, f], tol=tol, **base)
                out.ev(f"{gcls}/{key}/gradp{tag}/VIOLATION", k)
            else:
                out.ev(f"{gcls}/{key}/gradp{tag}", k)


def known_finding(case, viol):
    return None
