"""C29 — split_intersecting_segments_2d yields a non-crossing covering subdivision.

Engine E: every set of k integer-lattice segments (k = 2, 3, 4 as declared) is passed to
the real function in several presentations (segment order, orientation, shared or
duplicated point columns). The output is lifted to exact rationals (every used output
point must coincide, to 1e-9, with an input endpoint or an exact pairwise intersection
point) and then judged in exact arithmetic against the four clauses of the statement.
"""

from __future__ import annotations

import itertools
import math

import numpy as np

from mc.core import Outcome
from mc.oracles import grpI_exact as X
from mc.oracles import grpI_variants as VR

_VARIANTS = VR.VARIANTS + [("id", "C", "float", False)]

PROPERTY = "C29"
LEVEL = "exploration"
RULE = (
    "all k-subsets of the non-degenerate segments with endpoints on the integer lattice box, "
    "each presented in every declared (order, orientation, point-sharing) variant with tag = "
    "10 + input index; one case = all subsets with a fixed smallest (or two smallest) segment "
    "index; non-trivial = at least one pair of the set has a non-empty exact intersection; "
    "distinct by (box, subset)"
)
ASSUMPTIONS = [
    "integer lattice endpoints; exact arrangement vertices are rationals with denominator <= 81, "
    "pairwise >= 1e-2 apart, so snapping an output point to the nearest exact vertex within 1e-9 is "
    "unambiguous",
    "every output point used by an edge must be an input endpoint or an exact pairwise "
    "intersection (an implementation that inserts extra subdivision points in the middle of a "
    "segment would be reported; the function under test never does this)",
    "points not referenced by any output edge are ignored; the tag_info return value is not judged",
    "each presentation is given in one of five representations chosen by a fixed rotation: plain, "
    "translated by 1000 (C order, read-only), scaled by 2^-10 (Fortran order, read-only), scaled by 2^10, "
    "int64 points (Fortran order, read-only); the maps are exact, returned points are mapped back before "
    "judging (tol=1e-8 default stays >= 1000x below the smallest vertex separation 2^-10/81)",
    "purity: p and e must be bitwise unchanged after the call (read-only inputs must be accepted)",
]
BOUNDS = {
    "quick": "{0,1,2}^2 (36 segments): all 630 pairs x 16 presentations (2 orders x 4 orientation "
    "patterns x shared/duplicated points), all 7 140 triples x 14 presentations (6 orders shared + 6 "
    "orders duplicated + 2 reversed-orientation); {0..3}^2 (120 segments): all 7 140 pairs x 16 presentations; "
    "4 five-segment configurations (comb, 2x2 hash, star, mixed T/overlap; 3-5 new points, one isolated "
    "segment) x all 120 segment orders x {all forward, all reversed} x 30 point labellings (schemes "
    "dup / starts-then-ends / nested, each in all 10 cyclic shifts of the labels)",
    "thorough": "quick + {0,1,2}^2 all 58 905 quadruples x 4 presentations + {0..3}^2 all 280 840 "
    "triples x 4 presentations + the five-segment configurations with two more orientation patterns + "
    "a six-segment 2x3 hash (720 orders x 36 labellings x 4 orientation patterns)",
}
MIN_CLASSES = 10
CHUNK = 4
TOL = 1e-9


def _segments(n):
    pts = list(itertools.product(range(n), repeat=2))
    return list(itertools.combinations(pts, 2))


def cases(tier):
    out = []
    n36, n120 = len(_segments(3)), len(_segments(4))
    for i in range(n36 - 1):
        out.append({"n": 3, "k": 2, "fix": [i], "pres": "full"})
    for i in range(n36 - 2):
        out.append({"n": 3, "k": 3, "fix": [i], "pres": "full"})
    for i in range(n120 - 1):
        out.append({"n": 4, "k": 2, "fix": [i], "pres": "full"})
    # multi-segment configurations with 3-6 new intersection points in many point numberings
    for name, segs in MULTI.items():
        if len(segs) > 5 and tier != "thorough":
            continue
        norders = math.factorial(len(segs))
        for b in range(0, norders, 10):
            out.append({"multi": name, "orders": [b, min(norders, b + 10)], "tier": tier})
    if tier == "thorough":
        for i in range(n36 - 3):
            for j in range(i + 1, n36 - 2):
                out.append({"n": 3, "k": 4, "fix": [i, j], "pres": "light"})
        for i in range(n120 - 2):
            for j in range(i + 1, n120 - 1):
                out.append({"n": 4, "k": 3, "fix": [i, j], "pres": "light"})
    return out


def _presentations(k, mode):
    """(order permutation, orientation flips, share points?)"""
    ident = tuple(range(k))
    rev = ident[::-1]
    noflip = (0,) * k
    allflip = (1,) * k
    alt = tuple(i % 2 for i in range(k))
    if mode == "light":
        return [(ident, noflip, True), (rev, alt, True), (ident, allflip, False), (rev, noflip, False)]
    pres = []
    if k == 2:
        for share in (True, False):
            for order in (ident, rev):
                for fl in (noflip, allflip, alt, tuple(1 - a for a in alt)):
                    pres.append((order, fl, share))
        return pres
    for order in itertools.permutations(ident):
        pres.append((order, noflip, True))
    for order in itertools.permutations(ident):
        pres.append((order, alt, False))
    pres.append((ident, allflip, True))
    pres.append((rev, tuple(1 - a for a in alt), True))
    return pres


def _build_input(segs, order, flips, share):
    """-> p (2, n) float, e (3, k) int, list of (a, b) exact in presented order."""
    presented = []
    for pos, idx in enumerate(order):
        a, b = segs[idx]
        if flips[pos]:
            a, b = b, a
        presented.append((a, b))
    if share:
        pts = sorted({q for s in presented for q in s})
        index = {q: i for i, q in enumerate(pts)}
        e = [[index[a] for a, _ in presented], [index[b] for _, b in presented]]
    else:
        pts = [q for s in presented for q in s]
        e = [[2 * i for i in range(len(presented))], [2 * i + 1 for i in range(len(presented))]]
    e.append([10 + i for i in range(len(presented))])
    return np.array(pts, dtype=float).T.copy(), np.array(e, dtype=int), presented


def _relation(r, s1, s2):
    if r[0] == "none":
        return "none"
    if r[0] == "segment":
        return "overlap"
    P = r[1]
    e1 = P in (X.fpt(s1[0]), X.fpt(s1[1]))
    e2 = P in (X.fpt(s2[0]), X.fpt(s2[1]))
    if e1 and e2:
        return "L"
    if e1 or e2:
        return "T"
    return "X"


_CAND_CACHE: dict = {}
_GEOM_OK: set = set()


def _judge(presented, res):
    """Exact verdict; returns (error string or None, detail, number of output edges)."""
    k = len(presented)
    if not isinstance(res, tuple) or len(res) != 4:
        return "malformed return value", repr(type(res)), 0
    pts, edges, _tag_info, argsort = res
    pts = np.asarray(pts, dtype=float)
    edges = np.asarray(edges)
    argsort = np.asarray(argsort)
    if pts.ndim != 2 or pts.shape[0] != 2 or edges.ndim != 2 or edges.shape[0] != 3:
        return "malformed points/edges arrays", [list(pts.shape), list(edges.shape)], 0
    ne = edges.shape[1]
    if argsort.shape != (ne,):
        return "argsort has wrong length", [list(argsort.shape), ne], ne
    if ne == 0:
        return "no edges returned", None, 0
    if edges[:2].min() < 0 or edges[:2].max() >= pts.shape[1] or argsort.min() < 0 or argsort.max() >= k:
        return "index out of range", None, ne

    # exact candidate vertices (memoised per unordered set of unoriented input segments)
    gkey = frozenset(frozenset(s) for s in presented)
    hit = _CAND_CACHE.get(gkey)
    if hit is None:
        cand = set()
        for a, b in presented:
            cand.add(X.fpt(a))
            cand.add(X.fpt(b))
        for (s1, s2) in itertools.combinations(presented, 2):
            r = X.seg_isect(s1[0], s1[1], s2[0], s2[1])
            for P in r[1:]:
                cand.add(tuple(P))
        cand_list = sorted(cand)
        if len(_CAND_CACHE) > 20000:
            _CAND_CACHE.clear()
        hit = _CAND_CACHE[gkey] = (cand_list, np.array([[float(x) for x in c] for c in cand_list]))
    cand_list, cand_f = hit

    snapped = {}
    for idx in sorted(set(int(i) for i in edges[:2].ravel())):
        d = np.max(np.abs(cand_f - pts[:, idx]), axis=1)
        j = int(np.argmin(d))
        if not d[j] <= TOL:
            return "output vertex is neither an input endpoint nor an intersection point", [idx, pts[:, idx].tolist()], ne
        snapped[idx] = cand_list[j]

    ex_edges = []
    seen = set()
    for c in range(ne):
        P, Q = snapped[int(edges[0, c])], snapped[int(edges[1, c])]
        if P == Q:
            return "zero-length edge", [c, [float(x) for x in P]], ne
        key = frozenset((P, Q))
        if key in seen:
            return "duplicate edge", [c, [float(x) for x in P], [float(x) for x in Q]], ne
        seen.add(key)
        parent = int(argsort[c])
        a, b = presented[parent]
        if not (X.point_on_segment(P, a, b) and X.point_on_segment(Q, a, b)):
            return "edge is not contained in the input segment it is mapped to", [c, parent, [float(x) for x in P], [float(x) for x in Q]], ne
        if int(edges[2, c]) != 10 + parent:
            return "edge does not carry the tag of the input segment it is mapped to", [c, parent, int(edges[2, c])], ne
        ex_edges.append((P, Q))

    # the two remaining clauses depend only on the exact edge set and the input segment set
    ekey = (gkey, frozenset(seen))
    if ekey in _GEOM_OK:
        return None, None, ne
    for (i, (P, Q)), (j, (R, S)) in itertools.combinations(enumerate(ex_edges), 2):
        r = X.seg_isect(P, Q, R, S)
        if r[0] == "none":
            continue
        if r[0] == "segment":
            return "two output edges overlap", [i, j], ne
        Z = tuple(r[1])
        if not (Z in (P, Q) and Z in (R, S)):
            return "two output edges meet in a point that is not a shared endpoint", [i, j, [float(x) for x in Z]], ne

    # coverage: every elementary interval of every input segment lies on an output edge
    for si, (a, b) in enumerate(presented):
        ts = sorted({X.param_on_line(v, a, b) for v in cand_list if X.point_on_segment(v, a, b)})
        for t0, t1 in zip(ts[:-1], ts[1:]):
            m = X.lerp(a, b, (t0 + t1) / 2)
            if not any(X.point_on_segment(m, P, Q) for P, Q in ex_edges):
                return "part of an input segment is not covered by any output edge", [si, [float(x) for x in m]], ne
    if len(_GEOM_OK) > 20000:
        _GEOM_OK.clear()
    _GEOM_OK.add(ekey)
    return None, None, ne


def _returned(res):
    try:
        return {"pts": np.asarray(res[0]), "edges": np.asarray(res[1]), "argsort": np.asarray(res[3])}
    except Exception:
        return repr(res)[:300]


def _run_one(out: Outcome, segs, subset, n, mode, per_cat):
    from porepy.geometry import intersections

    base = [segs[i] for i in subset]
    rel = []
    for s1, s2 in itertools.combinations(base, 2):
        rel.append(_relation(X.seg_isect(s1[0], s1[1], s2[0], s2[1]), s1, s2))
    nontrivial = any(r != "none" for r in rel)
    cls_base = "+".join(sorted(rel))
    key = (n,) + tuple(subset) if nontrivial else None
    for ipres, (order, flips, share) in enumerate(_presentations(len(subset), mode)):
        p0, e0, presented = _build_input(base, order, flips, share)
        # rotating representation / similarity variant (every 5th presentation is plain)
        v = _VARIANTS[(ipres + sum(subset)) % len(_VARIANTS)]
        p = VR.make(p0, v)
        e = VR.represent(e0, v[1], "int", v[3])
        p_in, e_in = p.copy(), e.copy()
        pur = VR.Purity(p=p, e=e)
        try:
            res = intersections.split_intersecting_segments_2d(p, e, return_argsort=True)
            if v[0] != "id" and isinstance(res, tuple) and len(res) == 4:
                res = (VR.inv(res[0], v[0]),) + tuple(res[1:])
            err, detail, ne = _judge(presented, res)
        except Exception as ex:
            err, detail, ne = "raised on valid input", repr(ex), 0
        if err is None and pur.changed():
            err, detail = "input array modified: " + ",".join(pur.changed()), None
        if err is not None:
            per_cat[err] = per_cat.get(err, 0) + 1
            if per_cat[err] <= 2:
                out.violate(
                    "split_intersecting_segments_2d: " + err, detail=detail,
                    p=p_in, e=e_in, variant=VR.name(v), segments=[[list(a), list(b)] for a, b in presented],
                    returned=_returned(None if err.startswith("raised") else res),
                )
            out.ev("VIOLATION/" + cls_base, key)
        else:
            out.ev(f"{cls_base}/{'shared' if share else 'dup'}", key)
            out.extra["variant " + VR.name(v)] = out.extra.get("variant " + VR.name(v), 0) + 1
        if not out.samples and "X" in rel and "T" in rel:
            out.samples.append({"segments": [[list(a), list(b)] for a, b in presented], "relations": rel,
                                "output_edges": int(ne)})


# Configurations of 4-6 segments (last one mostly isolated) producing several new points.
MULTI = {
    # one segment crossed by three others + an isolated one (3 crossings)
    "comb": [((0, 1), (4, 1)), ((1, 0), (1, 2)), ((2, 0), (2, 2)), ((3, 0), (3, 2)), ((0, 3), (4, 3))],
    # 2 x 2 hash + isolated (4 crossings)
    "hash": [((0, 1), (3, 1)), ((0, 2), (3, 2)), ((1, 0), (1, 3)), ((2, 0), (2, 3)), ((4, 0), (4, 3))],
    # two diagonals and two horizontals, pairwise crossing (5 crossings) + isolated
    "star": [((0, 0), (4, 4)), ((0, 4), (4, 0)), ((0, 1), (4, 1)), ((0, 3), (4, 3)), ((5, 0), (5, 4))],
    # T-junction, crossing, shared endpoint and a partial overlap on one base segment
    "mixed": [((0, 0), (4, 0)), ((1, 0), (1, 2)), ((2, -1), (2, 1)), ((0, 0), (2, 2)), ((3, 0), (5, 0))],
    # thorough only: 2 x 3 hash + isolated (6 crossings)
    "hash23": [((0, 1), (4, 1)), ((0, 2), (4, 2)), ((1, 0), (1, 3)), ((2, 0), (2, 3)), ((3, 0), (3, 3)), ((5, 0), (5, 3))],
}
SCHEMES = ("dup", "se", "nested")


def _labelled_input(presented, scheme, shift):
    """Point array in which the 2m endpoints (coincident ones are NOT merged) carry the labels
    of the scheme, cyclically shifted: dup = (s0,e0,s1,e1,..), se = (s0,s1,..,e0,e1,..),
    nested = (s0,s1,..,e1,e0)."""
    m = len(presented)
    p = np.zeros((2, 2 * m))
    e = np.zeros((3, m), dtype=int)
    for i, (a, b) in enumerate(presented):
        if scheme == "dup":
            sa, sb = 2 * i, 2 * i + 1
        elif scheme == "se":
            sa, sb = i, m + i
        else:
            sa, sb = i, 2 * m - 1 - i
        la, lb = (sa + shift) % (2 * m), (sb + shift) % (2 * m)
        p[:, la], p[:, lb] = a, b
        e[:, i] = (la, lb, 10 + i)
    return p, e


def _run_multi(case) -> Outcome:
    from porepy.geometry import intersections

    out = Outcome()
    base = MULTI[case["multi"]]
    m = len(base)
    lo, hi = case["orders"]
    orders = list(itertools.permutations(range(m)))[lo:hi]
    flipsets = [(0,) * m, (1,) * m]
    if case["tier"] == "thorough":
        flipsets += [tuple(i % 2 for i in range(m)), tuple(1 - i % 2 for i in range(m))]
    per_cat: dict = {}
    cnt = 0
    for order in orders:
        for flips in flipsets:
            presented = []
            for pos, idx in enumerate(order):
                a, b = base[idx]
                presented.append((b, a) if flips[pos] else (a, b))
            for scheme in SCHEMES:
                for shift in range(2 * m):
                    p0, e0 = _labelled_input(presented, scheme, shift)
                    cnt += 1
                    v = _VARIANTS[cnt % len(_VARIANTS)]
                    p, e = VR.make(p0, v), VR.represent(e0, v[1], "int", v[3])
                    pur = VR.Purity(p=p, e=e)
                    try:
                        res = intersections.split_intersecting_segments_2d(p, e, return_argsort=True)
                        if v[0] != "id" and isinstance(res, tuple) and len(res) == 4:
                            res = (VR.inv(res[0], v[0]),) + tuple(res[1:])
                        err, detail, ne = _judge(presented, res)
                    except Exception as ex:
                        err, detail, ne, res = "raised on valid input", repr(ex), 0, None
                    if err is None and pur.changed():
                        err, detail = "input array modified: " + ",".join(pur.changed()), None
                    key = (case["multi"], order, flips[0], flips[-1], scheme, shift)
                    if err is not None:
                        per_cat[err] = per_cat.get(err, 0) + 1
                        if per_cat[err] <= 2:
                            out.violate("split_intersecting_segments_2d: " + err, detail=detail, p=p0, e=e0,
                                        variant=VR.name(v), labelling=[scheme, shift],
                                        segments=[[list(a), list(b)] for a, b in presented], returned=_returned(res))
                        out.ev(f"VIOLATION/multi/{case['multi']}", key)
                    else:
                        out.ev(f"multi/{case['multi']}/{scheme}/edges={ne}", key)
    if not out.samples:
        out.samples.append({"configuration": case["multi"], "segments": [[list(a), list(b)] for a, b in base]})
    for cat, c in per_cat.items():
        if c > 2:
            out.extra["violations_not_listed"] = out.extra.get("violations_not_listed", 0) + c - 2
    return out


def run_case(case) -> Outcome:
    if "multi" in case:
        return _run_multi(case)
    out = Outcome()
    n, k, fix, mode = case["n"], case["k"], list(case["fix"]), case["pres"]
    segs = _segments(n)
    per_cat: dict = {}
    rest = range(fix[-1] + 1, len(segs))
    for tail in itertools.combinations(rest, k - len(fix)):
        _run_one(out, segs, tuple(fix) + tail, n, mode, per_cat)
    for cat, cnt in per_cat.items():
        if cnt > 2:
            out.extra["violations_not_listed"] = out.extra.get("violations_not_listed", 0) + cnt - 2
    return out


def known_finding(case, viol):
    return None
