"""C18 — RT0 and mixed VEM reproduce linear pressures exactly; mass matrices are SPD.

Engine E: bounded-exhaustive enumeration of (grid, method); for each the real
discretization is computed for every tensor of the K alphabet, the saddle-point system
from ``assemble_matrix_rhs`` is solved densely for Dirichlet data of each basis field
{1, x, y, z} and ``extract_flux`` / ``extract_pressure`` are compared with the closed
forms ``-n_f . K grad p`` and ``p(x_c)``; the ``mass`` block is tested for symmetry and
positive definiteness (dense ``eigvalsh``).
"""

from __future__ import annotations

import numpy as np

from mc.core import Outcome
from mc.oracles import grpF_grids as G

PROPERTY = "C18"
LEVEL = "exploration"
RULE = (
    "every (grid, method) of the declared alphabet x every K of the tensor alphabet is "
    "discretized once with the real RT0 / MVEM; one evaluation = one basis field of "
    "{1,x,y,z} (global coordinates) solved with all-Dirichlet data, plus one SPD "
    "evaluation per (grid, method, K); non-trivial = non-constant field with (perturbed, "
    "affinely mapped or embedded grid) or anisotropic K; distinct by (grid, method, K, field, pass); "
    "scale axis {1e-3, 1e3} on one grid per dimension (plain and embedded) where, in addition, "
    "discretize + assemble + solve are repeated on the SAME grid, tensor and data dictionary; "
    "grid, tensor, bc and bc_values are digested before / after (purity); MVEM also on 5 valid "
    "NON-CONVEX (dart quadrilateral) grids, plain and embedded; sequences: ONE RT0 / MVEM object and "
    "ONE tensor object per K used for two grids in a row (same sizes / different topology; same "
    "topology / different geometry; the same grid object moved, keeping its data dictionary), incl. RT0 followed by MVEM on the "
    "same tensor objects; MVEM also on 4 prism grids (3- and 4-node faces)"
)
ASSUMPTIONS = [
    "all boundary faces Dirichlet with data p(x_f); constant permeability, given as a 3x3 "
    "SPD tensor in global coordinates; for a grid embedded in 3-d the exact in-plane flux is "
    "-n_f . K . P grad p with P the orthogonal projector on the grid's line / plane "
    "(tangential part of the tensor)",
    "RT0 on simplex grids (1-d segments, triangles, tetrahedra); MVEM on the same grids and "
    "additionally on quadrilateral / affine hexahedral grids (planar faces)",
    "tolerance 1e-10 * |K| * max|n_f| * (|grad p| + |p|/h_min) for fluxes, 1e-10 * max|p| "
    "for pressures (measured floor 1.4e-14 / 1.4e-15); mass symmetric to 1e-12 * max|M| "
    "and lambda_min(sym M) > 1e-10 * lambda_max",
]
BOUNDS = {
    "quick": "1-d C(1),C(2),C(3) all offset patterns of interior nodes; T(1,1), T(2,2) x 9 "
    "offsets, T(2,1); Tet(1,1,1) x 7 offsets of a corner node, Tet(2,1,1); maps {id, skew}; "
    "1-d/2-d grids embedded by {none, Rx, Rgen}; MVEM also C(2,2) x 9 offsets, C(2,2,2)@skew; "
    "K in {I, diag(1,4,9), full, rotated}; scale in {1e-3,1e3} with repeated discretize on "
    "C(3)~, T(2,2)~ (plain and >Rgen), Tet(1,1,1)~, and for MVEM C(2,2)~, C(2,2,2)@skew",
    "thorough": "quick + T(3,2) x 81 offset pairs, T(3,3) x 4 nodes single offsets, "
    "Tet(1,1,1) x 27 offsets, Tet(2,2,2) x 27 offsets of the interior node, Tet(2,2,1); maps "
    "{id, shear, skew}; embeddings {none, Rz, Rx, Rgen}; MVEM also C(3,2) x 81 offset "
    "pairs, C(2,2,2) @id/@shear/@skew, C(3,2,2)@shear",
}
MIN_CLASSES = 6
CHUNK = 16
TOL = 1e-10
KW = "flow"
PRISMS = [  # extruded triangle grids: cells with triangular AND quadrilateral faces
    {"kind": "prism", "n": [2, 2], "z": [0, 0.4, 1]},
    {"kind": "prism", "n": [2, 1], "z": [0, 0.4, 1]},
    {"kind": "prism", "n": [2, 2], "z": [0, 0.4, 1], "pert": [[4, [1, -1]]]},
    {"kind": "prism", "n": [2, 1], "z": [0, 0.4, 1], "map": "shear"},
]
DARTS = [  # valid non-convex (dart) quadrilaterals: an interior node moved past a neighbour's diagonal
    {"kind": "cart", "n": [3, 3], "set": [[5, [0.05, 0.07]]]},
    {"kind": "cart", "n": [3, 3], "set": [[5, [0.05, 0.07]]], "map": "shear"},
    {"kind": "cart", "n": [2, 2], "set": [[4, [0.9, 0.88]]]},
    {"kind": "cart", "n": [3, 2], "set": [[5, [0.06, 0.1]]]},
    {"kind": "cart", "n": [3, 3], "set": [[5, [0.05, 0.07]], [10, [0.95, 0.93]]]},
]


def _rotK():
    R = G.EMBED["Rgen"][0]
    return R @ np.diag([1.0, 5.0, 0.2]) @ R.T


KS = {
    "I": np.eye(3),
    "diag149": np.diag([1.0, 4.0, 9.0]),
    "full": np.array([[2.0, 0.5, 0.3], [0.5, 3.0, 0.4], [0.3, 0.4, 1.5]]),
    "rot": _rotK(),
}


def _patterns(spec, nodes, lattice):
    """All assignments of lattice offsets to the given nodes."""
    import itertools

    out = []
    for combo in itertools.product(lattice, repeat=len(nodes)):
        pert = [[n, list(o)] for n, o in zip(nodes, combo) if any(o)]
        out.append(dict(spec, pert=pert) if pert else dict(spec))
    return out


def _grid_alphabet(tier):
    """[(spec, methods)] before maps / embeddings."""
    both = ["rt0", "mvem"]
    L1, L2, L3 = G.lattice(1), G.lattice(2), G.lattice(3)
    gs = []
    for n in (1, 2, 3):
        base = {"kind": "cart", "n": [n]}
        gs += [(s, both) for s in _patterns(base, G.interior_nodes(base), L1)]
    t11, t22, t21 = ({"kind": "tri", "n": n} for n in ([1, 1], [2, 2], [2, 1]))
    gs += [(t11, both), (t21, both)]
    gs += [(s, both) for s in _patterns(t22, G.interior_nodes(t22), L2)]
    tet1 = {"kind": "tet", "n": [1, 1, 1]}
    tet2 = {"kind": "tet", "n": [2, 1, 1]}
    c22 = {"kind": "cart", "n": [2, 2]}
    gs += [(s, ["mvem"]) for s in _patterns(c22, G.interior_nodes(c22), L2)]
    gs += [(tet2, both)]
    if tier == "quick":
        l3 = [o for o in L3 if sum(abs(x) for x in o) <= 1]
        gs += [(s, both) for s in _patterns(tet1, [7], l3)]
        return gs
    gs += [(s, both) for s in _patterns(tet1, [7], L3)]
    t32 = {"kind": "tri", "n": [3, 2]}
    gs += [(s, both) for s in _patterns(t32, G.interior_nodes(t32), L2)]
    t33 = {"kind": "tri", "n": [3, 3]}
    for nd in G.interior_nodes(t33):
        gs += [(s, both) for s in _patterns(t33, [nd], [o for o in L2 if any(o)])]
    t222 = {"kind": "tet", "n": [2, 2, 2]}
    gs += [(s, both) for s in _patterns(t222, G.interior_nodes(t222), L3)]
    gs += [({"kind": "tet", "n": [2, 2, 1]}, both)]
    c32 = {"kind": "cart", "n": [3, 2]}
    gs += [(s, ["mvem"]) for s in _patterns(c32, G.interior_nodes(c32), L2)]
    return gs


def cases(tier):
    maps = ["id", "skew"] if tier == "quick" else ["id", "shear", "skew"]
    embeds = ["none", "Rx", "Rgen"] if tier == "quick" else ["none", "Rz", "Rx", "Rgen"]
    out = []
    for spec, methods in _grid_alphabet(tier):
        d = len(spec["n"])
        for m in maps:
            for e in embeds if d < 3 else ["none"]:
                s = dict(spec)
                if m != "id":
                    s["map"] = m
                if e != "none":
                    s["embed"] = e
                for meth in methods:
                    out.append({"grid": s, "method": meth})
    hexes = [({"kind": "cart", "n": [2, 2, 2]}, ["skew"] if tier == "quick" else ["id", "shear", "skew"])]
    if tier != "quick":
        hexes.append(({"kind": "cart", "n": [3, 2, 2]}, ["shear"]))
    for spec, ms in hexes:
        for m in ms:
            out.append({"grid": dict(spec, map=m) if m != "id" else dict(spec), "method": "mvem"})
    # scale axis, each with a repeated discretize / assemble on the same objects
    both = ["rt0", "mvem"]
    fam = [
        ({"kind": "cart", "n": [3], "pert": [[1, [1]]]}, both),
        ({"kind": "cart", "n": [3], "pert": [[1, [1]]], "embed": "Rgen"}, both),
        ({"kind": "tri", "n": [2, 2], "pert": [[4, [1, -1]]]}, both),
        ({"kind": "tri", "n": [2, 2], "pert": [[4, [1, -1]]], "embed": "Rgen"}, both),
        ({"kind": "tet", "n": [1, 1, 1], "pert": [[7, [1, -1, 1]]]}, both),
        ({"kind": "cart", "n": [2, 2], "pert": [[4, [1, -1]]]}, ["mvem"]),
        ({"kind": "cart", "n": [2, 2, 2], "map": "skew"}, ["mvem"]),
    ]
    # sequences on ONE discretization object / ONE tensor object
    tri, trip = {"kind": "tri", "n": [2, 2]}, {"kind": "tri", "n": [2, 2], "pert": [[4, [1, -1]]]}
    seqs = [
        ("topo", {"kind": "tri", "n": [3, 2]}, {"kind": "tri", "n": [2, 3]}),
        ("geom", tri, dict(trip, map="shear")),
        ("geom", dict(tri, embed="Rx"), dict(trip, embed="Rgen")),
        ("geom", {"kind": "cart", "n": [3], "embed": "Rx"}, {"kind": "cart", "n": [3], "pert": [[1, [1]]], "embed": "Rgen"}),
        ("moved", tri, dict(trip, map="skew")),
        ("moved", dict(tri, embed="Rgen"), dict(trip, embed="Rx")),
        ("geom", {"kind": "tet", "n": [1, 1, 1]}, {"kind": "tet", "n": [1, 1, 1], "pert": [[7, [1, -1, 1]]], "map": "shear"}),
        ("topo", {"kind": "tet", "n": [2, 1, 1]}, {"kind": "tet", "n": [1, 1, 2]}),
    ]
    for kind, s1, s2 in seqs:
        for methods in (["rt0", "rt0"], ["mvem", "mvem"], ["rt0", "mvem"], ["mvem", "rt0"]):
            out.append({"grid": s1, "method": "+".join(methods), "seq": [kind, s1, s2], "methods": methods})
    for sp in PRISMS:  # polyhedral cells with mixed face types: MVEM only
        out.append({"grid": sp, "method": "mvem"})
    for sp in DARTS:
        out.append({"grid": sp, "method": "mvem"})
        out.append({"grid": dict(sp, embed="Rgen"), "method": "mvem"})
    for spec, methods in fam:
        for sc in (1.0, 1e-3, 1e3):
            for meth in methods:
                out.append({"grid": dict(spec, scale=sc) if sc != 1.0 else dict(spec), "method": meth, "reuse": True})
    return out


def _projector(g):
    """Orthogonal projector on the affine hull of the grid (3x3), from the nodes only."""
    if g.dim == 3:
        return np.eye(3)
    X = g.nodes - g.nodes.mean(axis=1, keepdims=True)
    U, S, _ = np.linalg.svd(X, full_matrices=False)
    if not (S[g.dim - 1] > 1e-8 * S[0] and (g.dim >= S.size or S[g.dim] < 1e-12 * S[0])):
        raise RuntimeError("grid is not contained in a line / plane")
    B = U[:, : g.dim]
    return B @ B.T


def run_case(case) -> Outcome:
    if "seq" not in case:
        return _run_single(case)
    # ONE discretization object per method and ONE tensor object per K for the whole sequence;
    # "methods" gives the method used at each step (RT0 then MVEM share the tensor objects)
    out = Outcome()
    shared = {"kind": case["seq"][0], "step": 0, "disc": {}, "perm": {}}
    for spec, method in zip(case["seq"][1:], case["methods"]):
        shared["step"] += 1
        out.merge(_run_single({"grid": spec, "method": method}, shared))
    return out


def _run_single(case, shared=None) -> Outcome:
    import porepy as pp

    out = Outcome()
    spec, method = case["grid"], case["method"]
    g = G.get_grid(spec, shared)
    d = g.dim
    nf, nc = g.num_faces, g.num_cells
    bf = G.boundary_faces(g)
    P = _projector(g)
    hmin = G.h_min(g)
    amax = float(np.linalg.norm(g.face_normals, axis=0).max())
    gname = G.name(spec)
    plain = (not spec.get("pert") and not spec.get("set") and spec.get("map", "id") == "id"
             and spec.get("embed", "none") == "none")
    if spec.get("set") and not G.nonconvex_cells(g):
        raise RuntimeError("declared dart grid has no non-convex cell")
    gcls = f"{d}d/{spec['kind']}" + ("" if plain else "*") + (">3d" if spec.get("embed", "none") != "none" else "") + f"/{method}"
    if spec.get("scale", 1) != 1:
        gcls += f"/x{spec['scale']:g}"
    if spec.get("set"):
        gcls += "/dart"
    reuse = bool(case.get("reuse"))
    if shared is not None:
        gcls += f"/seq-{shared['kind']}{shared['step']}"
    xc_o, xf_o, nrm_o = g.cell_centers.copy(), g.face_centers.copy(), g.face_normals.copy()
    ones = np.ones(nc)
    fields = [("1", 1.0, np.zeros(3))] + [("xyz"[i], 0.0, np.eye(3)[i]) for i in range(3)]

    for kname, K in KS.items():
        perm = pp.SecondOrderTensor(K[0, 0] * ones, K[1, 1] * ones, K[2, 2] * ones,
                                    K[0, 1] * ones, K[0, 2] * ones, K[1, 2] * ones)
        if shared is not None:  # same tensor object for every step with the same number of cells
            if kname in shared["perm"] and shared["perm"][kname].values.shape[2] == nc:
                perm = shared["perm"][kname]
            shared["perm"][kname] = perm
        bc = pp.BoundaryCondition(g, bf, ["dir"] * bf.size)
        knorm = float(np.abs(K).max())
        disc = (pp.RT0 if method == "rt0" else pp.MVEM)(KW)
        if shared is not None:
            disc = shared["disc"].setdefault(method, disc)
        base = {"grid": spec, "grid_name": gname, "method": method, "K": K}
        Mass = None
        for label, c0, grad in fields:
            pc = c0 + grad @ xc_o
            pf = c0 + grad @ xf_o
            bcv = np.zeros(nf)
            bcv[bf] = pf[bf]
            params = {"second_order_tensor": perm, "bc": bc, "bc_values": bcv}
            if shared is not None and shared["kind"] == "moved":
                # the SAME data dictionary follows the moved grid object: whatever an earlier
                # discretize() left in it (matrices, cached helpers) is still there
                data = pp.initialize_data(shared.setdefault("data", {}).setdefault((kname, label), {}), KW, params)
            else:
                data = pp.initialize_data({}, KW, params)
            dig0 = G.digest(g, perm, bc, bcv)
            for npass in range(2 if reuse else 1):  # pass 2: same grid, tensor, bc and data dictionary
                tag = "" if npass == 0 else "/reuse"
                try:
                    disc.discretize(g, data)
                    A, b = disc.assemble_matrix_rhs(g, data)
                    x = np.linalg.solve(A.toarray(), b)
                    u = np.asarray(disc.extract_flux(g, x, data)).ravel()
                    ph = np.asarray(disc.extract_pressure(g, x, data)).ravel()
                    Mass = data[pp.DISCRETIZATION_MATRICES][KW][disc.mass_matrix_key].toarray()
                except Exception as e:
                    out.violate(f"{method} discretize / assemble / solve raised on an admissible input",
                                error=repr(e), field=label, discretize_pass=npass + 1, **base)
                    out.ev(f"{gcls}/{kname}/exception{tag}")
                    continue
                if G.digest(g, perm, bc, bcv) != dig0:
                    if len(out.violations) < 5:
                        out.violate(f"{method} discretize / assemble modified its grid / tensor / bc arguments",
                                    field=label, discretize_pass=npass + 1, **base)
                    out.ev(f"{gcls}/{kname}/impure/VIOLATION")
                    dig0 = G.digest(g, perm, bc, bcv)
                u_ex = -(nrm_o.T @ (K @ (P @ grad)))
                pmax = float(max(1.0, np.abs(pc).max(), np.abs(pf).max()))
                tol_u = TOL * knorm * amax * (float(np.abs(grad).max()) + pmax / hmin)
                tol_p = TOL * pmax
                nontrivial = label != "1" and (not plain or kname != "I")
                key = (gname, method, kname, label, npass, shared["step"] if shared else 0) if nontrivial else None
                bad = None
                if u.shape != (nf,) or ph.shape != (nc,) or not (np.all(np.isfinite(u)) and np.all(np.isfinite(ph))):
                    bad = ("solution has wrong shape or non-finite entries", -1, None, None, 0.0)
                elif np.abs(u - u_ex).max() > tol_u:
                    f = int(np.argmax(np.abs(u - u_ex)))
                    bad = ("face flux differs from -n.K grad p for a linear pressure", f, u[f], u_ex[f], tol_u)
                elif np.abs(ph - pc).max() > tol_p:
                    c = int(np.argmax(np.abs(ph - pc)))
                    bad = ("cell pressure differs from p(x_c) for a linear pressure", c, ph[c], pc[c], tol_p)
                cls = f"{gcls}/{kname}/" + ("const" if label == "1" else "lin") + tag
                if bad is not None:
                    if len(out.violations) < 5:
                        out.violate(bad[0], field=label, c0=c0, grad=grad, index=bad[1], observed=bad[2],
                                    expected=bad[3], tol=bad[4], discretize_pass=npass + 1, **base)
                    cls += "/VIOLATION"
                out.ev(cls, key)
        if Mass is not None:
            mmax = float(np.abs(Mass).max())
            asym = float(np.abs(Mass - Mass.T).max())
            ev = np.linalg.eigvalsh(0.5 * (Mass + Mass.T))
            cls = f"{gcls}/{kname}/spd"
            if Mass.shape != (nf, nf) or asym > 1e-12 * mmax:
                out.violate("mass matrix is not symmetric", asymmetry=asym, max_entry=mmax, **base)
                cls += "/VIOLATION"
            elif not ev[0] > 1e-10 * ev[-1]:
                out.violate("mass matrix is not positive definite", lambda_min=float(ev[0]),
                            lambda_max=float(ev[-1]), **base)
                cls += "/VIOLATION"
            out.ev(cls, (gname, method, kname, "spd") if (not plain or kname != "I") else None)
    if not plain:
        out.samples.append({"grid": gname, "method": method, "K": list(KS), "fields": ["1", "x", "y", "z"],
                            "num_cells": int(nc), "num_faces": int(nf)})
    return out


def known_finding(case, viol):
    return None
