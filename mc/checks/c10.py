"""C10 - Simulation driver keeps solution state consistent across failures.

Engine D (deviation-bounded exploration) on the full stack: the shipped
``SinglePhaseFlow`` model (non-linear: compressible fluid + quadratic pressure sink),
the real ``NewtonSolver``, ``run_time_dependent_model`` and an adaptive ``TimeManager``.
Only the Newton verdict (``check_convergence``) is scripted. Default outcome of a solve
is "converged at the 2nd check"; a deviation replaces the outcome of one solve by
converged@1, converged@3, diverged@1, diverged@2 or "iteration limit". All placements of
0, 1, 2, ... deviations are executed to the end.

The answer tree is enumerated in ``cases`` with the TimeManager alone (the clock only
depends on the iteration counts / failures); every execution then demands that the full
stack produced exactly the predicted sequence of clock values, which validates the
enumeration (and is the C09 conformance assertion of DESIGN.md).
"""

from __future__ import annotations

from mc.core import Outcome
from mc.oracles import grpC_model as M
from mc.oracles import grpC_tm as T

PROPERTY = "C10"
LEVEL = "model_checking"
RULE = (
    "one case = one execution of the full stack for one script (time-manager config, set of "
    "<= k (solve index -> Newton outcome) deviations, every placement that is reached); "
    "transitions = executions (nodes of the answer tree), states = distinct final "
    "observations (per solve: iteration count or failure and the clock value, + how the run ended; "
    "scripts that differ only in how a solve failed share one observation); "
    "an evaluation = one solve (converged or failed) whose hook post-state was compared with "
    "the reference history; non-trivial = a failed solve, or a converged solve that follows a "
    "failure or deviates from the default; distinct by (config, answer prefix up to that solve)"
)
ASSUMPTIONS = [
    "model: SinglePhaseFlow on a 2x2 Cartesian grid, 4 dofs, compressible fluid and a "
    "quadratic sink, Dirichlet data 2.0 + t / 0.5 west/east; time_step_indices [0,1,2], "
    "iterate_indices [0,1]; Newton max_iterations 3; verdicts scripted in check_convergence, "
    "which still calls the shipped method for norm bookkeeping",
    "TimeManager schedule [0,1,1.5], dt_init 0.6, dt in [0.2,0.8], relax (0.7,1.3), "
    "recomp_factor 0.5, recomp_max 2 (config r2) or 1 (config r1), optimal range (1,3)",
    "stored vectors are compared exactly (they are copies); clock values up to 1e-12 relative; "
    "final time up to 1e-9",
    "a ValueError ending the run is accepted only from a failed solve whose consecutive "
    "failures used up recomp_max or whose step already equalled dt_min",
    "the three-deep time-step window is compared with the last three accepted solutions "
    "(initial condition before the first); older history is not stored by the model",
]
BOUNDS = {
    "quick": "config r2: <= 2 deviations from {c1,c3,d1,d2,limit} at every reached placement; config r1: "
    "2 failure deviations {d1,d2,limit} at every reached pair of consecutive solves",
    "thorough": "config r2: <= 3 deviations from {c1,c3,d1,d2,limit} at every reached placement; config r1: "
    "2 or 3 failure deviations {d1,d2,limit} at every reached placement that contains two consecutive solves",
}
MIN_CLASSES = 6
CHUNK = 6

K = {"quick": {"r2": 2, "r1": 2}, "thorough": {"r2": 3, "r1": 3}}
# config r1 differs from r2 only after two consecutive failures: it is explored with failure
# deviations only, and only scripts with failures at two consecutive solves are executed
FAIL_ONLY = {"r1"}
STEP_CAP = 200


def _predict(cfg, dev):
    """Clock trace predicted by the real TimeManager alone (stub model, real loop)."""
    script = {int(p): M.answer_of(o) for p, o in dev}
    trace, end, _ = T.run_real_loop(cfg, script, default=M.answer_of(M.DEFAULT), step_cap=STEP_CAP)
    return trace, end


def cases(tier):
    out = []
    seen_obs = set()
    for name, k in K[tier].items():
        cfg = M.TM_CONFIGS[name]
        stack = [()]
        while stack:
            dev = stack.pop()
            trace, end = _predict(cfg, dev)
            obs = (name, tuple((r[0], r[1]) for r in trace), end)
            adjacent = any(b[0] == a[0] + 1 for a, b in zip(dev, dev[1:]))
            if name not in FAIL_ONLY or adjacent:
                out.append({"tm": name, "dev": [[p, list(o)] for p, o in dev], "n_solves": len(trace),
                            "first_with_observation": None, "_obs": obs})
            if len(dev) < k:
                last = dev[-1][0] if dev else -1
                for p in range(last + 1, len(trace)):
                    for o in M.DEVIATIONS:
                        if name in FAIL_ONLY and o[0] == "c":
                            continue
                        stack.append(dev + ((p, o),))
    out.sort(key=lambda c: (c["tm"], len(c["dev"]), c["dev"]))
    for c in out:
        obs = c.pop("_obs")
        c["first_with_observation"] = obs not in seen_obs
        seen_obs.add(obs)
    return out


# ---------------------------------------------------------------------- oracle


def _eq(a, b):
    import numpy as np

    return a.shape == b.shape and bool(np.array_equal(a, b))


def _judge(cfg, model, end, exc, out: Outcome, case):
    """Reference model: plain list of accepted solutions / times."""
    import numpy as np

    viol = []
    x0 = model.initial["ts"][0]
    depth = len(model.initial["ts"])
    for i, v in enumerate(model.initial["ts"]):
        if not _eq(v, x0):
            viol.append((-1, f"initial time-step slot {i} differs from the initial condition"))
    if not _eq(model.initial["it"][0], x0):
        viol.append((-1, "initial iterate differs from the initial condition"))
    accepted = [x0]  # accepted solutions, oldest first (index 0 = initial condition)
    times = [float(cfg["schedule"][0])]
    dt_min = cfg["dt_min_max"][0]
    fails = 0
    answers = []
    clock = []

    def window(j):
        # expected content of time-step slot j
        return accepted[-1 - j] if j < len(accepted) else x0

    for n, ev in enumerate(model.events):
        pre = ev["pre"]
        post = ev.get("post")
        kind = ev["kind"]
        prefix = tuple(answers)
        # state before the hook: stored history untouched by the Newton loop
        for j in range(depth):
            if not _eq(pre["ts"][j], window(j)):
                viol.append((n, f"time-step slot {j} was modified during the Newton loop"))
        if not _eq(ev["guess"]["it"][0], accepted[-1]):
            viol.append((n, "initial guess of the solve differs from the last accepted solution"))
        t_attempt = pre["time"]
        dt_used = pre["dt"]
        if abs(t_attempt - (times[-1] + dt_used)) > 1e-12 * max(1.0, abs(t_attempt)):
            viol.append((n, "solve was not performed at last accepted time + dt"))
        if kind == "conv":
            answers.append(ev["num_iteration"])
            conv = ev["conv_iterate"]
            if ev["raised"] is not None or post is None:
                viol.append((n, f"after_nonlinear_convergence raised {ev['raised']!r}"))
                break
            if not _eq(post["ts"][0], conv):
                viol.append((n, "most recent time-step values differ from the converged iterate"))
            if not _eq(post["it"][0], conv):
                viol.append((n, "current iterate changed after convergence"))
            for j in range(1, depth):
                if not _eq(post["ts"][j], window(j - 1)):
                    viol.append((n, f"time-step slot {j} is not the solution accepted {j} step(s) earlier"))
            if abs(post["time"] - t_attempt) > 1e-12 * max(1.0, abs(t_attempt)):
                viol.append((n, "clock moved in after_nonlinear_convergence"))
            if not (t_attempt > times[-1]):
                viol.append((n, "accepted times do not increase"))
            nontrivial = fails > 0 or tuple(ev["outcome"]) != M.DEFAULT
            out.ev(f"conv@{ev['checks']}" + ("/after-fail" if fails else ""),
                   (case["tm"], prefix, ev["num_iteration"]) if nontrivial else None)
            accepted.append(conv)
            times.append(t_attempt)
            fails = 0
            clock.append((t_attempt, dt_used, post["time"], post["dt"]))
        else:
            answers.append("F")
            how = {"d": "diverged", "x": "limit", "c": "?"}[ev["outcome"][0]]
            if ev["raised"] is not None:
                e = ev["raised"]
                budget_used = fails >= cfg["recomp_max"]
                at_min = abs(dt_used - dt_min) <= 1e-12 * dt_min
                if not isinstance(e, ValueError):
                    viol.append((n, f"failed solve raised {e!r}"))
                elif not (budget_used or at_min):
                    viol.append((n, "failed solve raised although recomputation was not exhausted"))
                out.ev(f"fail:{how}/raise", (case["tm"], prefix, "F"))
                clock.append((t_attempt, dt_used, None, None))
                break
            if fails >= cfg["recomp_max"]:
                viol.append((n, "failed solve did not raise although recomputation was exhausted"))
            if not _eq(post["it"][0], accepted[-1]):
                viol.append((n, "iterate was not reset to the last accepted solution after a failed solve"))
            for j in range(depth):
                if not _eq(post["ts"][j], window(j)):
                    viol.append((n, f"time-step slot {j} changed by a failed solve"))
            if abs(post["time"] - times[-1]) > 1e-12 * max(1.0, abs(times[-1])):
                viol.append((n, "clock was not returned to the last accepted time after a failed solve"))
            out.ev(f"fail:{how}/rewind" + (f"/consecutive{fails + 1}" if fails else ""), (case["tm"], prefix, "F"))
            fails += 1
            clock.append((t_attempt, dt_used, post["time"], post["dt"]))
        if viol:
            break

    if not viol:
        if end == "final":
            tm = model.time_manager
            tf = cfg["schedule"][-1]
            if abs(float(tm.time) - tf) > 1e-9 * max(1.0, tf) or abs(times[-1] - tf) > 1e-9 * max(1.0, tf):
                viol.append((len(model.events), "run did not end at the final time"))
            es = model.equation_system
            for j in range(depth):
                if not _eq(es.get_variable_values(time_step_index=j), window(j)):
                    viol.append((len(model.events), f"final time-step slot {j} is not the accepted history"))
            if not _eq(es.get_variable_values(iterate_index=0), accepted[-1]):
                viol.append((len(model.events), "final iterate is not the last accepted solution"))
            if len(accepted) >= 3 and (_eq(accepted[-1], accepted[-2]) or _eq(accepted[-2], accepted[-3])):
                raise RuntimeError("harness: consecutive accepted solutions coincide; window checks are blind")
        else:
            last = model.events[-1] if model.events else None
            if last is None or last.get("raised") is not exc:
                viol.append((len(model.events), f"run aborted by an exception outside the failure hook: {exc!r}"))
    return viol, answers, clock, times


def run_case(case) -> Outcome:
    out = Outcome()
    cfg = M.TM_CONFIGS[case["tm"]]
    dev = [(int(p), tuple(o)) for p, o in case["dev"]]
    script = dict(dev)
    model, end, exc = M.execute(cfg, script)
    out.transitions += 1
    viol, answers, clock, times = _judge(cfg, model, end, exc, out, case)
    for n, what in viol[:3]:
        out.violate(what, event=n, tm=case["tm"], deviations=case["dev"], answers=answers,
                    accepted_times=times, end=end, error=repr(exc) if exc else None)
    if viol:
        out.ev("VIOLATION")
        return out
    # every scripted deviation must have been reached (the enumeration promised it)
    if dev and max(p for p, _ in dev) >= len(model.events):
        raise RuntimeError(f"deviation at solve {max(p for p, _ in dev)} was never reached: {case}")
    # conformance: the clock of the full stack is the clock of a TimeManager driven by the stub
    # model of C09 with the answers the full stack reported (iteration counts / failures)
    trace, pend, _ = T.run_real_loop(cfg, dict(enumerate(answers)), default=M.answer_of(M.DEFAULT),
                                     step_cap=len(answers))
    pred = [(r[1], r[2], r[3] if r[6] is None else None, r[4] if r[6] is None else None) for r in trace]
    if pred != clock or pend != end:
        out.violate("clock of the full stack differs from the TimeManager driven with the same answers",
                    tm=case["tm"], deviations=case["dev"], answers=answers, full_stack=clock, predicted=pred)
        out.ev("VIOLATION")
        return out
    scripted = [M.answer_of(script.get(i, M.DEFAULT)) for i in range(len(answers))]
    if len(trace) != case["n_solves"] or scripted != answers:
        raise RuntimeError(f"answers seen by the TimeManager {answers} differ from the script {scripted}: "
                           "the enumeration in cases() does not describe this execution")
    out.extra["solves"] = len(model.events)
    out.ev(f"run/{end}/dev{len(dev)}", None)
    # distinct final observation (accepted times, iteration counts / failures, end): the first
    # script of the enumeration that produces it counts as a state
    out.states = 1 if case["first_with_observation"] else 0
    out.max_depth = len(dev)
    if not dev or (len(dev) == 2 and len(out.samples) < 1 and end == "raised"):
        out.samples.append({"tm": case["tm"], "deviations": case["dev"], "answers": answers,
                            "accepted_times": times, "end": end})
    return out


def known_finding(case, viol):
    return None
