"""C03 — model Jacobians are the derivative of the model residual.

Engine E: configurations (model family x fracture geometry x grid x constitutive
switches) x states x *every* column of the Jacobian. Oracle: 6th-order central finite
differences of the residual-only assembly, on a ladder of steps, with the discretization
matrices untouched (``assemble`` does not rediscretize).
"""

from __future__ import annotations

import math

import numpy as np

from mc.core import Outcome
from mc.oracles import grpD_models as G

PROPERTY = "C03"
LEVEL = "exploration"
RULE = (
    "one case = (configuration, state letter, column shard s of n: columns j = s mod n); "
    "configuration = model family x fracture subset x grid type x fluid (compressible / "
    "incompressible) x fracture laws (basic / rich: shear dilation + Barton-Bandis + "
    "elastic tangential stiffness / adtpfa: differentiable TPFA Darcy+Fourier flux with "
    "cubic-law permeability) x gravity; every column of the Jacobian of every "
    "(configuration, state) is compared with the central difference of the residual; one "
    "evaluation = one column; non-trivial = column with >= 2 structural non-zeros in the "
    "assembled Jacobian, distinct by (configuration, state, column)"
)
ASSUMPTIONS = [
    "states are deterministic non-solution perturbations of the initial state (patterns "
    "wave/linear/alternating/spike/constant, amplitude 0.1..1) set as current iterate, a "
    "different state as previous time step; model.update_derived_quantities() is called "
    "once, as a Newton iteration does, so upwind directions and state dependent "
    "discretization parameters belong to the state; they are then held fixed",
    "fracture cells are put clearly inside one regime of the contact laws (open / stick / "
    "slip / open with compressive traction, cycling over the cells): all arguments of "
    "max, norm, and the open-state characteristic function keep |value| >= 0.02; a state "
    "violating the margin is skipped and counted (none is, in the shipped alphabets)",
    "admissible = inside the domain of every constitutive function and accepted by the "
    "model's own update of discretization parameters; the matrix displacement is halved "
    "until the porosity is <= 0.9; next to strongly deformed fracture faces the matrix "
    "porosity may leave (0,1) - all shipped laws are polynomial in it, so smoothness is "
    "not affected; a state rejected by the model (tensor not positive definite) is skipped "
    "and counted",
    "the differentiable-flux letter (laws=adtpfa) uses the TPFA base discretization, for "
    "which the code promises the exact derivative; with an MPFA base the Jacobian is a "
    "documented approximation (TPFA-style derivative of the transmissibility) and is not "
    "a letter",
    "3-d models with fractures additionally get the letters axis1 / axis2: tangential jump, "
    "traction and their previous-time values aligned with one local tangential basis vector "
    "(other component exactly 0.0) in sliding, sticking and open-compressive cells, all-zero "
    "tangential vectors in the clearly open cells; arguments of non-smooth functions that "
    "are switched off by an exact zero factor in their cell are not part of the kink margin",
    "poromechanics / thermoporomechanics with fractures additionally get the letters negjump "
    "(quick) / negjump, negjump2 (thorough): normal displacement jumps at -0.5, -0.8 (-0.3, "
    "-0.65) times the residual aperture in two of three fracture cells (non-converged iterates "
    "under compression; the aperture max sits on its constant branch with positive first "
    "argument), residual aperture 0.1 and, in extra configurations, 0.05",
    "finite differences: 6th-order central stencil, steps h in {1e-3, 1e-2, 1e-4}; a "
    "column is accepted when the best rung agrees to 1e-6*(|J|_max+1); measured floor on "
    "the unchanged tree <= 1e-10",
    "material constants away from the defaults (compressibility 0.3, thermal expansion "
    "0.1, Biot 0.8, non-unit densities/heat capacities/conductivities, reference "
    "pressure/temperature non-zero, dt = 0.5)",
]
BOUNDS = {
    "quick": "2-d Cartesian, fracture subsets {} and {0} (+ one 3-d momentum balance with a "
    "fracture), 5 model families, fluid/law/gravity variants listed in _configs('quick'), "
    "2 states (+ 2 exact-zero-component states on the 3-d fractured momentum / poromechanics "
    "configurations), every column",
    "thorough": "2-d Cartesian {} {0} {1} {0,1}; 2-d simplex {0} {2} {0,1,2}; 3-d cube {} {0}; "
    "non-matching unit square {0,1} (flow, mass+energy); "
    "5 families x variants, 4-6 states (2 for poro/thm on the 3-fracture simplex grid; + 2 "
    "exact-zero-component states on every 3-d fractured mechanics configuration), every column",
}
MIN_CLASSES = 4
CHUNK = 1

TOL = 1e-6
MARGIN = 0.02
RUNGS = (1e-3, 1e-2, 1e-4)

# CPU seconds for all columns of one state on the 2-d one-fracture Cartesian grid (measured,
# unloaded machine), and the relative size of the system per geometry (number of dofs
# relative to that grid); the cost grows about quadratically with the size.
BASE_COST = {"flow": 2.0, "mae": 9.0, "mom": 3.0, "poro": 12.0, "thm": 37.0}
SIZE = {(2, (), "cart"): 0.5, (2, (0,), "cart"): 1.0, (2, (1,), "cart"): 0.5, (2, (0, 1), "cart"): 1.3,
        (2, (0,), "simplex"): 1.1, (2, (2,), "simplex"): 1.3, (2, (0, 1, 2), "simplex"): 3.0,
        (3, (), "cart"): 0.4, (3, (0,), "cart"): 0.8, (2, (0, 1), "nonmatch"): 2.0}
TARGET = {"quick": 5.0, "thorough": 40.0}


def _nshard(cfg, tier):
    f = SIZE[(cfg["dim"], tuple(cfg["fracs"]), cfg["grid"])]
    cost = BASE_COST[cfg["fam"]] * f * f * (3.0 if cfg["laws"] == "adtpfa" else 1.0)
    return max(1, int(math.ceil(cost / TARGET[tier])))


def _cfg(fam, dim, fracs, grid="cart", fluid="comp", laws="basic", grav=False, ares=None):
    c = {"fam": fam, "dim": dim, "fracs": list(fracs), "grid": grid, "fluid": fluid,
         "laws": laws, "grav": bool(grav), "dt": 0.5}
    if ares is not None:
        c["ares"] = float(ares)  # residual aperture other than 0.1
    return c


def _configs(tier):
    out = []
    if tier == "quick":
        out += [_cfg("flow", 2, []), _cfg("flow", 2, [0], grav=True), _cfg("flow", 2, [0], fluid="incomp")]
        out += [_cfg("mae", 2, []), _cfg("mae", 2, [0], grav=True)]
        out += [_cfg("mom", 2, []), _cfg("mom", 2, [0]), _cfg("mom", 2, [0], laws="rich", grav=True), _cfg("mom", 3, [0]),
                _cfg("mom", 3, [0], laws="rich")]
        out += [_cfg("poro", 2, [0]), _cfg("poro", 2, [0], laws="rich", grav=True), _cfg("poro", 2, [0], laws="adtpfa"),
                _cfg("poro", 3, [0]), _cfg("poro", 2, [0], ares=0.05)]
        out += [_cfg("thm", 2, [0]), _cfg("thm", 2, [0], laws="rich", grav=True)]
        return out
    geoms = [(2, [], "cart"), (2, [0], "cart"), (2, [1], "cart"), (2, [0, 1], "cart"),
             (2, [0], "simplex"), (2, [2], "simplex"), (2, [0, 1, 2], "simplex"),
             (3, [], "cart"), (3, [0], "cart")]
    for fam in ("flow", "mae"):
        # non-matching fracture / mortar grids (projections with non-trivial weights)
        out.append(_cfg(fam, 2, [0, 1], "nonmatch"))
    for fam in ("poro", "thm"):
        for fr in ([0], [0, 1]):
            out.append(_cfg(fam, 2, fr, ares=0.05))
    for fam in G.FAMILIES:
        for dim, fr, grid in geoms:
            has_frac = len(fr) > 0
            mech = fam in ("mom", "poro", "thm")
            flow = fam != "mom"
            variants = [dict(fluid="comp", laws="basic", grav=False)]
            if (mech and has_frac) or flow:
                variants.append(dict(fluid="comp", laws="rich" if (mech and has_frac) else "basic", grav=True))
            if flow and dim == 2 and grid == "cart" and fr in ([0], [0, 1]):
                variants.append(dict(fluid="incomp", laws="basic", grav=False))
            if fam in ("poro", "thm") and grid == "cart" and fr in ([0], [0, 1]):
                variants.append(dict(fluid="comp", laws="adtpfa", grav=False))
            for v in variants:
                out.append(_cfg(fam, dim, fr, grid, **v))
    return out


def _aligned(cfg):
    """Exact-zero letters: 3-d models with fractures and contact mechanics (two tangential
    components per fracture cell)."""
    if cfg["dim"] == 3 and cfg["fracs"] and cfg["fam"] in ("mom", "poro", "thm"):
        return list(G.ALIGNED_LETTERS)
    return []


def _negjump(tier, cfg):
    """Normal jumps inside (-residual_aperture, 0): models with a jump dependent aperture."""
    if cfg["fracs"] and cfg["fam"] in ("poro", "thm"):
        return ["negjump"] if tier == "quick" else list(G.NEGJUMP_LETTERS)
    return []


def _letters(tier, cfg):
    if "ares" in cfg:
        return _negjump(tier, cfg)
    return _base_letters(tier, cfg) + _aligned(cfg) + _negjump(tier, cfg)


def _base_letters(tier, cfg):
    if tier == "quick":
        return ["wave-0.3", "lin-1"]
    if len(cfg["fracs"]) == 3 and cfg["fam"] in ("poro", "thm"):
        return ["wave-0.3", "spike-1"]
    if cfg["fam"] == "thm":
        return ["wave-0.3", "lin-1", "alt-0.1", "spike-1"]
    return ["wave-0.3", "lin-1", "alt-0.1", "spike-1", "const-1", "wave-1"]


def cases(tier):
    out = []
    for cfg in _configs(tier):
        n = _nshard(cfg, tier)
        for letter in _letters(tier, cfg):
            for s in range(n):
                out.append({"cfg": cfg, "state": letter, "shard": s, "nshard": n})
    return out


# ------------------------------------------------------------------------- machinery

_STATE: dict = {}


def _prepare(cfg, letter):
    """Build the model, install the state, assemble the Jacobian once per process."""
    key = (G.cfg_key(cfg), letter)
    model = G.build(cfg)
    if _STATE.get("installed") == key:
        return _STATE["data"]
    x0, xp = G.make_states(model, letter)
    es = model.equation_system
    data = {"model": model, "x0": x0, "xp": xp, "ind": {}, "err": None, "inadmissible": None}
    _STATE["installed"] = None
    try:
        G.install(model, x0, xp)
    except ValueError as e:
        if "positive definite" not in str(e):
            raise
        data["inadmissible"] = str(e)
        _STATE["installed"] = key
        _STATE["data"] = data
        return data
    data["ind"] = ind = G.indicators(model, x0)
    data["zeros"] = G.exact_zero_report(model, x0)
    if letter in G.ALIGNED_LETTERS and min(data["zeros"]) == 0:
        raise RuntimeError(f"aligned state {letter} has no exact zero component: {data['zeros']}")
    try:
        J, b = es.assemble(state=x0)
        data["J"] = J.tocsc()
        data["b"] = np.asarray(b)
        data["r0"] = np.asarray(es.assemble(evaluate_jacobian=False, state=x0))
    except Exception as e:  # assembling at an admissible state must work
        data["err"] = repr(e)
    _STATE["installed"] = key
    _STATE["data"] = data
    return data


_W = np.array([-1.0, 9.0, -45.0, 45.0, -9.0, 1.0]) / 60.0
_K = (-3, -2, -1, 1, 2, 3)


def fd_column(es, x0, j, h):
    """6th-order central difference of the residual (= minus the returned rhs)."""
    acc = None
    for w, k in zip(_W, _K):
        x = x0.copy()
        x[j] += k * h
        r = -np.asarray(es.assemble(evaluate_jacobian=False, state=x))
        acc = w * r if acc is None else acc + w * r
    return acc / h


def _var_of_dof(es):
    name = np.empty(es.num_dofs(), dtype=object)
    for v in es.variables:
        g = v.domain
        name[es.dofs_of([v])] = f"{v.name}@{getattr(g, 'dim', '?')}"
    return name


def run_case(case) -> Outcome:
    out = Outcome()
    cfg, letter = case["cfg"], case["state"]
    d = _prepare(cfg, letter)
    model = d["model"]
    es = model.equation_system
    ck = G.cfg_key(cfg)
    if d["err"] is not None:
        out.violate("assemble raised at an admissible state", error=d["err"], state=letter)
        out.ev("VIOLATION:assemble-raised")
        return out
    if d["inadmissible"] is not None:
        out.ev("skipped:inadmissible-state")
        out.extra["skipped_states"] = 1
        return out
    mg = G.margin(d["ind"], dilation=cfg["laws"] == "rich")
    if mg < MARGIN:
        out.ev("skipped:kink-margin")
        out.extra["skipped_states"] = 1
        return out
    J, x0 = d["J"], d["x0"]
    n = es.num_dofs()
    if J.shape != (n, n):
        out.violate("Jacobian is not square in the number of dofs", shape=list(J.shape), ndof=n)
        out.ev("VIOLATION:shape")
        return out
    scale = float(abs(J).max()) + 1.0
    if case["shard"] == 0:
        # the right-hand side returned with the Jacobian is the residual-only assembly
        db = float(np.max(np.abs(d["b"] - d["r0"]))) if n else 0.0
        if not db <= 1e-12 * (float(np.max(np.abs(d["r0"]))) + 1.0):
            out.violate("rhs of assemble() differs from assemble(evaluate_jacobian=False)", diff=db, state=letter)
            out.ev("VIOLATION:rhs")
        else:
            regs = sorted(set(G.regime_names(d["ind"])))
            tag = "|exact-zero-components" if letter in G.ALIGNED_LETTERS else ""
            out.ev("rhs-consistent|" + ("regimes:" + ",".join(regs) if regs else "no-contact") + tag)
    names = _var_of_dof(es)
    worst = 0.0
    for j in range(case["shard"], n, case["nshard"]):
        col = np.asarray(J[:, j].todense()).ravel()
        nnz = int(J.indptr[j + 1] - J.indptr[j])
        best, best_h, errs = np.inf, None, {}
        for h in RUNGS:
            try:
                fd = fd_column(es, x0, j, h)
            except Exception as e:
                out.violate("residual assembly raised inside the smooth region", error=repr(e), column=j, h=h, state=letter)
                best = np.nan
                break
            err = float(np.max(np.abs(fd - col)))
            errs[str(h)] = err
            if err < best:
                best, best_h = err, h
            if err <= TOL * scale:
                break
        if not np.isfinite(best):
            out.ev("VIOLATION:raised")
            continue
        key = (ck, letter, j) if nnz >= 2 else None
        if best <= TOL * scale:
            out.ev(f"{cfg['fam']}:{names[j]}:ok-h{best_h:g}", key)
            worst = max(worst, best / scale)
            rel = best / scale
            bucket = "cols_relerr_le_1e-12" if rel <= 1e-12 else ("cols_relerr_le_1e-9" if rel <= 1e-9 else "cols_relerr_le_1e-6")
            out.extra[bucket] = out.extra.get(bucket, 0) + 1
        else:
            fd = fd_column(es, x0, j, best_h)
            row = int(np.argmax(np.abs(fd - col)))
            eqn = _row_equation(es, row)
            out.violate(
                "Jacobian column differs from the derivative of the residual",
                column=j, variable=names[j], worst_row=row, equation=eqn,
                jac_entry=float(col[row]), fd_entry=float(fd[row]), err_by_step=errs,
                scale=scale, state=letter, margin=mg,
            )
            out.ev(f"VIOLATION:{cfg['fam']}:{names[j]}", key)
    if len(out.samples) < 1 and case["shard"] == 0:
        out.samples.append({"cfg": cfg, "state": letter, "ndof": int(n), "worst_rel_err_shard0": worst,
                            "regimes": sorted(set(G.regime_names(d["ind"]))), "kink_margin": (mg if np.isfinite(mg) else None)})
    return out


def _row_equation(es, row):
    try:
        for name, idx in es.assembled_equation_indices.items():
            if len(idx) and idx[0] <= row <= idx[-1]:
                return name
    except Exception:
        pass
    return "?"


def known_finding(case, viol):
    return None
