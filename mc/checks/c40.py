"""C40 — material tensors are symmetric and transform as tensors.

Engine E over
  * ``SecondOrderTensor``: one cell: the complete lattice diag in {0.5,1,2}^3 x off-diag in
    {0,+-0.3}^3 in five constructor signatures; 2-3 cells: every sequence over a list of six
    representative positive definite tensors; every rotation of the rotation alphabet; every
    ordered selection of cells (and every boolean mask) for ``restrict_to_cells``; ``copy``.
  * ``FourthOrderTensor``: every sequence of 1-3 cells over Lame pairs, without and with
    one or two ``other_fields``; restriction and copy as above.

Oracle: symmetry by direct comparison (exact); R K R^T (either direction accepted) and
eigenvalues of the input by numpy; the isotropic stiffness formula
C_ijkl = lambda d_ij d_kl + mu (d_ik d_jl + d_il d_jk) written out independently of the
hard-coded matrices; memory independence by ``np.shares_memory`` and by mutating one side.
"""

from __future__ import annotations

import itertools

import numpy as np

from mc.core import Outcome

PROPERTY = "C40"
LEVEL = "exploration"
RULE = (
    "one case = a block of tensors (constructor signature x lattice block, or cell count x field "
    "configuration); inside it every tensor x every rotation x every ordered cell selection x copy. "
    "Non-trivial = anisotropic or multi-cell tensor under a rotation that is not a symmetric matrix, "
    "a restriction that reorders or drops cells, or a copy of a tensor with other_fields; distinct by "
    "(tensor, operation, argument)"
)
ASSUMPTIONS = [
    "admissible = symmetric positive definite by numpy eigenvalues (margin 1e-9); for other lattice points the "
    "constructor may raise or not (not demanded)",
    "rotation direction is not demanded: R K R^T or R^T K R is accepted, eigenvalues to 1e-12 * max|K|",
    "only explicitly passed components are compared with the stored values (defaults are not demanded)",
    "memory independence is demanded for public array attributes (values, mu, lmbda, named other fields); the "
    "private basis matrices in FourthOrderTensor._other_matrices are shared by copy() and not checked",
    "other_fields basis matrices are symmetric 9x9 (admissible parameters)",
    "magnitude axis: every tensor family is also scaled by 1e-20, 1e-17, 1e-15, 1e-9, 1e9, 1e15; all tolerances are "
    "relative to max|K| of the tensor itself (no absolute thresholds)",
]
BOUNDS = {
    "quick": "2nd order: the one-cell lattice (3..729 distinct tensors per signature) x 5 signatures x 12 rotations; 6^2 two-cell tensors; "
             "4th order: 9 Lame pairs, 1-2 cells, 3 field configurations; full-signature, two-cell and 4th-order families x 7 magnitudes",
    "thorough": "2nd order: the one-cell lattice x 5 signatures x 31 rotations; 6^2+6^3 multi-cell tensors; "
                "4th order: 9 Lame pairs, 1-3 cells, 3 field configurations; x 7 magnitudes (3 for the three-cell families)",
}
MIN_CLASSES = 8
CHUNK = 2

DIAG = (0.5, 1.0, 2.0)
OFF = (0.0, 0.3, -0.3)
SIGS = ("xx", "xx-yy", "xx-yy-zz", "xx-yy-xy", "full")
# representative positive definite tensors (kxx, kyy, kzz, kxy, kxz, kyz)
REPR = [
    (1.0, 1.0, 1.0, 0.0, 0.0, 0.0),
    (2.0, 0.5, 1.0, 0.0, 0.0, 0.0),
    (1.0, 2.0, 0.5, 0.3, 0.0, 0.0),
    (2.0, 1.0, 1.0, 0.3, -0.3, 0.3),
    (0.5, 2.0, 2.0, 0.0, 0.3, -0.3),
    (3.0, 1.5, 0.75, -0.5, 0.25, 0.125),
]
LAME = [(m, l) for m in (0.5, 1.0, 2.0) for l in (0.0, 1.0, 3.0)]


def rotations(tier):
    """Proper rotations: the 24 signed permutation matrices plus 3-4-5 rotations and products."""
    rots = []
    for perm in itertools.permutations(range(3)):
        for signs in itertools.product((1.0, -1.0), repeat=3):
            R = np.zeros((3, 3))
            for i, (p, s) in enumerate(zip(perm, signs)):
                R[i, p] = s
            if np.linalg.det(R) > 0:
                rots.append(R)
    c, s = 0.8, 0.6
    Rz = np.array([[c, -s, 0], [s, c, 0], [0, 0, 1.0]])
    Rx = np.array([[1.0, 0, 0], [0, c, -s], [0, s, c]])
    Ry = np.array([[c, 0, s], [0, 1.0, 0], [-s, 0, c]])
    c2, s2 = 5.0 / 13.0, 12.0 / 13.0
    Rz2 = np.array([[c2, -s2, 0], [s2, c2, 0], [0, 0, 1.0]])
    gen = [Rz, Rx, Ry, Rz @ Rx, Rx @ Ry @ Rz2, Rz2, Rz.T]
    if tier == "quick":
        # identity, the three quarter turns, one 120-degree turn, and the generic ones
        pick = [R for R in rots if np.allclose(R, np.eye(3))]
        quarter = [R for R in rots if np.isclose(np.trace(R), 1.0)][:3]
        third = [R for R in rots if np.isclose(np.trace(R), 0.0)][:1]
        return pick + quarter + third + gen
    return rots + gen


MAGS = (1e-20, 1e-17, 1e-15, 1e-9, 1e9, 1e15)  # besides 1: every comparison is relative to the tensor's scale


def cases(tier):
    out = []
    for sig in SIGS:
        for blk in range(3):  # kxx value selects the block
            out.append({"kind": "so1", "sig": sig, "kxx": blk, "mag": 1.0})
    for mag in MAGS:
        for blk in range(3):
            out.append({"kind": "so1", "sig": "full", "kxx": blk, "mag": mag})
        if tier == "thorough":
            out.append({"kind": "so1", "sig": "xx-yy-xy", "kxx": 1, "mag": mag})
    for mag in (1.0,) + MAGS:
        out.append({"kind": "so_multi", "nc": 2, "mag": mag})
    if tier == "thorough":
        for first in range(len(REPR)):
            for mag in (1.0, 1e-15, 1e15):
                out.append({"kind": "so_multi", "nc": 3, "first": first, "mag": mag})
    for nc in (1, 2) if tier == "quick" else (1, 2, 3):
        for fields in (0, 1, 2):
            for mag in ((1.0,) + MAGS if nc < 3 else (1.0, 1e-15, 1e15)):
                out.append({"kind": "fo", "nc": nc, "fields": fields, "mag": mag})
    for c in out:
        c["tier"] = tier
    return out


# ----------------------------------------------------------------------------- second order


def _dense(comp):
    """(nc, 3, 3) dense symmetric matrices from component tuples."""
    K = np.zeros((len(comp), 3, 3))
    for c, (xx, yy, zz, xy, xz, yz) in enumerate(comp):
        K[c] = [[xx, xy, xz], [xy, yy, yz], [xz, yz, zz]]
    return K


def _check_second_order(out, comp, sig, rots, tag):
    """comp: list over cells of (kxx, kyy, kzz, kxy, kxz, kyz) (entries not in sig are ignored)."""
    import porepy as pp

    nc = len(comp)
    arr = {n: np.array([c[i] for c in comp]) for i, n in enumerate(("kxx", "kyy", "kzz", "kxy", "kxz", "kyz"))}
    given = {"xx": ["kxx"], "xx-yy": ["kxx", "kyy"], "xx-yy-zz": ["kxx", "kyy", "kzz"],
             "xx-yy-xy": ["kxx", "kyy", "kxy"], "full": ["kxx", "kyy", "kzz", "kxy", "kxz", "kyz"]}[sig]
    # the matrix that the arguments describe; unspecified diagonal entries are not demanded, so take them
    # from the constructed object after construction (only positive definiteness of the *given* part is
    # decided beforehand, on the matrix with kxx on the unspecified diagonal entries and zero off-diagonals)
    eff = []
    for c in range(nc):
        xx = arr["kxx"][c]
        yy = arr["kyy"][c] if "kyy" in given else xx
        zz = arr["kzz"][c] if "kzz" in given else xx
        xy = arr["kxy"][c] if "kxy" in given else 0.0
        xz = arr["kxz"][c] if "kxz" in given else 0.0
        yz = arr["kyz"][c] if "kyz" in given else 0.0
        eff.append((xx, yy, zz, xy, xz, yz))
    Kref = _dense(eff)
    pd = bool(np.all(np.linalg.eigvalsh(Kref) > 1e-9 * np.abs(Kref).max()))
    desc = {"signature": sig, "components": {k: arr[k].tolist() for k in given}}
    args = {k: arr[k].copy() for k in given}
    try:
        T = pp.SecondOrderTensor(**args)
    except ValueError as e:
        if pd:
            out.violate("SecondOrderTensor constructor rejected a positive definite tensor", error=repr(e), **desc)
            out.ev("VIOLATION")
        else:
            out.ev(f"{tag}/rejected-not-positive-definite")
        return
    except Exception as e:
        out.violate("SecondOrderTensor constructor raised", error=repr(e), **desc)
        out.ev("VIOLATION")
        return
    if not pd:
        out.ev(f"{tag}/accepted-not-positive-definite(not demanded)")
        return
    V = T.values
    if not isinstance(V, np.ndarray) or V.shape != (3, 3, nc):
        out.violate("SecondOrderTensor.values has the wrong shape", shape=np.shape(V), **desc)
        out.ev("VIOLATION")
        return
    if not np.array_equal(V, V.transpose((1, 0, 2))):
        out.violate("SecondOrderTensor is not symmetric", values=V, **desc)
        out.ev("VIOLATION")
        return
    pos = {"kxx": (0, 0), "kyy": (1, 1), "kzz": (2, 2), "kxy": (0, 1), "kxz": (0, 2), "kyz": (1, 2)}
    for k in given:
        if not np.array_equal(V[pos[k]], arr[k]):
            out.violate(f"stored component {k} differs from the argument", values=V, **desc)
            out.ev("VIOLATION")
            return
    if any(not np.array_equal(args[k], arr[k]) for k in given) or any(np.shares_memory(args[k], V) for k in given):
        out.violate("SecondOrderTensor constructor modified or aliases its argument arrays", **desc)
        out.ev("VIOLATION")
        return
    K0 = V.transpose((2, 0, 1)).copy()  # (nc, 3, 3) as built
    iso = all(np.array_equal(K0[c], K0[c][0, 0] * np.eye(3)) for c in range(nc))
    out.ev(f"{tag}/built/{'iso' if iso else 'aniso'}")
    scale = float(np.abs(K0).max())
    ev0 = np.linalg.eigvalsh(K0)

    # --- rotate
    for ir, R in enumerate(rots):
        Tr = T.copy()
        Rin = R.copy()
        try:
            Tr.rotate(Rin)
            if not np.array_equal(Rin, R):
                raise AssertionError("rotate modified the rotation matrix")
        except Exception as e:
            out.violate("rotate raised", error=repr(e), R=R, **desc)
            out.ev("VIOLATION")
            continue
        W = Tr.values
        bad = None
        if not isinstance(W, np.ndarray) or W.shape != (3, 3, nc):
            bad = "rotate changed the shape of values"
        else:
            Wc = W.transpose((2, 0, 1))
            A = np.einsum("ia,cab,jb->cij", R, K0, R)
            Bm = np.einsum("ai,cab,bj->cij", R, K0, R)
            tol = 1e-12 * scale
            if not (np.abs(Wc - A).max() <= tol or np.abs(Wc - Bm).max() <= tol):
                bad = "rotated tensor is neither R K R^T nor R^T K R"
            elif np.abs(Wc - Wc.transpose((0, 2, 1))).max() > tol:
                bad = "rotated tensor is not symmetric"
            else:
                evr = np.linalg.eigvals(Wc)
                if np.abs(np.sort(evr.real, axis=1) - ev0).max() > tol or np.abs(evr.imag).max() > tol:
                    bad = "rotation does not preserve the eigenvalues"
        if bad is None and not np.array_equal(T.values.transpose((2, 0, 1)), K0):
            bad = "rotating a copy changed the original"
        symR = np.allclose(R, R.T)
        key = (tag, sig, tuple(map(tuple, eff)), "rot", ir) if (not iso and not symR) else None
        if bad:
            out.violate(bad, R=R, got=W, **desc)
            out.ev("VIOLATION")
        else:
            out.ev(f"{tag}/rotate/{'iso' if iso else 'aniso'}/{'symR' if symR else 'genR'}", key)

    _check_restrict_copy(out, T, {"values": K0.transpose((1, 2, 0))}, [], nc, tag, desc, (tag, sig, tuple(map(tuple, eff))))


# ----------------------------------------------------------------------------- shared: restrict + copy


def _public_arrays(T, fields):
    d = {"values": T.values}
    for f in fields:
        d[f] = getattr(T, f)
    return d


def _selections(nc):
    sels = []
    for k in range(1, nc + 1):
        for s in itertools.permutations(range(nc), k):
            sels.append(("idx", list(s)))
    if nc > 1:
        sels.append(("idx", [0, 0]))
        sels.append(("idx", [nc - 1, 0, nc - 1]))
    for bits in itertools.product((False, True), repeat=nc):
        if any(bits):
            sels.append(("mask", list(bits)))
    return sels


def _check_restrict_copy(out, T, ref, fields, nc, tag, desc, keybase):
    """ref: dict attribute -> expected array with the cell axis LAST (values) or only (fields)."""
    # --- copy
    try:
        C = T.copy()
    except Exception as e:
        out.violate("copy raised", error=repr(e), **desc)
        out.ev("VIOLATION")
        return
    bad = None
    if type(C) is not type(T):
        bad = "copy has a different type"
    a, b = _public_arrays(T, fields), _public_arrays(C, fields)
    for k in a:
        if bad:
            break
        if not isinstance(b[k], np.ndarray) or b[k].shape != a[k].shape or not np.array_equal(a[k], b[k]):
            bad = f"copy differs from the original in '{k}'"
        elif np.shares_memory(a[k], b[k]):
            bad = f"copy shares the memory of '{k}' with the original"
    if not bad and fields and list(C.constitutive_parameters) != list(T.constitutive_parameters):
        bad = "copy has different constitutive parameters"
    if not bad:
        # mutate the copy, then the original; the other side must not move
        snap = {k: v.copy() for k, v in a.items()}
        for k in b:
            b[k] *= 1.5
            b[k] += np.abs(b[k]).max() if b[k].size and np.abs(b[k]).max() > 0 else 1.0
        if any(not np.array_equal(a[k], snap[k]) for k in a):
            bad = "mutating the copy changed the original"
        else:
            snapc = {k: v.copy() for k, v in b.items()}
            for k in a:
                a[k] *= 2.0
            if any(not np.array_equal(b[k], snapc[k]) for k in b):
                bad = "mutating the original changed the copy"
            for k in a:
                a[k] /= 2.0  # exact for binary floating point
            if any(not np.array_equal(a[k], snap[k]) for k in a):
                raise RuntimeError("harness: could not restore the original")
    if bad:
        out.violate(bad, **desc)
        out.ev("VIOLATION")
    else:
        out.ev(f"{tag}/copy/{'fields' + str(len(fields) - 2) if fields else 'plain'}",
               keybase + ("copy",) if (fields or nc > 1) else None)

    # --- restrict_to_cells
    for form, sel in _selections(nc):
        cells = np.array(sel, dtype=bool if form == "mask" else np.int64)
        idx = np.where(cells)[0] if form == "mask" else cells
        before = {k: v.copy() for k, v in _public_arrays(T, fields).items()}
        try:
            cin = cells.copy()
            Rr = T.restrict_to_cells(cin)
            if not np.array_equal(cin, cells):
                raise AssertionError("restrict_to_cells modified the cell selection")
        except Exception as e:
            out.violate("restrict_to_cells raised", error=repr(e), cells=sel, **desc)
            out.ev("VIOLATION")
            continue
        bad = None
        got = _public_arrays(Rr, fields)
        for k, exp in ref.items():
            want = exp[..., idx]
            if not isinstance(got[k], np.ndarray) or got[k].shape != want.shape or not np.array_equal(got[k], want):
                bad = f"restricted '{k}' is not the selection of the cells"
                break
            if np.shares_memory(got[k], _public_arrays(T, fields)[k]):
                bad = f"restricted '{k}' shares memory with the original"
                break
        if not bad:
            now = _public_arrays(T, fields)
            if any(not np.array_equal(now[k], before[k]) for k in before):
                bad = "restrict_to_cells changed the original"
        if not bad and fields and list(Rr.constitutive_parameters) != list(T.constitutive_parameters):
            bad = "restricted tensor has different constitutive parameters"
        trivial = form == "idx" and sel == list(range(nc))
        if bad:
            out.violate(bad, cells=sel, got={k: v for k, v in got.items()}, **desc)
            out.ev("VIOLATION")
        else:
            kind = "identity" if trivial else ("mask" if form == "mask" else
                                               ("repeat" if len(set(sel)) < len(sel) else
                                                ("reorder" if sel != sorted(sel) else "subset")))
            out.ev(f"{tag}/restrict/{kind}", None if trivial else keybase + ("restrict", form, tuple(sel)))


# ----------------------------------------------------------------------------- fourth order


def _iso_stiffness(mu, lmbda):
    """(9, 9, nc) from C_ijkl = lambda d_ij d_kl + mu (d_ik d_jl + d_il d_jk), row 3i+j, column 3k+l."""
    nc = len(mu)
    C = np.zeros((9, 9, nc))
    d = np.eye(3)
    for i, j, k, l in itertools.product(range(3), repeat=4):
        C[3 * i + j, 3 * k + l] = lmbda * d[i, j] * d[k, l] + mu * (d[i, k] * d[j, l] + d[i, l] * d[j, k])
    return C


def _field_mats():
    # symmetric, with the minor symmetries of a stiffness tensor
    m1 = np.zeros((9, 9))
    m1[0, 0] = 1.0  # C_0000
    m2 = np.zeros((9, 9))
    for (i, j), (k, l) in itertools.product([(0, 1), (1, 0)], repeat=2):
        m2[3 * i + j, 3 * k + l] = 0.5  # shear 01
    m2[8, 8] = 2.0
    return m1, m2


def _check_fourth_order(out, pairs, nfields, tag, mag=1.0):
    import porepy as pp

    nc = len(pairs)
    mu = np.array([p[0] for p in pairs]) * mag
    lm = np.array([p[1] for p in pairs]) * mag
    m1, m2 = _field_mats()
    f1 = np.array([0.25 * (c + 1) for c in range(nc)]) * mag
    f2 = np.array([3.0 - c for c in range(nc)]) * mag
    other = {}
    if nfields >= 1:
        other["phi"] = (m1.copy(), f1.copy())
    if nfields >= 2:
        other["chi"] = (m2.copy(), f2.copy())
    desc = {"mu": mu.tolist(), "lmbda": lm.tolist(), "other_fields": sorted(other)}
    try:
        T = pp.FourthOrderTensor(mu.copy(), lm.copy(), other_fields=other if other else None)
    except Exception as e:
        out.violate("FourthOrderTensor constructor raised", error=repr(e), **desc)
        out.ev("VIOLATION")
        return
    V = T.values
    exp = _iso_stiffness(mu, lm)
    if nfields >= 1:
        exp = exp + m1[:, :, None] * f1
    if nfields >= 2:
        exp = exp + m2[:, :, None] * f2
    bad = None
    if not isinstance(V, np.ndarray) or V.shape != (9, 9, nc):
        bad = "FourthOrderTensor.values has the wrong shape"
    elif not np.array_equal(V, V.transpose((1, 0, 2))):
        bad = "FourthOrderTensor is not symmetric (major symmetry)"
    else:
        V4 = V.reshape((3, 3, 3, 3, nc))
        if not (np.array_equal(V4, V4.transpose((1, 0, 2, 3, 4))) and np.array_equal(V4, V4.transpose((0, 1, 3, 2, 4)))):
            bad = "FourthOrderTensor lacks the minor symmetries"
        elif np.abs(V - exp).max() > 1e-14 * np.abs(exp).max():
            bad = "FourthOrderTensor differs from the isotropic stiffness formula"
    fields = ["mu", "lmbda"] + sorted(other)
    if not bad:
        if sorted(T.constitutive_parameters) != sorted(fields):
            bad = "constitutive_parameters does not list the given fields"
        elif not (np.array_equal(T.mu, mu) and np.array_equal(T.lmbda, lm)
                  and all(np.array_equal(getattr(T, k), v[1]) for k, v in other.items())):
            bad = "stored parameter fields differ from the arguments"
    if bad:
        out.violate(bad, values=V, **desc)
        out.ev("VIOLATION")
        return
    out.ev(f"{tag}/built/fields{nfields}")
    ref = {"values": V.copy(), "mu": mu.copy(), "lmbda": lm.copy()}
    if nfields >= 1:
        ref["phi"] = f1.copy()
    if nfields >= 2:
        ref["chi"] = f2.copy()
    _check_restrict_copy(out, T, ref, fields, nc, tag, desc, (tag, tuple(pairs), nfields, mag))


# ----------------------------------------------------------------------------- driver


def run_case(case) -> Outcome:
    out = Outcome()
    kind = case["kind"]
    mag = case.get("mag", 1.0)
    mtag = "" if mag == 1.0 else f"@{mag:g}"
    if kind == "so1":
        rots = rotations(case["tier"])
        used = {"xx": (), "xx-yy": (1,), "xx-yy-zz": (1, 2), "xx-yy-xy": (1, 3), "full": (1, 2, 3, 4, 5)}[case["sig"]]
        seen = set()
        for yy, zz in itertools.product(DIAG, repeat=2):
            for xy, xz, yz in itertools.product(OFF, repeat=3):
                comp = (DIAG[case["kxx"]], yy, zz, xy, xz, yz)
                sig_key = tuple(comp[i] for i in used)  # components the signature does not pass are ignored
                if sig_key in seen:
                    continue
                seen.add(sig_key)
                _check_second_order(out, [tuple(mag * v for v in comp)], case["sig"], rots, "so1" + mtag)
    elif kind == "so_multi":
        rots = rotations(case["tier"])
        nc = case["nc"]
        firsts = [case["first"]] if "first" in case else range(len(REPR))
        for f in firsts:
            for rest in itertools.product(range(len(REPR)), repeat=nc - 1):
                comp = [REPR[f]] + [REPR[r] for r in rest]
                comp = [tuple(mag * v for v in c) for c in comp]
                _check_second_order(out, comp, "full", rots, f"so{nc}" + mtag)
    else:
        nc = case["nc"]
        for pairs in itertools.product(LAME, repeat=nc):
            _check_fourth_order(out, list(pairs), case["fields"], f"fo{nc}" + mtag, mag)
    if not out.samples:
        out.samples.append({"case": {k: v for k, v in case.items()}, "classes": dict(out.classes)})
    return out


def known_finding(case, viol):
    return None
