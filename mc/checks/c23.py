"""C23 — refinement and extrusion preserve measure and nesting.

Engine E, five families (each enumerated completely within the stated bound):

refine1d   refine_grid_1d(g, ratio): 1-d letters (uniform, non-uniform, 1-d fracture
           grids with reversed / split node numbering) x embeddings x every ratio.
refinetri  refine_triangle_grid(g): every triangle letter x embeddings.
remesh     remesh_1d(g, n): 1-d letters with two boundary nodes x embeddings x every n.
structured structured_refinement(coarse, fine): 1-d Cartesian pairs (n, k n), 1-d
           non-uniform grids against their refine_grid_1d images, triangle letters
           against refine_triangle_grid images and against StructuredTriangleGrid(2n),
           tetrahedral pairs (n, 2n) when nested.
extrude    extrude_grid(g, z): a point grid, 1-d letters (also rotated inside the
           xy-plane, also 1-d fracture grids), 2-d letters with convex cells (Cartesian,
           tensor, triangle, polygonal, polytopal, mixed orientation, split by
           fractures) x every layer vector.

Oracles: the new grid must satisfy the divergence-theorem identities of C19 with the
closed-form measure (parent measure x extrusion height); every child lies inside its
parent (exact rational orientation tests on the dyadic reference coordinates, 1e-12
relative tolerance on embedded grids); the children of a parent add up to the parent's
measure; returned maps are total functions onto the parents.
"""

from __future__ import annotations

import itertools
import warnings

import numpy as np

from mc.core import Outcome
from mc.oracles import grpG_grids as G

PROPERTY = "C23"
LEVEL = "exploration"
RULE = (
    "one case = (family, base grid, embedding); it runs every ratio / node count / "
    "layer vector / partner grid of the family; one evaluation = one call of the "
    "function under test; non-trivial = more than one parent cell or more than one "
    "layer / ratio > 1 on a non-uniform or embedded grid; distinct by inputs"
)
ASSUMPTIONS = [
    "dtype letters: layer vectors with integer entries are passed to extrude_grid / "
    "extrude_mdg both as float and as integer-dtype arrays, on sources placed at "
    "non-integer coordinates; both calls are judged by the same oracles",
    "purity: refine_grid_1d, remesh_1d, refine_triangle_grid, structured_refinement and "
    "extrude_grid must leave their argument grids bitwise unchanged (geometry computed "
    "beforehand; extrude_grid documents that it recomputes the geometry of its argument, "
    "so the five geometry fields are exempt there)",
    "scale axis: node coordinates (and layer vectors) multiplied by s in {1e-4,1e-2,1e3}; "
    "all tolerances are relative to the grid size, no absolute floor; structured_refinement "
    "is not scaled (its absolute point-in-polygon tolerance is a documented parameter)",
    "'valid grid' = the C19 identities hold on the returned grid (positive volumes, "
    "closed cells, outward normals for convex cells, volume and centroid identities)",
    "refine_grid_1d returns no map: nesting is judged geometrically (each new cell lies "
    "in exactly one old cell, each old cell is tiled by exactly `ratio` new cells)",
    "extrude_grid is applied to grids with convex cells lying in the xy-plane (its "
    "documented domain); concave letters are excluded",
    "structured_refinement pairs are used only if the oracle confirms nesting (every "
    "fine cell inside exactly one coarse cell); 2-d/3-d pairs are simplex grids (the "
    "function's documented assumption)",
    "containment tolerance 1e-12 * extent on embedded grids; exact rational tests in "
    "reference position",
]
BOUNDS = {
    "quick": "refine1d: 8 grids x 3 embeddings x ratio 2..4; refinetri: 6 letters x 2 embeddings; remesh: 6 grids x 3 embeddings x n=2..7; structured: 1-d n<=3,k<=3, 5 triangle and 2 tetrahedral pairs; extrude: 1 point + 10 1-d + 16 2-d grids x 4 layer vectors",
    "thorough": "ratio 2..6; n=2..9; extrude with 6 layer vectors; additional letters C4, C33, T33",
}
MIN_CLASSES = 8
CHUNK = 2
TOL = 1e-12

ROTZ = G._quat(2, 0, 0, 1)  # rotation about the z-axis, cos = 3/5, sin = 4/5
EMB = [None, ["q1", "t1"], ["c7", "t2"]]
# scale axis: third entry = factor applied to all node coordinates after the motion
EMB_SCALED = [["id", "t0", 1e-4], ["q1", "t1", 1e-2], ["c7", "t0", 1e3]]


def _quiet(f, *a, **k):
    with warnings.catch_warnings():
        warnings.simplefilter("ignore")
        return f(*a, **k)


# ------------------------------------------------------------------ base grids


def _one_d_sources():
    src = [("base", n) for n in ("C1", "C2", "C3", "X3")]
    src += [("frac", "F2", 0), ("frac", "F3", 0), ("frac", "F3", 1), ("frac", "F1", 0)]
    return src


def _get_1d(src, tier="quick"):
    if src[0] == "base":
        spec = dict(G.base_specs("thorough"))[src[1]]
        return G.build(spec), src[1]
    grids = [g for lab, g in G.frac_grids(src[1]) if g.dim == 1]
    g = grids[src[2]]
    return g, f"{src[1]}/d1#{src[2]}"


def _move(g, m):
    if m:
        R, t = G.motion(m[:2])
        g.nodes = R @ g.nodes + t.reshape((3, 1))
        if len(m) > 2:
            g.nodes = float(m[2]) * g.nodes
    return g


def _spec_with(spec, m):
    if not m:
        return dict(spec)
    v = dict(spec, motion=m[:2])
    if len(m) > 2:
        v["scale"] = m[2]
    return v


def _size(g):
    """Size of a grid for relative tolerances (no absolute floor)."""
    return float(np.abs(g.nodes).max()) if g.num_nodes else 1.0


TRI_LETTERS = ["T11", "T22", "T32", "D7", "E6", "M6"]
EXTR_2D = ["C11", "C21", "C22", "C32", "X22", "T11", "T22", "D7", "E6", "M6", "H:hexagon", "H:pentatri", "H:disj_eq", "P2"]
EXTR_2D_FRAC = [("F1", 2), ("F2", 2), ("F3", 2)]
Z_QUICK = [[0, 1], [0, 0.5, 2], [0, -1], [1, 2, 4, 5]]
Z_THOROUGH = Z_QUICK + [[0, -0.5, -2], [-1, -3]]


def cases(tier):
    out = []
    ratios = list(range(2, 5 if tier == "quick" else 7))
    nn = list(range(2, 8 if tier == "quick" else 10))
    one_d = _one_d_sources() + ([("base", "C4")] if tier == "thorough" else [])
    tri = TRI_LETTERS + (["T33"] if tier == "thorough" else [])
    for src in one_d:
        for m in EMB + EMB_SCALED:
            out.append({"fam": "refine1d", "src": list(src), "motion": m, "ratios": ratios})
    for src in one_d:
        if src[0] == "frac" and src[1] == "F3":
            continue  # four tagged boundary nodes: outside remesh_1d's domain
        for m in EMB + EMB_SCALED:
            out.append({"fam": "remesh", "src": list(src), "motion": m, "nn": nn})
    for name in tri:
        for m in EMB[:2] + EMB_SCALED:
            out.append({"fam": "refinetri", "name": name, "motion": m})
    # structured refinement
    for n in (1, 2, 3):
        for m in EMB[:2]:
            out.append({"fam": "structured", "pair": ["cart1", n], "motion": m, "ks": [2, 3] if tier == "quick" else [2, 3, 4]})
    for m in EMB[:2]:
        out.append({"fam": "structured", "pair": ["refine1d", "X3"], "motion": m, "ks": ratios})
    for name in tri:
        for m in EMB[:2]:
            out.append({"fam": "structured", "pair": ["refinetri", name], "motion": m, "ks": [1]})
    for n in ([1, 1], [2, 1], [2, 2]):
        out.append({"fam": "structured", "pair": ["stri", n], "motion": None, "ks": [2, 3]})
    for n in ([1, 1, 1], [2, 1, 1]):
        out.append({"fam": "structured", "pair": ["stet", n], "motion": None, "ks": [2]})
    # extrusion
    zs = Z_QUICK if tier == "quick" else Z_THOROUGH
    out.append({"fam": "extrude_mdg", "zs": zs})
    for sc in [None] + G.SCALES:
        out.append({"fam": "extrude", "src": ["point"], "rotz": False, "zs": zs, "scale": sc})
        for src in one_d:
            for rz in (False, True):
                out.append({"fam": "extrude", "src": ["1d"] + list(src), "rotz": rz, "zs": zs, "scale": sc})
        for name in EXTR_2D + (["C33", "T33"] if tier == "thorough" else []):
            out.append({"fam": "extrude", "src": ["2d", name], "rotz": False, "zs": zs, "scale": sc})
        for f, d in EXTR_2D_FRAC:
            out.append({"fam": "extrude", "src": ["2dfrac", f], "rotz": False, "zs": zs, "scale": sc})
    return out


# ------------------------------------------------------------------ helpers


def _valid(g_new, measure, convex, out, what, **detail):
    """C19 identities on a produced grid; returns True when they hold."""
    res, signs = G.divergence_defects(g_new, g_new.nodes[:, 0].copy(), measure, planar=True, convex=convex)
    ok = True
    for k, lst in signs.items():
        if lst:
            out.violate(f"{what}: produced grid invalid ({k})", where=lst[:5], **detail)
            ok = False
    for nm, defect, scale, where in res:
        if not defect <= TOL * scale:
            out.violate(f"{what}: produced grid violates {nm}", defect=defect, length_scale=scale, where=where, **detail)
            ok = False
    return ok


def _seg_param(a, b, x):
    """Parameter of x along a->b and its distance from the line."""
    ab = b - a
    L2 = float(ab @ ab)
    t = float((x - a) @ ab) / L2
    off = float(np.linalg.norm((x - a) - t * ab))
    return t, off


def _cells_1d(g):
    cn = g.cell_nodes().tocsc()
    return [tuple(int(v) for v in cn.indices[cn.indptr[c] : cn.indptr[c + 1]]) for c in range(g.num_cells)]


def _parent_of_segment(g_old, old_cells, xa, xb, ext):
    """Indices of old cells that contain the closed segment xa-xb (tolerance)."""
    hits = []
    for p, (i, j) in enumerate(old_cells):
        a, b = g_old.nodes[:, i], g_old.nodes[:, j]
        ok = True
        for x in (xa, xb):
            t, off = _seg_param(a, b, x)
            if not (-TOL * 10 <= t <= 1 + TOL * 10 and off <= TOL * ext):
                ok = False
        if ok:
            hits.append(p)
    return hits


def _tri_contains(P, x, exact, ext):
    """Closed containment of point x (3-vector) in triangle P (3 x 3 columns)."""
    if exact:
        poly = [(G.F(P[0, k]), G.F(P[1, k])) for k in range(3)]
        return G.in_convex_polygon_exact(poly, (G.F(x[0]), G.F(x[1])))
    # barycentric coordinates in the plane of the triangle
    A = np.column_stack((P[:, 1] - P[:, 0], P[:, 2] - P[:, 0]))
    lam, *_ = np.linalg.lstsq(A, x - P[:, 0], rcond=None)
    res = float(np.linalg.norm(A @ lam - (x - P[:, 0])))
    l0 = 1 - lam.sum()
    return res <= TOL * ext and min(l0, lam[0], lam[1]) >= -1e-10


def _cell_nodes_list(g):
    cn = g.cell_nodes().tocsc()
    return [cn.indices[cn.indptr[c] : cn.indptr[c + 1]] for c in range(g.num_cells)]


# ------------------------------------------------------------------ families


def _run_refine1d(case, out):
    from porepy.grids import refinement

    for ratio in case["ratios"]:
        g, label = _get_1d(case["src"])
        _move(g, case["motion"])
        detail = {"grid": label, "motion": case["motion"], "ratio": ratio}
        _quiet(g.compute_geometry)
        old_cells = _cells_1d(g)
        old_len = np.array([np.linalg.norm(g.nodes[:, j] - g.nodes[:, i]) for i, j in old_cells])
        ext = _size(g)
        try:
            with G.Pure(out, "refine_grid_1d", [g], **detail) as pure:
                h = _quiet(refinement.refine_grid_1d, g, ratio)
        except Exception as e:
            out.violate("refine_grid_1d raised", error=repr(e), **detail)
            out.ev("VIOLATION")
            continue
        bad = "argument grid mutated (reported above)" if pure.changed else None
        if h.dim != 1 or h.num_cells != ratio * g.num_cells:
            bad = f"expected {ratio * g.num_cells} cells of dimension 1, got {h.num_cells} (dim {h.dim})"
        ok = _valid(h, float(old_len.sum()), True, out, "refine_grid_1d", **detail)
        if bad is None and ok:
            kids = {p: [] for p in range(g.num_cells)}
            for c, (i, j) in enumerate(_cells_1d(h)):
                hits = _parent_of_segment(g, old_cells, h.nodes[:, i], h.nodes[:, j], ext)
                # split nodes (fracture intersections) make two old cells touch in a
                # point only; a cell of positive length lies in one of them
                if len(hits) != 1:
                    bad = f"new cell {c} lies in {len(hits)} old cells"
                    break
                kids[hits[0]].append(c)
            if bad is None:
                for p, cs in kids.items():
                    if len(cs) != ratio:
                        bad = f"old cell {p} has {len(cs)} children, expected {ratio}"
                        break
                    if abs(h.cell_volumes[cs].sum() - old_len[p]) > TOL * ext:
                        bad = f"children of old cell {p} do not add up to its length"
                        break
        if bad:
            out.violate("refine_grid_1d: " + bad, **detail)
        if bad or not ok:
            out.ev("VIOLATION")
        else:
            uniform = bool(np.allclose(old_len, old_len[0]))
            out.ev(f"refine1d/{'emb' if case['motion'] else 'ref'}/{'uniform' if uniform else 'nonuniform'}/{case['src'][0]}" + ("/scaled" if case["motion"] and len(case["motion"]) > 2 else ""), ("r1", label, str(case["motion"]), ratio) if (g.num_cells > 1 or case["motion"]) else None)
    if not out.samples:
        out.samples.append({"family": "refine1d", "src": case["src"], "motion": case["motion"], "ratios": case["ratios"]})


def _run_remesh(case, out):
    from porepy.grids import refinement

    for n in case["nn"]:
        g, label = _get_1d(case["src"])
        _move(g, case["motion"])
        _quiet(g.compute_geometry)
        detail = {"grid": label, "motion": case["motion"], "num_nodes": n}
        old_cells = _cells_1d(g)
        total = float(sum(np.linalg.norm(g.nodes[:, j] - g.nodes[:, i]) for i, j in old_cells))
        ext = _size(g)
        # end points of the old grid: the two nodes that belong to one cell only
        cnt = np.bincount(np.array(old_cells).ravel(), minlength=g.num_nodes)
        ends = g.nodes[:, np.where(cnt == 1)[0]]
        try:
            with G.Pure(out, "remesh_1d", [g], **detail) as pure:
                h = _quiet(refinement.remesh_1d, g, n)
        except Exception as e:
            out.violate("remesh_1d raised", error=repr(e), **detail)
            out.ev("VIOLATION")
            continue
        bad = "argument grid mutated (reported above)" if pure.changed else None
        ok = _valid(h, total, True, out, "remesh_1d", **detail)
        if bad:
            pass
        elif h.dim != 1 or h.num_cells != n - 1 or h.num_nodes != n:
            bad = f"expected {n} nodes / {n - 1} cells, got {h.num_nodes} / {h.num_cells}"
        elif ends.shape[1] == 2:
            a, b = ends[:, 0], ends[:, 1]
            for k in range(h.num_nodes):
                t, off = _seg_param(a, b, h.nodes[:, k])
                if not (-TOL * 10 <= t <= 1 + TOL * 10 and off <= TOL * ext):
                    bad = f"new node {k} is outside the old domain"
                    break
            hcnt = np.bincount(np.array(_cells_1d(h)).ravel(), minlength=h.num_nodes)
            hend = h.nodes[:, np.where(hcnt == 1)[0]]
            if bad is None and not (
                min(np.linalg.norm(hend[:, 0] - a), np.linalg.norm(hend[:, 1] - a)) <= TOL * ext
                and min(np.linalg.norm(hend[:, 0] - b), np.linalg.norm(hend[:, 1] - b)) <= TOL * ext
            ):
                bad = "end points of the new grid differ from those of the old grid"
        if bad:
            out.violate("remesh_1d: " + bad, **detail)
        if bad or not ok:
            out.ev("VIOLATION")
        else:
            rel = "coarser" if n - 1 < g.num_cells else ("same" if n - 1 == g.num_cells else "finer")
            out.ev(f"remesh/{'emb' if case['motion'] else 'ref'}/{rel}/{case['src'][0]}" + ("/scaled" if case["motion"] and len(case["motion"]) > 2 else ""), ("rm", label, str(case["motion"]), n))
    if not out.samples:
        out.samples.append({"family": "remesh", "src": case["src"], "motion": case["motion"], "node_counts": case["nn"]})


def _tri_grid(name, motion):
    spec = _spec_with(dict(G.base_specs("thorough"))[name], motion)
    return G.build(spec), spec


def _check_tri_children(g, h, parent, exact, out, what, detail):
    """h = refinement of triangle grid g with child -> parent array ``parent``."""
    ext = _size(g)
    parent = np.asarray(parent)
    if parent.shape != (h.num_cells,) or parent.dtype.kind not in "iu" or parent.min() < 0 or parent.max() >= g.num_cells:
        return "cell map is not an array of parent indices, one per new cell"
    cn_g = _cell_nodes_list(g)
    cn_h = _cell_nodes_list(h)
    for c in range(h.num_cells):
        P = g.nodes[:, cn_g[parent[c]]]
        for k in cn_h[c]:
            if not _tri_contains(P, h.nodes[:, k], exact, ext):
                return f"node {int(k)} of new cell {c} lies outside its parent {int(parent[c])}"
        if not _tri_contains(P, h.cell_centers[:, c], False, ext):
            return f"centre of new cell {c} lies outside its parent {int(parent[c])}"
    for p in range(g.num_cells):
        kids = np.where(parent == p)[0]
        if kids.size != 4:
            return f"parent {p} has {kids.size} children, expected 4"
        if abs(h.cell_volumes[kids].sum() - g.cell_volumes[p]) > TOL * ext**2:
            return f"children of parent {p} do not add up to its area"
    return None


def _run_refinetri(case, out):
    from porepy.grids import refinement

    g, spec = _tri_grid(case["name"], case["motion"])
    _quiet(g.compute_geometry)
    detail = {"grid": case["name"], "spec": spec, "motion": case["motion"]}
    try:
        with G.Pure(out, "refine_triangle_grid", [g], **detail) as pure:
            h, parent = _quiet(refinement.refine_triangle_grid, g)
        _quiet(h.compute_geometry)
    except Exception as e:
        out.violate("refine_triangle_grid raised", error=repr(e), **detail)
        out.ev("VIOLATION")
        return
    ok = _valid(h, G.domain_measure(spec), True, out, "refine_triangle_grid", **detail) and not pure.changed
    bad = None
    if h.num_cells != 4 * g.num_cells or h.dim != 2:
        bad = f"expected {4 * g.num_cells} cells, got {h.num_cells}"
    if bad is None and ok:
        bad = _check_tri_children(g, h, parent, not case["motion"], out, "refine_triangle_grid", detail)
    if bad:
        out.violate("refine_triangle_grid: " + bad, **detail)
    if bad or not ok:
        out.ev("VIOLATION")
    else:
        out.ev(f"refinetri/{'emb' if case['motion'] else 'ref'}/{spec['kind']}" + ("/scaled" if case["motion"] and len(case["motion"]) > 2 else ""), ("rt", case["name"], str(case["motion"])) if g.num_cells > 1 else None)
        out.samples.append({"family": "refinetri", "grid": case["name"], "motion": case["motion"], "cells": [g.num_cells, h.num_cells]})


def _containing_cells(g, pts_of_cell, exact, ext):
    """For a fine cell given by its node coordinates (3 x k) return the coarse cells of
    g that contain all of them (closed)."""
    hits = []
    cn = _cell_nodes_list(g)
    for c in range(g.num_cells):
        nd = cn[c]
        if g.dim == 1:
            a, b = g.nodes[:, nd[0]], g.nodes[:, nd[1]]
            ok = all((-1e-10 <= _seg_param(a, b, pts_of_cell[:, k])[0] <= 1 + 1e-10) and _seg_param(a, b, pts_of_cell[:, k])[1] <= TOL * ext * 10 for k in range(pts_of_cell.shape[1]))
        elif g.dim == 2:
            P = g.nodes[:, nd]
            ok = all(_tri_contains(P, pts_of_cell[:, k], exact, ext) for k in range(pts_of_cell.shape[1]))
        else:
            P = g.nodes[:, nd]
            A = (P[:, 1:] - P[:, :1])
            lam = np.linalg.solve(A, pts_of_cell - P[:, :1])
            l0 = 1 - lam.sum(axis=0)
            ok = bool(min(l0.min(), lam.min()) >= -1e-10)
        if ok:
            hits.append(c)
    return hits


def _run_structured(case, out):
    import porepy as pp
    from porepy.grids import refinement

    kind, arg = case["pair"]
    m = case["motion"]
    for k in case["ks"]:
        detail = {"pair": case["pair"], "k": k, "motion": m}
        try:
            if kind == "cart1":
                gc = _move(pp.CartGrid(int(arg), float(arg)), m)
                gf = _move(pp.CartGrid(int(arg) * k, float(arg)), m)
            elif kind == "refine1d":
                gc = _move(G.build(dict(G.base_specs("thorough"))[arg]), m)
                gf = _quiet(refinement.refine_grid_1d, gc, k)
            elif kind == "refinetri":
                gc, _ = _tri_grid(arg, m)
                _quiet(gc.compute_geometry)
                gf, _ = _quiet(refinement.refine_triangle_grid, gc)
            elif kind == "stri":
                gc = pp.StructuredTriangleGrid(np.array(arg), np.array(arg, float))
                gf = pp.StructuredTriangleGrid(np.array(arg) * k, np.array(arg, float))
            else:
                gc = pp.StructuredTetrahedralGrid(np.array(arg), np.array(arg, float))
                gf = pp.StructuredTetrahedralGrid(np.array(arg) * k, np.array(arg, float))
            _quiet(gc.compute_geometry)
            _quiet(gf.compute_geometry)
        except Exception as e:
            out.violate("structured_refinement: building the pair raised", error=repr(e), **detail)
            out.ev("VIOLATION")
            continue
        ext = _size(gc)
        exact = not m and k in (1, 2, 4)  # k = 3: thirds are not dyadic, use the tolerance test
        cn_f = _cell_nodes_list(gf)
        expected = []
        nested = True
        for f in range(gf.num_cells):
            hits = _containing_cells(gc, gf.nodes[:, cn_f[f]], exact and gc.dim == 2, ext)
            if len(hits) != 1:
                nested = False
                break
            expected.append(hits[0])
        if not nested:
            out.ev(f"skipped:not-nested/{kind}/{gc.dim}d")
            continue
        try:
            with G.Pure(out, "structured_refinement", [gc, gf], **detail) as pure:
                M = _quiet(refinement.structured_refinement, gc, gf)
            Md = np.asarray(M.toarray())
        except Exception as e:
            out.violate("structured_refinement raised on a nested pair", error=repr(e), **detail)
            out.ev("VIOLATION")
            continue
        E = np.zeros((gf.num_cells, gc.num_cells))
        E[np.arange(gf.num_cells), expected] = 1
        bad = "argument grid mutated (reported above)" if pure.changed else None
        if bad:
            pass
        elif Md.shape != E.shape:
            bad = f"shape {Md.shape}, expected {E.shape}"
        elif not np.array_equal(Md.sum(axis=1), np.ones(gf.num_cells)):
            bad = "a fine cell is not mapped to exactly one coarse cell"
        elif not np.array_equal(Md, E):
            bad = "a fine cell is mapped to a coarse cell that does not contain it"
        if bad:
            out.violate("structured_refinement: " + bad, got=Md, expected=E, **detail)
            out.ev("VIOLATION")
        else:
            out.ev(f"structured/{gc.dim}d/{kind}/{'emb' if m else 'ref'}", ("sr", str(case["pair"]), k, str(m)) if gc.num_cells > 1 else None)
    if not out.samples:
        out.samples.append({"family": "structured", "pair": case["pair"], "motion": m, "ks": case["ks"]})


def _extrude_source(case):
    import porepy as pp

    src = case["src"]
    if src[0] == "point":
        g = pp.PointGrid(np.array([0.5, 0.25, 0.0]))  # non-integer: integer-dtype z must not truncate
        g.compute_geometry()
        return g, "point", None, True
    if src[0] == "1d":
        g, label = _get_1d(src[1:])
        if case["rotz"]:
            g.nodes = ROTZ @ g.nodes + np.array([[0.5], [-1.0], [0.0]])
            label += "@rotz"
        return g, label, None, True
    if src[0] == "2d":
        spec = dict(G.base_specs("thorough"))[src[1]]
        return G.build(spec), src[1], G.domain_measure(spec), G.all_convex(spec)
    g = [h for lab, h in G.frac_grids(src[1]) if h.dim == 2][0]
    n = G.FRAC[src[1]][0]
    return g, src[1] + "/d2", float(n[0] * n[1]), True


def _run_extrude(case, out):
    from porepy.grids.grid_extrusion import extrude_grid

    sc = case.get("scale")
    zs = [(z, float) for z in case["zs"]]
    if sc is None:
        # dtype letters: layer vectors with integer entries are also passed as integer
        # arrays (np.array([0, 1, 2])); the result must be the same grid
        zs += [(z, int) for z in case["zs"] if all(float(v).is_integer() for v in z)]
    for z, zdtype in zs:
        g, label, measure, convex = _extrude_source(case)
        z = np.array(z, float)
        if sc is not None:
            # scale axis: the base grid and the layer vector multiplied by s
            g.nodes = float(sc) * g.nodes
            if g.dim == 0:
                g.cell_centers = float(sc) * g.cell_centers
            if measure is not None:
                measure *= float(sc) ** g.dim
            z = float(sc) * z
            label += f"*{sc:g}"
        detail = {"grid": label, "src": case["src"], "z": z, "z_dtype": zdtype.__name__, "scale": sc}
        if g.dim > 0:
            _quiet(g.compute_geometry)
        if measure is None:
            measure = 1.0 if g.dim == 0 else float(sum(np.linalg.norm(g.nodes[:2, j] - g.nodes[:2, i]) for i, j in _cells_1d(g)))
        height = abs(z[-1] - z[0])
        nl = z.size - 1
        old_vol = g.cell_volumes.copy()
        old_cc = g.cell_centers.copy()
        old_cn = _cell_nodes_list(g) if g.dim > 0 else None
        old_nodes = g.nodes.copy()
        try:
            # documented: "both the original and the new grid will have their geometry
            # computed" -> the five geometry fields may be rewritten (round-off level)
            with G.Pure(out, "extrude_grid", [g], allow=G.GEOM_FIELDS, **detail) as pure:
                h, cmap, fmap = _quiet(extrude_grid, g, z.astype(zdtype))
        except Exception as e:
            out.violate("extrude_grid raised", error=repr(e), **detail)
            out.ev("VIOLATION")
            continue
        ok = _valid(h, measure * height, convex, out, "extrude_grid", **detail) and not pure.changed
        bad = None
        ext = _size(h)
        nc = g.num_cells
        if h.dim != g.dim + 1 or h.num_cells != nc * nl:
            bad = f"expected dimension {g.dim + 1} with {nc * nl} cells, got {h.dim} with {h.num_cells}"
        elif len(cmap) != nc:
            bad = "cell map does not have one row per original cell"
        else:
            owner = -np.ones(h.num_cells, dtype=int)
            for c in range(nc):
                kids = np.asarray(cmap[c]).astype(int).ravel()
                if kids.size != nl or np.unique(kids).size != nl or kids.min() < 0 or kids.max() >= h.num_cells:
                    bad = f"cell map row {c} is not a list of {nl} distinct new cells"
                    break
                if np.any(owner[kids] >= 0):
                    bad = f"a new cell is assigned to two parents (row {c})"
                    break
                owner[kids] = c
            if bad is None and np.any(owner < 0):
                bad = "a new cell has no parent in the cell map"
        if bad is None and ok:
            lo, hi = np.minimum(z[:-1], z[1:]), np.maximum(z[:-1], z[1:])
            new_cn = _cell_nodes_list(h)
            for c in range(nc):
                kids = np.asarray(cmap[c]).astype(int).ravel()
                layers = set()
                for kc in kids:
                    X = h.nodes[:, new_cn[kc]]
                    zc = h.cell_centers[2, kc]
                    lay = [l for l in range(nl) if lo[l] < zc < hi[l]]
                    if len(lay) != 1 or X[2].min() < lo[lay[0]] - TOL * ext or X[2].max() > hi[lay[0]] + TOL * ext:
                        bad = f"new cell {int(kc)} does not lie inside one layer"
                        break
                    layers.add(lay[0])
                    if abs(h.cell_volumes[kc] - old_vol[c] * (hi[lay[0]] - lo[lay[0]])) > TOL * ext ** h.dim:
                        bad = f"new cell {int(kc)}: volume differs from parent measure x layer thickness"
                        break
                    if np.abs(h.cell_centers[:2, kc] - old_cc[:2, c]).max() > TOL * ext:
                        bad = f"new cell {int(kc)}: centre is not above the parent's centre"
                        break
                    if g.dim == 0:
                        inside = bool(np.abs(X[:2] - old_cc[:2, :1]).max() <= TOL * ext)
                    elif g.dim == 1:
                        a, b = old_nodes[:, old_cn[c][0]].copy(), old_nodes[:, old_cn[c][1]].copy()
                        a[2] = b[2] = 0.0
                        inside = True
                        for k in range(X.shape[1]):
                            x = X[:, k].copy()
                            x[2] = 0.0
                            t, off = _seg_param(a, b, x)
                            inside &= bool(-1e-10 <= t <= 1 + 1e-10 and off <= TOL * ext)
                    else:
                        # the xy-projections of the new cell's nodes are exactly the
                        # parent's nodes (prismatic extension)
                        par = {(float(old_nodes[0, i]), float(old_nodes[1, i])) for i in old_cn[c]}
                        kid = {(float(X[0, k]), float(X[1, k])) for k in range(X.shape[1])}
                        inside = kid == par
                    if not inside:
                        bad = f"new cell {int(kc)} does not lie inside (above) its parent {c}"
                        break
                if bad:
                    break
                if len(layers) != nl:
                    bad = f"children of cell {c} do not cover every layer once"
                    break
        if bad is None and g.dim > 0:
            # face map: row f lists, per layer, one new face whose nodes project onto face f
            if len(fmap) != g.num_faces:
                bad = "face map does not have one row per original face"
            else:
                fnl_old = G.face_node_lists(g)
                fnl_new = G.face_node_lists(h)
                for f in range(g.num_faces):
                    kids = np.asarray(fmap[f]).astype(int).ravel()
                    if kids.size != nl or np.unique(kids).size != nl:
                        bad = f"face map row {f} is not a list of {nl} distinct new faces"
                        break
                    par = {(float(old_nodes[0, i]), float(old_nodes[1, i])) for i in fnl_old[f]}
                    for kf in kids:
                        kid = {(float(h.nodes[0, i]), float(h.nodes[1, i])) for i in fnl_new[kf]}
                        if kid != par or np.ptp(h.nodes[2, fnl_new[kf]]) == 0:
                            bad = f"new face {int(kf)} is not the extrusion of face {f}"
                            break
                    if bad:
                        break
        if bad:
            out.violate("extrude_grid: " + bad, **detail)
        if bad or not ok:
            out.ev("VIOLATION")
        else:
            direction = "neg" if np.all(z <= 0) and np.any(z < 0) else "pos"
            out.ev(f"extrude/{g.dim}d->{h.dim}d/{direction}/L{min(nl, 2)}{'+' if nl > 2 else ''}/{case['src'][0]}" + ("" if sc is None else "/scaled") + ("/int-z" if zdtype is int else ""), ("ex", label, tuple(z.tolist()), zdtype.__name__) if (nc > 1 or nl > 1) else None)
    if not out.samples:
        out.samples.append({"family": "extrude", "src": case["src"], "layer_vectors": case["zs"]})


def _run_extrude_mdg(case, out):
    """extrude_mdg on a fractured 2-d md-grid (2-d, two 1-d, one 0-d subdomain) placed at
    non-integer coordinates, with float and with integer-dtype layer vectors."""
    import porepy as pp
    from porepy.grids.grid_extrusion import extrude_mdg

    fr = [np.array([[0.75, 2.25], [1.5, 1.5]]), np.array([[1.5, 1.5], [0.75, 2.25]])]
    for z in case["zs"]:
        dts = [float] + ([int] if all(float(v).is_integer() for v in z) else [])
        for dt in dts:
            detail = {"z": z, "z_dtype": dt.__name__}
            try:
                mdg = _quiet(pp.meshing.cart_grid, fr, np.array([4, 4]), physdims=np.array([3.0, 3.0]))
                _quiet(mdg.compute_geometry)
                olds = {sd: (sd.dim, sd.cell_volumes.copy(), (sd.nodes[:2].copy() if sd.dim > 0 else sd.cell_centers[:2].copy())) for sd in mdg.subdomains()}
                mdg_new, gmap = _quiet(extrude_mdg, mdg, np.array(z, dtype=dt))
            except Exception as e:
                out.violate("extrude_mdg raised", error=repr(e), **detail)
                out.ev("VIOLATION")
                continue
            height = abs(float(z[-1]) - float(z[0]))
            bad = None
            for sd, (dim, vol, xy) in olds.items():
                h = gmap[sd].grid
                ext = _size(h)
                if h.dim != dim + 1:
                    bad = f"subdomain of dimension {dim} became dimension {h.dim}"
                elif abs(h.cell_volumes.sum() - vol.sum() * height) > TOL * ext ** h.dim:
                    bad = f"{dim}-d subdomain: measure {h.cell_volumes.sum()} != {vol.sum()} x {height}"
                else:
                    old_xy = {(float(a), float(b)) for a, b in xy.T}
                    new_xy = {(float(a), float(b)) for a, b in h.nodes[:2].T}
                    if old_xy != new_xy:
                        bad = f"{dim}-d subdomain: the extruded nodes are not above the original nodes"
                    elif not (abs(h.nodes[2].min() - min(z)) <= TOL * ext and abs(h.nodes[2].max() - max(z)) <= TOL * ext):
                        bad = f"{dim}-d subdomain: z-range of the extruded grid differs from the layer vector"
                if bad:
                    break
            if bad:
                out.violate("extrude_mdg: " + bad, **detail)
                out.ev("VIOLATION")
            else:
                out.ev(f"extrude_mdg/{dt.__name__}-z/L{len(z) - 1}", ("xm", tuple(z), dt.__name__))
    out.samples.append({"family": "extrude_mdg", "layer_vectors": case["zs"]})


def run_case(case) -> Outcome:
    out = Outcome()
    {
        "refine1d": _run_refine1d,
        "remesh": _run_remesh,
        "refinetri": _run_refinetri,
        "structured": _run_structured,
        "extrude": _run_extrude,
        "extrude_mdg": _run_extrude_mdg,
    }[case["fam"]](case, out)
    return out


def known_finding(case, viol):
    return None
