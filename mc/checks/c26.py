"""C26 — mortar projections conserve extensive and preserve intensive quantities under
sequences of mortar / secondary / primary replacements.

Engine H: BFS over all sequences (bounded depth) of
``MixedDimensionalGrid.replace_subdomains_and_interfaces`` calls on small fractured
md-grids.  In every reached state, for every interface and every mortar side:

* ``primary_to_mortar_int``: the faces with a non-zero column in a side block all lie on
  one geometric side of the fracture, every fracture face of that side has column sum 1
  (totals preserved), all other columns are zero;
* ``secondary_to_mortar_int``: column sums 1 in every side block;
* ``*_to_mortar_avg``: row sums 1 (constants to constants);
* ``mortar_to_X_int == X_to_mortar_avg.T`` and ``mortar_to_X_avg == X_to_mortar_int.T``
  exactly (hence totals / constants in the direction mortar -> grid);
* the nd = 2, 3 versions equal ``kron(X(1), I_nd)`` exactly.

The geometric side of a face and the set of fracture faces are determined from
coordinates only (independent of the projections).
"""

from __future__ import annotations

import copy
import hashlib

import numpy as np

from mc.core import Abort, Outcome, bfs

PROPERTY = "C26"
LEVEL = "model_checking"
RULE = (
    "BFS over all sequences of replacement operations per base md-grid: new mortar side grids "
    "(both sides: uniform n cells for n/n0 in {1, 3/2, 2, 3}, one graded grid; one side only), "
    "new secondary grid (same family), new primary grid (2-d: mesh refined 2x along the fracture); "
    "one case = (base md-grid, first operation); non-trivial = some interface has a weight "
    "strictly between 0 and 1 (non-matching); distinct by (base, digest of all projection matrices)"
)
ASSUMPTIONS = [
    "sum tolerance 1e-10 (measured floor 1e-15); transposes and Kronecker versions compared exactly",
    "replacement grids cover exactly the fracture (aligned, common end points) as match_1d/match_2d require",
    "mortar and secondary replacements must not raise; an exception in a primary replacement "
    "(match_grids_along_1d_mortar, documented as fragile) counts as 'refused', wrong projections after a "
    "successful primary replacement count as violation",
    "abstract state = digest of all to-mortar matrices and grid sizes; merged histories must agree on "
    "the from-mortar matrices",
]
BOUNDS = {
    "quick": "bases frac2d(2x2), immersed2d, simplex2d, t2d, frac3d(simplex): depth 2",
    "thorough": "same bases plus frac2d_4x2: depth 3 (frac3d: depth 2)",
}
MIN_CLASSES = 4
CHUNK = 1
TOL = 1e-10

# base -> (fracture segment for 1-d replacement grids, matching number of cells)
BASES = {
    "frac2d": {"seg": (0.0, 2.0, 1.0), "n0": 2, "p": "frac2d_4x2"},
    "frac2d_4x2": {"seg": (0.0, 2.0, 1.0), "n0": 4, "p": "frac2d_8x2"},
    "immersed2d": {"seg": (0.5, 1.5, 1.0), "n0": 2, "p": "immersed2d_8x2"},
    "simplex2d": {"seg": (0.0, 1.0, 0.5), "n0": 2, "p": "simplex2d_fine"},
    "t2d": {"seg": (0.0, 2.0, 1.0), "n0": 2, "p": "t2d_4x4"},
    "frac3d": {"n0": 2},
}


def _ops(base):
    b = BASES[base]
    if base == "frac3d":
        return [["m", 2], ["m", 3], ["s", 2], ["s", 3], ["mside", 0, 3]]
    n0 = b["n0"]
    ns = sorted({n0, (3 * n0) // 2, 2 * n0, 3 * n0})
    ops = [["m", n] for n in ns] + [["mg", 3], ["mside", 0, (3 * n0) // 2], ["mside", 1, 2 * n0]]
    if base == "t2d":
        # the horizontal fracture is primary of a 0-d interface: its replacement must be
        # split at the T point, so it is taken from a finer mesh
        ops += [["sfine"], ["p"]]
        return ops
    ops += [["s", n] for n in ns] + [["sg", 3], ["p"]]
    return ops


def cases(tier):
    out = []
    plan = {
        "quick": [("frac2d", 2), ("immersed2d", 2), ("simplex2d", 2), ("t2d", 2), ("frac3d", 2)],
        "thorough": [("frac2d", 3), ("frac2d_4x2", 3), ("immersed2d", 3), ("simplex2d", 3), ("t2d", 3), ("frac3d", 2)],
    }[tier]
    for base, depth in plan:
        for op in _ops(base):
            out.append({"base": base, "first": op, "depth": depth})
    return out


# ------------------------------------------------------------------ grids

_PRISTINE: dict = {}


def _pristine(name):
    if name not in _PRISTINE:
        import porepy as pp
        from mc.oracles import grpH_mdgs as G

        if name == "frac2d_8x2":
            mdg = G.cart2d([G.FH], [8, 2])
        elif name == "immersed2d_8x2":
            mdg = G.cart2d([G.FI], [8, 2])
        elif name == "t2d_4x4":
            mdg = G.cart2d([G.FH, G.FT], [4, 4])
        elif name == "simplex2d":
            mdg, _ = pp.mdg_library.square_with_orthogonal_fractures("simplex", {"cell_size": 0.5}, [1])
        elif name == "simplex2d_fine":
            mdg, _ = pp.mdg_library.square_with_orthogonal_fractures("simplex", {"cell_size": 0.25}, [1])
        elif name == "frac3d":
            mdg, _ = pp.mdg_library.cube_with_orthogonal_fractures("simplex", {"cell_size": 0.5}, fracture_indices=[2])
        else:
            mdg = G.build(name)
        _PRISTINE[name] = mdg
    return _PRISTINE[name]


def _line(n, seg, graded=False):
    from mc.oracles.grpH_mdgs import line_grid

    g = line_grid(n, seg[0], seg[1], seg[2])
    if graded:
        t = np.linspace(0.0, 1.0, n + 1) ** 2
        g.nodes[0] = seg[0] + (seg[1] - seg[0]) * t
        g.compute_geometry()
    return g


def _tri(n, z):
    import porepy as pp

    g = pp.StructuredTriangleGrid(np.array([n, n]), physdims=np.array([1.0, 1.0]))
    g.nodes[2] = z
    g.compute_geometry()
    return g


def _target(mdg, base):
    """(interface, primary, secondary) the operations act on: the interface of the
    horizontal fracture (the only codim-1 interface of top dimension, except for t2d)."""
    top = mdg.dim_max()
    cands = mdg.interfaces(dim=top - 1)
    if base == "t2d":
        for m in cands:
            _, s = mdg.interface_to_subdomain_pair(m)
            if np.ptp(s.nodes[1]) < 1e-12:
                cands = [m]
                break
    m = cands[0]
    p, s = mdg.interface_to_subdomain_pair(m)
    return m, p, s


def _apply(mdg, base, op):
    b = BASES[base]
    intf, prim, sec = _target(mdg, base)
    sides = list(intf.side_grids)
    k = op[0]
    if base == "frac3d":
        z = float(sec.nodes[2, 0])
        if k == "m":
            _replace(mdg, interface_map={intf: {s: _tri(op[1], z) for s in sides}})
        elif k == "mside":
            _replace(mdg, interface_map={intf: {sides[op[1]]: _tri(op[2], z)}})
        elif k == "s":
            _replace(mdg, sd_map={sec: _tri(op[1], z)})
        return
    seg = b["seg"]
    if k in ("m", "mg"):
        _replace(mdg, interface_map={intf: {s: _line(op[1], seg, k == "mg") for s in sides}})
    elif k == "mside":
        _replace(mdg, interface_map={intf: {sides[op[1]]: _line(op[2], seg)}})
    elif k in ("s", "sg"):
        _replace(mdg, sd_map={sec: _line(op[1], seg, k == "sg")})
    elif k == "sfine":
        fine = _pristine(b["p"])
        new = [g for g in fine.subdomains(dim=1) if np.ptp(g.nodes[1]) < 1e-12][0].copy()
        if sec.num_cells == new.num_cells:
            raise _Skip("already fine")
        _replace(mdg, sd_map={sec: new})
    elif k == "p":
        fine = _pristine(b["p"])
        new = fine.subdomains(dim=prim.dim)[0].copy()
        if prim.num_cells == new.num_cells:
            raise _Skip("already fine")
        _replace(mdg, sd_map={prim: new})
    else:
        raise ValueError(op)


class _Skip(Exception):
    pass


class _Impure(Exception):
    pass


def _grid_digest(g):
    h = hashlib.blake2b(digest_size=12)
    # sparse topology in canonical form (scipy may sort the indices of a matrix in place;
    # that is a change of representation, not of the grid)
    topo = []
    for M in (g.cell_faces, g.face_nodes):
        C = M.copy().tocsc()
        C.sum_duplicates()
        C.sort_indices()
        topo += [C.data.astype(float), C.indices, C.indptr]
    for a in [g.nodes, g.cell_volumes, g.cell_centers, g.face_centers, g.face_normals, g.face_areas] + topo:
        h.update(np.ascontiguousarray(a).tobytes())
    for k in sorted(g.tags):
        h.update(np.ascontiguousarray(g.tags[k]).tobytes())
    return h.hexdigest()


def _replace(mdg, sd_map=None, interface_map=None):
    """The real call, with a purity oracle on the grids handed in (the new grids are
    copied / inserted, never documented as modified)."""
    new = list((sd_map or {}).values())
    for v in (interface_map or {}).values():
        new += list(v.values())
    before = [_grid_digest(g) for g in new]
    mdg.replace_subdomains_and_interfaces(sd_map=sd_map, interface_map=interface_map)
    if before != [_grid_digest(g) for g in new]:
        raise _Impure("replace_subdomains_and_interfaces modified a replacement grid passed as argument")


# ------------------------------------------------------------------ oracle


def _fracture_faces(prim, sec):
    """Faces of ``prim`` lying on the fracture ``sec`` (coordinates only) and the sign of
    the side their cell lies on."""
    fc = prim.face_centers
    cf = prim.cell_faces.tocsr()
    one_cell = np.diff(cf.indptr) == 1
    if sec.dim == 0:
        x0 = sec.cell_centers[:, 0]
        on = np.linalg.norm(fc - x0[:, None], axis=0) < 1e-9
        d = prim.nodes.max(axis=1) - prim.nodes.min(axis=1)
        n = d / np.linalg.norm(d)
    elif sec.dim == 1:
        i0, i1 = np.argmin(sec.nodes[0] + 1e-3 * sec.nodes[1]), np.argmax(sec.nodes[0] + 1e-3 * sec.nodes[1])
        a, b = sec.nodes[:, i0], sec.nodes[:, i1]
        t = (b - a) / np.linalg.norm(b - a)
        rel = fc - a[:, None]
        s = t @ rel
        dist = np.linalg.norm(rel - np.outer(t, s), axis=0)
        on = (dist < 1e-9) & (s > -1e-9) & (s < np.linalg.norm(b - a) + 1e-9)
        n = np.array([-t[1], t[0], 0.0])
    else:
        p0 = sec.nodes[:, 0]
        cn = sec.cell_nodes().tocsc()
        idx = cn.indices[cn.indptr[0]: cn.indptr[1]]
        n = np.cross(sec.nodes[:, idx[1]] - sec.nodes[:, idx[0]], sec.nodes[:, idx[2]] - sec.nodes[:, idx[0]])
        n = n / np.linalg.norm(n)
        dist = np.abs(n @ (fc - p0[:, None]))
        lo, hi = sec.nodes.min(axis=1) - 1e-9, sec.nodes.max(axis=1) + 1e-9
        inside = np.all((fc >= lo[:, None]) & (fc <= hi[:, None]), axis=0)
        on = (dist < 1e-9) & inside
    faces = np.where(on & one_cell)[0]
    cells = cf.indices[cf.indptr[faces]]
    sign = np.sign(n @ (prim.cell_centers[:, cells] - fc[:, faces]))
    return faces, sign


def _check_interface(mdg, intf):
    """Returns (list of problems, is_nonmatching)."""
    P = []
    prim, sec = mdg.interface_to_subdomain_pair(intf)
    D = {}
    for nm in ("primary_to_mortar_int", "primary_to_mortar_avg", "secondary_to_mortar_int", "secondary_to_mortar_avg",
               "mortar_to_primary_int", "mortar_to_primary_avg", "mortar_to_secondary_int", "mortar_to_secondary_avg"):
        D[nm] = np.asarray(getattr(intf, nm)().todense())
    Pi, Pa, Si, Sa = (D[k] for k in ("primary_to_mortar_int", "primary_to_mortar_avg", "secondary_to_mortar_int", "secondary_to_mortar_avg"))
    nm_cells = sum(g.num_cells for g in intf.side_grids.values())
    if intf.num_cells != nm_cells or Pi.shape != (nm_cells, prim.num_faces) or Si.shape != (nm_cells, sec.num_cells):
        P.append(f"shapes: num_cells={intf.num_cells}, side cells={nm_cells}, P{Pi.shape}, S{Si.shape}, "
                 f"primary faces={prim.num_faces}, secondary cells={sec.num_cells}")
        return P, False
    faces, sign = _fracture_faces(prim, sec)
    if faces.size == 0:
        raise RuntimeError("harness: no fracture faces found")
    is_frac = np.zeros(prim.num_faces, dtype=bool)
    is_frac[faces] = True
    sgn = np.zeros(prim.num_faces)
    sgn[faces] = sign
    if np.any(np.abs(Pi[:, ~is_frac]) > 0) or np.any(np.abs(Pa[:, ~is_frac]) > 0):
        P.append("primary_to_mortar has entries in faces that are not on the fracture")
    r0 = 0
    used_signs = []
    for side, g in intf.side_grids.items():
        rows = slice(r0, r0 + g.num_cells)
        r0 += g.num_cells
        col = Pi[rows].sum(axis=0)
        touched = np.where(np.abs(Pi[rows]).sum(axis=0) > 0)[0]
        sg = np.unique(sgn[touched])
        if sg.size != 1 or sg[0] == 0:
            P.append(f"side {side.name}: primary faces of the side block lie on geometric sides {sg.tolist()}")
            continue
        used_signs.append(sg[0])
        want = is_frac & (sgn == sg[0])
        if np.max(np.abs(col[want] - 1.0)) > TOL:
            P.append(f"side {side.name}: primary_to_mortar_int column sums {np.round(col[want], 12).tolist()} != 1 "
                     "(total not preserved)")
        rs = Pa[rows].sum(axis=1)
        if np.max(np.abs(rs - 1.0)) > TOL:
            P.append(f"side {side.name}: primary_to_mortar_avg row sums {np.round(rs, 12).tolist()} != 1")
        cs = Si[rows].sum(axis=0)
        if np.max(np.abs(cs - 1.0)) > TOL:
            P.append(f"side {side.name}: secondary_to_mortar_int column sums {np.round(cs, 12).tolist()} != 1")
        rs = Sa[rows].sum(axis=1)
        if np.max(np.abs(rs - 1.0)) > TOL:
            P.append(f"side {side.name}: secondary_to_mortar_avg row sums {np.round(rs, 12).tolist()} != 1")
    if len(used_signs) == 2 and used_signs[0] == used_signs[1]:
        P.append("both mortar sides are coupled to the same geometric side of the fracture")
    for a, b in (("mortar_to_primary_int", "primary_to_mortar_avg"), ("mortar_to_primary_avg", "primary_to_mortar_int"),
                 ("mortar_to_secondary_int", "secondary_to_mortar_avg"), ("mortar_to_secondary_avg", "secondary_to_mortar_int")):
        if D[a].shape != D[b].T.shape or not np.array_equal(D[a], D[b].T):
            P.append(f"{a} is not the transpose of {b}")
    for nd in (2, 3):
        eye = np.eye(nd)
        for nm, M in D.items():
            got = np.asarray(getattr(intf, nm)(nd).todense())
            if got.shape != (M.shape[0] * nd, M.shape[1] * nd) or not np.array_equal(got, np.kron(M, eye)):
                P.append(f"{nm}(nd={nd}) is not kron({nm}(1), I)")
                break
    vals = np.concatenate([Pi[Pi != 0], Pa[Pa != 0], Si[Si != 0], Sa[Sa != 0]])
    nonmatching = bool(np.any(np.abs(vals - 1.0) > 1e-9))
    return P, nonmatching


def _digest(mdg, which):
    h = hashlib.blake2b(digest_size=12)
    for intf in mdg.interfaces():
        p, s = mdg.interface_to_subdomain_pair(intf)
        h.update(repr((intf.dim, intf.num_cells, p.num_faces, s.num_cells)).encode())
        for nm in which:
            M = np.asarray(getattr(intf, nm)().todense())
            h.update(np.round(M, 9).tobytes())
    return h.hexdigest()


TO = ("primary_to_mortar_int", "primary_to_mortar_avg", "secondary_to_mortar_int", "secondary_to_mortar_avg")
FROM = ("mortar_to_primary_int", "mortar_to_primary_avg", "mortar_to_secondary_int", "mortar_to_secondary_avg")


class _St:
    pass


def run_case(case) -> Outcome:
    out = Outcome()
    base, depth = case["base"], case["depth"]
    first = case["first"]
    ops = _ops(base)

    def build(hist):
        h = [first] + [list(o) for o in hist]
        st = _St()
        st.hist = h
        st.mdg = copy.deepcopy(_pristine(base))
        st.status = "ok"
        for i, op in enumerate(h):
            try:
                _apply(st.mdg, base, op)
            except _Skip as e:
                if i != len(h) - 1:
                    raise RuntimeError("harness: skip in the middle of a history")
                return Abort("noop " + str(e))
            except Exception as e:
                if i != len(h) - 1:
                    raise RuntimeError(f"harness: non-final op {op} of {h} raised {e!r}")
                if op[0] == "p" and not isinstance(e, _Impure):
                    return Abort(f"primary replacement refused ({type(e).__name__})")
                st.status = "exc"
                st.info = repr(e)
        return st

    def enabled(st, hist):
        return [tuple(o) for o in ops]

    def canon(st):
        return _digest(st.mdg, TO)

    def observe(st):
        return _digest(st.mdg, FROM)

    def check(st, hist, o: Outcome):
        kinds = "".join(op[0][0] for op in st.hist)
        if st.status == "exc":
            o.violate("replacement of mortar / secondary grid raised", base=base, history=st.hist, error=st.info)
            o.ev("VIOLATION")
            return
        probs, nonm = [], False
        d0 = (_digest(st.mdg, TO), _digest(st.mdg, FROM))
        for intf in st.mdg.interfaces():
            try:
                P, nm = _check_interface(st.mdg, intf)
            except RuntimeError:
                raise
            except Exception as e:
                P, nm = [f"projection query raised {e!r}"], False
            probs += [f"interface dim {intf.dim}: {p}" for p in P]
            nonm = nonm or nm
        if not probs and d0 != (_digest(st.mdg, TO), _digest(st.mdg, FROM)):
            probs.append("querying the projections changed them (second request on the same object differs)")
        if probs:
            o.violate("mortar projections do not conserve / preserve", base=base, history=st.hist, problems=probs[:6])
            o.ev("VIOLATION")
            return
        seq = "+".join(sorted(set(op[0] for op in st.hist)))
        o.ev(f"{base}/{seq}/{'nonmatching' if nonm else 'matching'}", (base, canon(st)) if nonm else None)
        if not o.samples and nonm and len(st.hist) >= 2:
            o.samples.append({"base": base, "history": st.hist})

    root = build(())
    if isinstance(root, Abort):
        out.ev("rejected:" + root.why)
        out.transitions += 1
        return out
    bfs(build=build, enabled=enabled, canon=canon, check=check, observe=observe,
        max_depth=depth - 1, out=out, label=f"C26 {base}")
    return out


def known_finding(case, viol):
    # primary grid replaced after the mortar grid was replaced: match_grids_along_1d_mortar
    # counts a primary face once per overlapping mortar cell
    h = viol.get("history") or []
    kinds = [op[0] for op in h]
    if "p" in kinds and any(k in ("m", "mg", "mside") for k in kinds[: kinds.index("p")]):
        if any("primary_to_mortar" in p for p in viol.get("problems", [])):
            return "C26-primary-after-mortar"
    return None
