"""C26 — mortar projections conserve extensive and preserve intensive quantities under
sequences of mortar / secondary / primary replacements.

Engine H: BFS over all sequences (bounded depth) of
``MixedDimensionalGrid.replace_subdomains_and_interfaces`` calls on small fractured
md-grids.  In every reached state, for every interface and every mortar side:

* ``primary_to_mortar_int``: the faces with a non-zero column in a side block all lie on
  one geometric side of the fracture, every fracture face of that side has column sum 1
  (totals preserved), all other columns are zero;
* ``secondary_to_mortar_int``: column sums 1 in every side block;
* ``*_to_mortar_avg``: row sums 1 (constants to constants);
* ``mortar_to_X_int == X_to_mortar_avg.T`` and ``mortar_to_X_avg == X_to_mortar_int.T``
  exactly (hence totals / constants in the direction mortar -> grid);
* the nd = 2, 3 versions equal ``kron(X(1), I_nd)`` exactly.

The geometric side of a face and the set of fracture faces are determined from
coordinates only (independent of the projections).
"""

from __future__ import annotations

import copy
import hashlib

import numpy as np

from mc.core import Abort, Outcome, bfs

PROPERTY = "C26"
LEVEL = "model_checking"
RULE = (
    "BFS over all sequences of replacement operations per base md-grid: new mortar side grids "
    "(both sides: uniform n cells for n/n0 in {1, 3/2, 2, 3}, one graded grid; one side only), "
    "new secondary grid (same family), new primary grid (2-d: mesh refined 2x along the fracture); "
    "one case = (base md-grid, first operation); non-trivial = some interface has a weight "
    "strictly between 0 and 1 (non-matching); distinct by (base, digest of all projection matrices)"
)
ASSUMPTIONS = [
    "sum tolerance 1e-10 (measured floor 1e-15); transposes and Kronecker versions compared exactly",
    "replacement grids cover exactly the fracture (aligned, common end points) as match_1d/match_2d require",
    "mortar and secondary replacements must not raise; an exception in a primary replacement "
    "(match_grids_along_1d_mortar, documented as fragile) counts as 'refused', wrong projections after a "
    "successful primary replacement count as violation",
    "abstract state = digest of all to-mortar matrices and grid sizes; merged histories must agree on "
    "the from-mortar matrices",
]
BOUNDS = {
    "quick": "bases frac2d(2x2), immersed2d, simplex2d, t2d, frac3d(simplex), tilted (hand-built two-sided 2-d mortar "
    "in a dipping plane, 7 triangulations incl. reversed node numbering, both sign combinations of the normals): depth 2",
    "thorough": "same bases plus frac2d_4x2: depth 3 (frac3d: depth 2)",
    "numbering (both tiers)": "perm1d on frac2d(2x2): new mortar side grids / new secondary grid with n = 2..6 cells, "
    "n <= 4: all n! cell numberings, n = 5, 6: monotone, reversed, two interleaved; x node/face numbering in "
    "{monotone, reversed, interleaved}; alone and after each of 6 fixed first replacements",
}
MIN_CLASSES = 4
CHUNK = 1
TOL = 1e-10

# base -> (fracture segment for 1-d replacement grids, matching number of cells)
BASES = {
    "frac2d": {"seg": (0.0, 2.0, 1.0), "n0": 2, "p": "frac2d_4x2"},
    "frac2d_4x2": {"seg": (0.0, 2.0, 1.0), "n0": 4, "p": "frac2d_8x2"},
    "immersed2d": {"seg": (0.5, 1.5, 1.0), "n0": 2, "p": "immersed2d_8x2"},
    "simplex2d": {"seg": (0.0, 1.0, 0.5), "n0": 2, "p": "simplex2d_fine"},
    "t2d": {"seg": (0.0, 2.0, 1.0), "n0": 2, "p": "t2d_4x4"},
    "frac3d": {"n0": 2},
}


def _ops(base):
    b = BASES[base]
    if base == "frac3d":
        return [["m", 2], ["m", 3], ["s", 2], ["s", 3], ["mside", 0, 3]]
    n0 = b["n0"]
    ns = sorted({n0, (3 * n0) // 2, 2 * n0, 3 * n0})
    ops = [["m", n] for n in ns] + [["mg", 3], ["mside", 0, (3 * n0) // 2], ["mside", 1, 2 * n0]]
    if base == "t2d":
        # the horizontal fracture is primary of a 0-d interface: its replacement must be
        # split at the T point, so it is taken from a finer mesh
        ops += [["sfine"], ["p"]]
        return ops
    ops += [["s", n] for n in ns] + [["sg", 3], ["p"]]
    return ops


def cases(tier):
    out = []
    plan = {
        "quick": [("frac2d", 2), ("immersed2d", 2), ("simplex2d", 2), ("t2d", 2), ("frac3d", 2)],
        "thorough": [("frac2d", 3), ("frac2d_4x2", 3), ("immersed2d", 3), ("simplex2d", 3), ("t2d", 3), ("frac3d", 2)],
    }[tier]
    for base, depth in plan:
        for op in _ops(base):
            out.append({"base": base, "first": op, "depth": depth})
    # numbering axis for 1-d grids (see "perm1d" below)
    for fi in range(len(PERM_FIRST)):
        for kind in ("m", "s"):
            for n in (2, 3, 4, 5, 6):
                out.append({"base": "perm1d", "first": fi, "kind": kind, "n": n, "depth": 2})
    # hand-built two-sided 2-d mortar grid in a dipping plane (see "tilted" below)
    for op in _tilted_ops():
        out.append({"base": "tilted", "first": op, "depth": 2 if tier == "quick" else 3})
    return out


# ------------------------------------------------------------------ grids

_PRISTINE: dict = {}


def _pristine(name):
    if name not in _PRISTINE:
        import porepy as pp
        from mc.oracles import grpH_mdgs as G

        if name == "frac2d_8x2":
            mdg = G.cart2d([G.FH], [8, 2])
        elif name == "immersed2d_8x2":
            mdg = G.cart2d([G.FI], [8, 2])
        elif name == "t2d_4x4":
            mdg = G.cart2d([G.FH, G.FT], [4, 4])
        elif name == "simplex2d":
            mdg, _ = pp.mdg_library.square_with_orthogonal_fractures("simplex", {"cell_size": 0.5}, [1])
        elif name == "simplex2d_fine":
            mdg, _ = pp.mdg_library.square_with_orthogonal_fractures("simplex", {"cell_size": 0.25}, [1])
        elif name == "frac3d":
            mdg, _ = pp.mdg_library.cube_with_orthogonal_fractures("simplex", {"cell_size": 0.5}, fracture_indices=[2])
        else:
            mdg = G.build(name)
        _PRISTINE[name] = mdg
    return _PRISTINE[name]


def _line(n, seg, graded=False):
    from mc.oracles.grpH_mdgs import line_grid

    g = line_grid(n, seg[0], seg[1], seg[2])
    if graded:
        t = np.linspace(0.0, 1.0, n + 1) ** 2
        g.nodes[0] = seg[0] + (seg[1] - seg[0]) * t
        g.compute_geometry()
    return g


def _tri(n, z):
    import porepy as pp

    g = pp.StructuredTriangleGrid(np.array([n, n]), physdims=np.array([1.0, 1.0]))
    g.nodes[2] = z
    g.compute_geometry()
    return g


def _target(mdg, base):
    """(interface, primary, secondary) the operations act on: the interface of the
    horizontal fracture (the only codim-1 interface of top dimension, except for t2d)."""
    top = mdg.dim_max()
    cands = mdg.interfaces(dim=top - 1)
    if base == "t2d":
        for m in cands:
            _, s = mdg.interface_to_subdomain_pair(m)
            if np.ptp(s.nodes[1]) < 1e-12:
                cands = [m]
                break
    m = cands[0]
    p, s = mdg.interface_to_subdomain_pair(m)
    return m, p, s


def _apply(mdg, base, op):
    b = BASES[base]
    intf, prim, sec = _target(mdg, base)
    sides = list(intf.side_grids)
    k = op[0]
    if base == "frac3d":
        z = float(sec.nodes[2, 0])
        if k == "m":
            _replace(mdg, interface_map={intf: {s: _tri(op[1], z) for s in sides}})
        elif k == "mside":
            _replace(mdg, interface_map={intf: {sides[op[1]]: _tri(op[2], z)}})
        elif k == "s":
            _replace(mdg, sd_map={sec: _tri(op[1], z)})
        return
    seg = b["seg"]
    if k in ("m", "mg"):
        _replace(mdg, interface_map={intf: {s: _line(op[1], seg, k == "mg") for s in sides}})
    elif k == "mside":
        _replace(mdg, interface_map={intf: {sides[op[1]]: _line(op[2], seg)}})
    elif k in ("s", "sg"):
        _replace(mdg, sd_map={sec: _line(op[1], seg, k == "sg")})
    elif k == "sfine":
        fine = _pristine(b["p"])
        new = [g for g in fine.subdomains(dim=1) if np.ptp(g.nodes[1]) < 1e-12][0].copy()
        if sec.num_cells == new.num_cells:
            raise _Skip("already fine")
        _replace(mdg, sd_map={sec: new})
    elif k == "p":
        fine = _pristine(b["p"])
        new = fine.subdomains(dim=prim.dim)[0].copy()
        if prim.num_cells == new.num_cells:
            raise _Skip("already fine")
        _replace(mdg, sd_map={prim: new})
    else:
        raise ValueError(op)


class _Skip(Exception):
    pass


class _Impure(Exception):
    pass


def _grid_digest(g):
    h = hashlib.blake2b(digest_size=12)
    # sparse topology in canonical form (scipy may sort the indices of a matrix in place;
    # that is a change of representation, not of the grid)
    topo = []
    for M in (g.cell_faces, g.face_nodes):
        C = M.copy().tocsc()
        C.sum_duplicates()
        C.sort_indices()
        topo += [C.data.astype(float), C.indices, C.indptr]
    for a in [g.nodes, g.cell_volumes, g.cell_centers, g.face_centers, g.face_normals, g.face_areas] + topo:
        h.update(np.ascontiguousarray(a).tobytes())
    for k in sorted(g.tags):
        h.update(np.ascontiguousarray(g.tags[k]).tobytes())
    return h.hexdigest()


def _replace(mdg, sd_map=None, interface_map=None):
    """The real call, with a purity oracle on the grids handed in (the new grids are
    copied / inserted, never documented as modified)."""
    new = list((sd_map or {}).values())
    for v in (interface_map or {}).values():
        new += list(v.values())
    before = [_grid_digest(g) for g in new]
    mdg.replace_subdomains_and_interfaces(sd_map=sd_map, interface_map=interface_map)
    if before != [_grid_digest(g) for g in new]:
        raise _Impure("replace_subdomains_and_interfaces modified a replacement grid passed as argument")


# ------------------------------------------------------------------ oracle


def _fracture_faces(prim, sec):
    """Faces of ``prim`` lying on the fracture ``sec`` (coordinates only) and the sign of
    the side their cell lies on."""
    fc = prim.face_centers
    cf = prim.cell_faces.tocsr()
    one_cell = np.diff(cf.indptr) == 1
    if sec.dim == 0:
        x0 = sec.cell_centers[:, 0]
        on = np.linalg.norm(fc - x0[:, None], axis=0) < 1e-9
        d = prim.nodes.max(axis=1) - prim.nodes.min(axis=1)
        n = d / np.linalg.norm(d)
    elif sec.dim == 1:
        i0, i1 = np.argmin(sec.nodes[0] + 1e-3 * sec.nodes[1]), np.argmax(sec.nodes[0] + 1e-3 * sec.nodes[1])
        a, b = sec.nodes[:, i0], sec.nodes[:, i1]
        t = (b - a) / np.linalg.norm(b - a)
        rel = fc - a[:, None]
        s = t @ rel
        dist = np.linalg.norm(rel - np.outer(t, s), axis=0)
        on = (dist < 1e-9) & (s > -1e-9) & (s < np.linalg.norm(b - a) + 1e-9)
        n = np.array([-t[1], t[0], 0.0])
    else:
        p0 = sec.nodes[:, 0]
        cn = sec.cell_nodes().tocsc()
        idx = cn.indices[cn.indptr[0]: cn.indptr[1]]
        n = np.cross(sec.nodes[:, idx[1]] - sec.nodes[:, idx[0]], sec.nodes[:, idx[2]] - sec.nodes[:, idx[0]])
        n = n / np.linalg.norm(n)
        dist = np.abs(n @ (fc - p0[:, None]))
        lo, hi = sec.nodes.min(axis=1) - 1e-9, sec.nodes.max(axis=1) + 1e-9
        inside = np.all((fc >= lo[:, None]) & (fc <= hi[:, None]), axis=0)
        on = (dist < 1e-9) & inside
    faces = np.where(on & one_cell)[0]
    cells = cf.indices[cf.indptr[faces]]
    sign = np.sign(n @ (prim.cell_centers[:, cells] - fc[:, faces]))
    return faces, sign


def _check_interface(mdg, intf):
    """Returns (list of problems, is_nonmatching)."""
    P = []
    prim, sec = mdg.interface_to_subdomain_pair(intf)
    D = {}
    for nm in ("primary_to_mortar_int", "primary_to_mortar_avg", "secondary_to_mortar_int", "secondary_to_mortar_avg",
               "mortar_to_primary_int", "mortar_to_primary_avg", "mortar_to_secondary_int", "mortar_to_secondary_avg"):
        D[nm] = np.asarray(getattr(intf, nm)().todense())
    Pi, Pa, Si, Sa = (D[k] for k in ("primary_to_mortar_int", "primary_to_mortar_avg", "secondary_to_mortar_int", "secondary_to_mortar_avg"))
    nm_cells = sum(g.num_cells for g in intf.side_grids.values())
    if intf.num_cells != nm_cells or Pi.shape != (nm_cells, prim.num_faces) or Si.shape != (nm_cells, sec.num_cells):
        P.append(f"shapes: num_cells={intf.num_cells}, side cells={nm_cells}, P{Pi.shape}, S{Si.shape}, "
                 f"primary faces={prim.num_faces}, secondary cells={sec.num_cells}")
        return P, False
    faces, sign = _fracture_faces(prim, sec)
    if faces.size == 0:
        raise RuntimeError("harness: no fracture faces found")
    is_frac = np.zeros(prim.num_faces, dtype=bool)
    is_frac[faces] = True
    sgn = np.zeros(prim.num_faces)
    sgn[faces] = sign
    if np.any(np.abs(Pi[:, ~is_frac]) > 0) or np.any(np.abs(Pa[:, ~is_frac]) > 0):
        P.append("primary_to_mortar has entries in faces that are not on the fracture")
    r0 = 0
    used_signs = []
    for side, g in intf.side_grids.items():
        rows = slice(r0, r0 + g.num_cells)
        r0 += g.num_cells
        col = Pi[rows].sum(axis=0)
        touched = np.where(np.abs(Pi[rows]).sum(axis=0) > 0)[0]
        sg = np.unique(sgn[touched])
        if sg.size != 1 or sg[0] == 0:
            P.append(f"side {side.name}: primary faces of the side block lie on geometric sides {sg.tolist()}")
            continue
        used_signs.append(sg[0])
        want = is_frac & (sgn == sg[0])
        if np.max(np.abs(col[want] - 1.0)) > TOL:
            P.append(f"side {side.name}: primary_to_mortar_int column sums {np.round(col[want], 12).tolist()} != 1 "
                     "(total not preserved)")
        rs = Pa[rows].sum(axis=1)
        if np.max(np.abs(rs - 1.0)) > TOL:
            P.append(f"side {side.name}: primary_to_mortar_avg row sums {np.round(rs, 12).tolist()} != 1")
        cs = Si[rows].sum(axis=0)
        if np.max(np.abs(cs - 1.0)) > TOL:
            P.append(f"side {side.name}: secondary_to_mortar_int column sums {np.round(cs, 12).tolist()} != 1")
        rs = Sa[rows].sum(axis=1)
        if np.max(np.abs(rs - 1.0)) > TOL:
            P.append(f"side {side.name}: secondary_to_mortar_avg row sums {np.round(rs, 12).tolist()} != 1")
    if len(used_signs) == 2 and used_signs[0] == used_signs[1]:
        P.append("both mortar sides are coupled to the same geometric side of the fracture")
    for a, b in (("mortar_to_primary_int", "primary_to_mortar_avg"), ("mortar_to_primary_avg", "primary_to_mortar_int"),
                 ("mortar_to_secondary_int", "secondary_to_mortar_avg"), ("mortar_to_secondary_avg", "secondary_to_mortar_int")):
        if D[a].shape != D[b].T.shape or not np.array_equal(D[a], D[b].T):
            P.append(f"{a} is not the transpose of {b}")
    for nd in (2, 3):
        eye = np.eye(nd)
        for nm, M in D.items():
            got = np.asarray(getattr(intf, nm)(nd).todense())
            if got.shape != (M.shape[0] * nd, M.shape[1] * nd) or not np.array_equal(got, np.kron(M, eye)):
                P.append(f"{nm}(nd={nd}) is not kron({nm}(1), I)")
                break
    vals = np.concatenate([Pi[Pi != 0], Pa[Pa != 0], Si[Si != 0], Sa[Sa != 0]])
    nonmatching = bool(np.any(np.abs(vals - 1.0) > 1e-9))
    return P, nonmatching


def _digest(mdg, which):
    h = hashlib.blake2b(digest_size=12)
    for intf in mdg.interfaces():
        p, s = mdg.interface_to_subdomain_pair(intf)
        h.update(repr((intf.dim, intf.num_cells, p.num_faces, s.num_cells)).encode())
        for nm in which:
            M = np.asarray(getattr(intf, nm)().todense())
            h.update(np.round(M, 9).tobytes())
    return h.hexdigest()


TO = ("primary_to_mortar_int", "primary_to_mortar_avg", "secondary_to_mortar_int", "secondary_to_mortar_avg")
FROM = ("mortar_to_primary_int", "mortar_to_primary_avg", "mortar_to_secondary_int", "mortar_to_secondary_avg")


class _St:
    pass


# ------------------------------------------------------------------ tilted 2-d interface
# A two-sided 2-d MortarGrid built by hand on the rectangle [0,2]x[0,1] of a dipping plane
# (generic tilt, not parallel to any coordinate plane).  The triangulations differ in
# resolution, grading and node numbering (x -> 2-x and/or y -> 1-y reverses the numbering and
# the orientation of the triangles), so that the normal vectors which match_2d computes for
# the two grids of a pair come out with equal and with opposite sign.

_TA, _TB = 0.4, 1.0
_E1 = np.array([np.cos(_TA), np.sin(_TA), 0.0])
_E2 = np.array([-np.sin(_TA) * np.cos(_TB), np.cos(_TA) * np.cos(_TB), np.sin(_TB)])
_ORIG = np.array([0.3, -0.2, 0.7])

# variant -> ((nx, ny), exponent x, exponent y, flip x, flip y)
TVAR = {
    "v0": ((2, 2), 1.2, 1.05, False, False),
    "v1": ((3, 2), 1.05, 1.2, False, False),
    "v2": ((3, 2), 1.1, 1.0, True, False),
    "v3": ((2, 3), 1.3, 1.0, False, True),
    "v4": ((4, 3), 1.2, 1.05, False, False),
    "v5": ((2, 2), 1.0, 1.15, True, True),
    "v6": ((3, 3), 1.25, 1.1, True, False),
}


def _tilted_ops():
    vs = sorted(TVAR)
    return [["m", v] for v in vs] + [["mside", 0, "v1"], ["mside", 1, "v2"]] + [["s", v] for v in vs]


def _tgrid(v):
    import porepy as pp

    n, px, py, fx, fy = TVAR[v]
    g = pp.StructuredTriangleGrid(np.array(n), np.array([2.0, 1.0]))
    xy = g.nodes[:2].copy()
    xy[0] = 2.0 * (xy[0] / 2.0) ** px
    xy[1] = xy[1] ** py
    if fx:
        xy[0] = 2.0 - xy[0]
    if fy:
        xy[1] = 1.0 - xy[1]
    nodes = _ORIG[:, None] + np.outer(_E1, xy[0]) + np.outer(_E2, xy[1])
    h = pp.Grid(2, nodes, g.face_nodes.copy(), g.cell_faces.copy(), "tilted triangles " + v)
    h.compute_geometry()
    if abs(h.cell_volumes.sum() - 2.0) > 1e-12 or np.any(h.cell_volumes <= 0):
        raise RuntimeError("harness: tilted triangulation does not cover the rectangle")
    return h


def _normal_sign(new_v, old_v):
    """Sign combination of the two normals exactly as match_2d(new, old) computes them
    (harness bookkeeping only: used as observation class)."""
    import porepy as pp

    a, b = _tgrid(new_v), _tgrid(old_v)
    cc = np.mean(a.nodes, axis=1).reshape((3, 1))
    n = pp.map_geometry.compute_normal(a.nodes - cc)
    n_old = pp.map_geometry.compute_normal(b.nodes - cc)
    return "n_old=+n" if float(n @ n_old) > 0 else "n_old=-n"


def _run_tilted(case, out: Outcome) -> Outcome:
    import porepy as pp
    import scipy.sparse as sps
    from porepy.grids.mortar_grid import MortarSides

    vs = sorted(TVAR)
    signs = {(a, b): _normal_sign(a, b) for a in vs for b in vs}
    if len(set(signs.values())) != 2:
        raise RuntimeError("harness: the tilted alphabet does not produce both sign combinations of the normals")
    ops = [tuple(o) for o in _tilted_ops()]
    first = tuple(case["first"])
    SIDES = [MortarSides.LEFT_SIDE, MortarSides.RIGHT_SIDE]

    def build(hist):
        h = (first,) + tuple(hist)
        st = _St()
        st.hist = [list(o) for o in h]
        g0 = _tgrid("v0")
        nc = g0.num_cells
        fc = sps.hstack([sps.identity(nc), sps.identity(nc)]).tocsc()
        st.mg = pp.MortarGrid(2, {SIDES[0]: g0.copy(), SIDES[1]: g0.copy()}, fc)
        st.nfaces = 2 * nc
        st.side_v = ["v0", "v0"]
        st.sec_v = "v0"
        st.ncsec = nc
        st.status, st.info, st.tags, st.pairs = "ok", None, [], []
        for i, op in enumerate(h):
            try:
                if op[0] == "m":
                    new = {s: _tgrid(op[1]) for s in SIDES}
                    dig = [_grid_digest(g) for g in new.values()]
                    st.pairs = [[op[1], st.side_v[k]] for k in range(2)]
                    st.tags = [signs[(op[1], st.side_v[k])] for k in range(2)]
                    st.mg.update_mortar(new)
                    st.side_v = [op[1], op[1]]
                elif op[0] == "mside":
                    new = {SIDES[op[1]]: _tgrid(op[2])}
                    dig = [_grid_digest(g) for g in new.values()]
                    st.pairs = [[op[2], st.side_v[op[1]]]]
                    st.tags = [signs[(op[2], st.side_v[op[1]])]]
                    st.mg.update_mortar(new)
                    st.side_v[op[1]] = op[2]
                else:
                    g = _tgrid(op[1])
                    new = {0: g}
                    dig = [_grid_digest(g)]
                    st.pairs = [[st.side_v[k], op[1]] for k in range(2)]
                    st.tags = [signs[(st.side_v[k], op[1])] for k in range(2)]
                    st.mg.update_secondary(g)
                    st.sec_v, st.ncsec = op[1], g.num_cells
                if dig != [_grid_digest(g) for g in new.values()]:
                    raise _Impure("update_mortar / update_secondary modified a grid passed as argument")
            except Exception as e:
                if i != len(h) - 1:
                    raise RuntimeError(f"harness: non-final op {op} of {h} raised {e!r}")
                st.status, st.info = "exc", repr(e)
        return st

    NAMES = TO + FROM

    def mats(st):
        return {nm: np.asarray(getattr(st.mg, nm)().todense()) for nm in NAMES}

    def dig(st, which):
        h = hashlib.blake2b(digest_size=12)
        h.update(repr((st.side_v, st.sec_v)).encode())
        for nm in which:
            h.update(np.round(np.asarray(getattr(st.mg, nm)().todense()), 9).tobytes())
        return h.hexdigest()

    def check(st, hist, o: Outcome):
        if st.status == "exc":
            o.violate("replacement of mortar / secondary grid raised", base="tilted", history=st.hist, error=st.info)
            o.ev("VIOLATION")
            return
        D = mats(st)
        P = []
        Pi, Pa, Si, Sa = (D[k] for k in TO)
        ncs = [g.num_cells for g in st.mg.side_grids.values()]
        if st.mg.num_cells != sum(ncs) or Pi.shape != (sum(ncs), st.nfaces) or Si.shape != (sum(ncs), st.ncsec):
            P.append(f"shapes {Pi.shape}, {Si.shape} for {ncs} mortar cells, {st.nfaces} faces, {st.ncsec} cells")
        else:
            half = st.nfaces // 2
            r0 = 0
            for k, n in enumerate(ncs):
                rows = slice(r0, r0 + n)
                r0 += n
                own = slice(0, half) if k == 0 else slice(half, st.nfaces)
                other = slice(half, st.nfaces) if k == 0 else slice(0, half)
                if np.any(Pi[rows, other] != 0) or np.any(Pa[rows, other] != 0):
                    P.append(f"side {k}: coupled to the primary faces of the other side")
                for what, v in (("primary_to_mortar_int column sums", Pi[rows, own].sum(axis=0)),
                                ("primary_to_mortar_avg row sums", Pa[rows].sum(axis=1)),
                                ("secondary_to_mortar_int column sums", Si[rows].sum(axis=0)),
                                ("secondary_to_mortar_avg row sums", Sa[rows].sum(axis=1))):
                    if np.max(np.abs(v - 1.0)) > TOL:
                        P.append(f"side {k}: {what} in [{v.min():.6f}, {v.max():.6f}] != 1")
            for a, b in (("mortar_to_primary_int", "primary_to_mortar_avg"), ("mortar_to_primary_avg", "primary_to_mortar_int"),
                         ("mortar_to_secondary_int", "secondary_to_mortar_avg"), ("mortar_to_secondary_avg", "secondary_to_mortar_int")):
                if D[a].shape != D[b].T.shape or not np.array_equal(D[a], D[b].T):
                    P.append(f"{a} is not the transpose of {b}")
            for nd in (2, 3):
                for nm in NAMES:
                    got = np.asarray(getattr(st.mg, nm)(nd).todense())
                    if got.shape != (D[nm].shape[0] * nd, D[nm].shape[1] * nd) or not np.array_equal(got, np.kron(D[nm], np.eye(nd))):
                        P.append(f"{nm}(nd={nd}) is not kron({nm}(1), I)")
                        break
            D2 = mats(st)
            if any(not np.array_equal(D[k], D2[k]) for k in NAMES):
                P.append("a second request of the projections on the same object differs")
        if P:
            o.violate("mortar projections do not conserve / preserve", base="tilted", history=st.hist, problems=P[:6],
                      normals=st.tags, match_pairs=st.pairs)
            o.ev("VIOLATION")
            return
        kind = "+".join(sorted(set(op[0] for op in st.hist)))
        o.ev(f"tilted/{kind}/{'&'.join(sorted(set(st.tags)))}", ("tilted", dig(st, TO)))
        if not o.samples and len(st.hist) >= 2:
            o.samples.append({"base": "tilted", "history": st.hist, "normals": st.tags})

    bfs(build=build, enabled=lambda st, hist: ops, canon=lambda st: dig(st, TO), check=check,
        observe=lambda st: dig(st, FROM), max_depth=case["depth"] - 1, out=out, label="C26 tilted")
    return out


# ------------------------------------------------------------------ numbering of 1-d grids
# The 1-d grids handed in as new mortar side grids / new secondary grid are valid grids whose
# cells (and nodes / faces) are numbered in any order along the fracture.

PERM_FIRST = [
    None,
    ["m", 3, [2, 0, 1], 1],
    ["m", 4, [1, 3, 0, 2], 0],
    ["s", 3, [1, 2, 0], 2],
    ["s", 4, [2, 0, 3, 1], 1],
    ["m", 6, [0, 2, 4, 1, 3, 5], 1],
    ["s", 5, [3, 0, 4, 1, 2], 0],
]


def _cell_perms(n):
    import itertools

    if n <= 4:
        return [list(p) for p in itertools.permutations(range(n))]
    if n == 5:
        return [[0, 1, 2, 3, 4], [4, 3, 2, 1, 0], [0, 2, 4, 1, 3], [3, 0, 4, 1, 2]]
    return [[0, 1, 2, 3, 4, 5], [5, 4, 3, 2, 1, 0], [0, 2, 4, 1, 3, 5], [5, 0, 3, 1, 4, 2]]


def _node_perm(n_nodes, mode):
    if mode == 0:
        return np.arange(n_nodes)
    if mode == 1:
        return np.arange(n_nodes)[::-1].copy()
    return np.r_[np.arange(0, n_nodes, 2), np.arange(1, n_nodes, 2)]  # interleaved


def _perm_line(n, cperm, nmode, seg=(0.0, 2.0, 1.0)):
    """1-d grid with n equal cells on the segment; cell j of the new grid is cell cperm[j]
    of the monotone grid; node / face i of the new grid is node / face P[i] of the monotone
    grid."""
    import porepy as pp
    import scipy.sparse as sps
    from mc.oracles.grpH_mdgs import line_grid

    g = line_grid(n, seg[0], seg[1], seg[2])
    P = _node_perm(g.num_nodes, nmode)
    fn = sps.csc_matrix(g.face_nodes.tocsr()[P, :][:, P])
    cf = sps.csc_matrix(g.cell_faces.tocsr()[P, :][:, np.array(cperm)])
    h = pp.Grid(1, g.nodes[:, P].copy(), fn, cf, "permuted 1d")
    h.compute_geometry()
    if abs(h.cell_volumes.sum() - (seg[1] - seg[0])) > 1e-12 or np.any(h.cell_volumes <= 0):
        raise RuntimeError("harness: permuted 1-d grid is not a valid grid of the segment")
    return h


def _perm_apply(mdg, op):
    intf, prim, sec = _target(mdg, "frac2d")
    kind, n, cperm, nmode = op
    if kind == "m":
        _replace(mdg, interface_map={intf: {s: _perm_line(n, cperm, nmode) for s in intf.side_grids}})
    else:
        _replace(mdg, sd_map={sec: _perm_line(n, cperm, nmode)})


def _run_perm(case, out: Outcome) -> Outcome:
    first = PERM_FIRST[case["first"]]
    seen = set()
    for cperm in _cell_perms(case["n"]):
        for nmode in (0, 1, 2):
            op = [case["kind"], case["n"], cperm, nmode]
            hist = ([first] if first else []) + [op]
            mdg = copy.deepcopy(_pristine("frac2d"))
            if first:
                _perm_apply(mdg, first)  # (verified on its own in the cases with first = None)
            out.transitions += 1
            monotone = cperm == sorted(cperm) and nmode == 0
            try:
                _perm_apply(mdg, op)
            except Exception as e:
                out.violate("replacement of mortar / secondary grid raised", base="perm1d", history=hist, error=repr(e))
                out.ev("VIOLATION")
                continue
            probs, nonm = [], False
            for intf in mdg.interfaces():
                P, nm = _check_interface(mdg, intf)
                probs += P
                nonm = nonm or nm
            if probs:
                out.violate("mortar projections do not conserve / preserve", base="perm1d", history=hist, problems=probs[:6])
                out.ev("VIOLATION")
                continue
            d = _digest(mdg, TO)
            if d not in seen:
                seen.add(d)
                out.states += 1
            rev = cperm == sorted(cperm, reverse=True)
            cls = "monotone" if monotone else "reversed" if rev and nmode != 2 else "scrambled"
            out.ev(f"perm1d/{'+'.join(sorted({o[0] for o in hist}))}/{cls}/{'nonmatching' if nonm else 'matching'}",
                   None if monotone else ("perm1d", str(hist)))
            if not out.samples and not monotone and nonm:
                out.samples.append({"base": "perm1d", "history": hist})
    out.max_depth = max(out.max_depth, 2 if first else 1)
    return out


def run_case(case) -> Outcome:
    out = Outcome()
    if case["base"] == "tilted":
        return _run_tilted(case, out)
    if case["base"] == "perm1d":
        return _run_perm(case, out)
    base, depth = case["base"], case["depth"]
    first = case["first"]
    ops = _ops(base)

    def build(hist):
        h = [first] + [list(o) for o in hist]
        st = _St()
        st.hist = h
        st.mdg = copy.deepcopy(_pristine(base))
        st.status = "ok"
        for i, op in enumerate(h):
            try:
                _apply(st.mdg, base, op)
            except _Skip as e:
                if i != len(h) - 1:
                    raise RuntimeError("harness: skip in the middle of a history")
                return Abort("noop " + str(e))
            except Exception as e:
                if i != len(h) - 1:
                    raise RuntimeError(f"harness: non-final op {op} of {h} raised {e!r}")
                if op[0] == "p" and not isinstance(e, _Impure):
                    return Abort(f"primary replacement refused ({type(e).__name__})")
                st.status = "exc"
                st.info = repr(e)
        return st

    def enabled(st, hist):
        return [tuple(o) for o in ops]

    def canon(st):
        return _digest(st.mdg, TO)

    def observe(st):
        return _digest(st.mdg, FROM)

    def check(st, hist, o: Outcome):
        kinds = "".join(op[0][0] for op in st.hist)
        if st.status == "exc":
            o.violate("replacement of mortar / secondary grid raised", base=base, history=st.hist, error=st.info)
            o.ev("VIOLATION")
            return
        probs, nonm = [], False
        d0 = (_digest(st.mdg, TO), _digest(st.mdg, FROM))
        for intf in st.mdg.interfaces():
            try:
                P, nm = _check_interface(st.mdg, intf)
            except RuntimeError:
                raise
            except Exception as e:
                P, nm = [f"projection query raised {e!r}"], False
            probs += [f"interface dim {intf.dim}: {p}" for p in P]
            nonm = nonm or nm
        if not probs and d0 != (_digest(st.mdg, TO), _digest(st.mdg, FROM)):
            probs.append("querying the projections changed them (second request on the same object differs)")
        if probs:
            o.violate("mortar projections do not conserve / preserve", base=base, history=st.hist, problems=probs[:6])
            o.ev("VIOLATION")
            return
        seq = "+".join(sorted(set(op[0] for op in st.hist)))
        o.ev(f"{base}/{seq}/{'nonmatching' if nonm else 'matching'}", (base, canon(st)) if nonm else None)
        if not o.samples and nonm and len(st.hist) >= 2:
            o.samples.append({"base": base, "history": st.hist})

    root = build(())
    if isinstance(root, Abort):
        out.ev("rejected:" + root.why)
        out.transitions += 1
        return out
    bfs(build=build, enabled=enabled, canon=canon, check=check, observe=observe,
        max_depth=depth - 1, out=out, label=f"C26 {base}")
    return out


def known_finding(case, viol):
    # GEOS floating-point overlay loses the overlap of a triangle nested in another one and
    # touching it in vertices: pp.intersections.triangulations / match_2d(new=v5, old=v4)
    if viol.get("base") == "tilted" and ["v5", "v4"] in (viol.get("match_pairs") or []):
        return "C26-geos-nested-triangle-overlap"
    # primary grid replaced after the mortar grid was replaced: match_grids_along_1d_mortar
    # counts a primary face once per overlapping mortar cell
    h = viol.get("history") or []
    kinds = [op[0] for op in h]
    if "p" in kinds and any(k in ("m", "mg", "mside") for k in kinds[: kinds.index("p")]):
        if any("primary_to_mortar" in p for p in viol.get("problems", [])):
            return "C26-primary-after-mortar"
    return None
