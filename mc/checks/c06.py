"""C06 — restricted assembly is a slice of the full system.

Engine E: bounded-exhaustive enumeration of assembly requests on small, fully coupled,
non-linear equation systems with exact integer arithmetic (``mc.oracles.grpB_eqsys``) whose
variables come from C05 histories (incl. removal, reversed grid lists, one name on both
subdomains and interfaces) and whose equations were set in different orders (incl. remove +
set again and ``update_equation``).

Reference = the real fully assembled ``J, r = assemble()`` of the same object at the same
state; expected rows are computed from grid sizes and the order in which the equations
were set, expected columns are the sorted union of the blocks of the requested variables.
"""

from __future__ import annotations

import itertools

import numpy as np

from mc.core import Outcome
from mc.oracles import grpB_dofmodel as dm
from mc.oracles import grpB_eqsys as qs

PROPERTY = "C06"
LEVEL = "exploration"
RULE = (
    "per system (md-grid, variable history, equation program): row requests = None, equation lists "
    "(all permutations of <= 3 names, larger subsets in reversed set order [thorough only]; by name and "
    "by Operator) and restriction dicts (every combination of 'absent or any subset of its grids, "
    "including the empty one' over the equations [quick and grid G2: at most 2 equations present]; "
    "keys by name and by Operator; keys inserted in reversed set order; grids passed in reversed "
    "order; plus grid lists with REPEATED entries standing for a proper subset of the equation's "
    "grids: every multiset with as many entries as the equation has grids, in 3 orders, and lists "
    "with more / fewer entries, expected rows = those of the SET of grids in the equation's own "
    "grid order); column requests = None / md-variables / atomic variables in reversed creation order / "
    "names / empty list; state given or taken from storage; request space = (all rows x 4 column "
    "requests x 2 states) + (3 row requests x all column subsets x 2 states); every request is "
    "assembled with and without Jacobian; non-trivial = rows or columns are a proper restriction or "
    "the request order differs from the set order; distinct by (system, rows, columns, state)"
)
ASSUMPTIONS = [
    "all arithmetic is exact (integer coefficients and states), so slices are compared with ==",
    "rows/columns of the full Jacobian are pairwise distinct (checked at system construction)",
    "expected row blocks come from grid sizes and the reference set-order list, not from "
    "EquationSystem._equation_image_space_composition",
    "the Jacobian/residual reference is the object's own unrestricted assemble() at the same state",
]
BOUNDS = {
    "quick": "3 systems on G1 (V1/O1, V2/O2, V3/O3); lists: all permutations of <= 3 of the 5 names; dicts with <= 2 equations present; 1 system on G2 (equations on up to 4 grids): single names and dicts with one equation restricted to every subset of its grids",
    "thorough": "9 systems on G1 (V1..V3 x O1..O3, full dict product 1125 x 2 key forms) + 3 systems on G2 (dicts with <= 2 equations present)",
}
MIN_CLASSES = 6
CHUNK = 1
ROWS_PER_CASE = {"quick": 12, "thorough": 40}


# ------------------------------------------------------------------- request spaces


def _systems(tier):
    if tier == "quick":
        return [("G1", "M1", "V1", "O1"), ("G1", "M1", "V2", "O2"), ("G1", "M1", "V3", "O3"), ("G2", "M1", "V1", "O2")]
    out = [("G1", "M1", v, o) for v in ("V1", "V2", "V3") for o in ("O1", "O2", "O3")]
    out += [("G2", "M1", "V1", o) for o in ("O1", "O2", "O3")]
    return out


def _subsets(seq):
    seq = list(seq)
    for r in range(len(seq) + 1):
        for c in itertools.combinations(seq, r):
            yield list(c)


def row_requests(grid, okey, rich):
    order = qs.eq_order(qs.ORDERS[okey])
    spec = qs.EQS[grid]
    out = [{"t": "none"}]
    maxperm = 3
    for r in range(0, len(order) + 1):
        for sub in itertools.combinations(order, r):
            if r <= (maxperm if (rich or grid == "G1") else 1):
                perms = list(itertools.permutations(sub))
            elif rich:
                perms = [tuple(reversed(sub))]
            else:
                perms = []
            for p in perms:
                out.append({"t": "list", "eqs": list(p), "key": "name"})
                if r <= 2:
                    out.append({"t": "list", "eqs": list(p), "key": "op"})
    # dicts
    options = {e: list(_subsets(sorted(spec[e][0]))) for e in order}
    # G2 equations live on up to 4 grids: subsets of non-adjacent grids (first and third ...)
    maxpresent = len(order) if (rich and grid == "G1") else (2 if (rich or grid == "G1") else 1)
    for npres in range(0, maxpresent + 1):
        for present in itertools.combinations(order, npres):
            for choice in itertools.product(*[options[e] for e in present]):
                items = [[e, list(reversed(g))] for e, g in zip(present, choice)]
                items.reverse()  # insertion order = reversed set order
                if rich or npres <= 1:
                    keys = ("name", "op")
                else:
                    keys = ("name",) if (len(out) % 2) else ("op",)
                for key in keys:
                    out.append({"t": "dict", "items": items, "key": key})
    out.extend(repeated_grid_requests(grid, order, spec))
    return out


def repeated_grid_lists(ranks):
    """Grid lists with REPEATED entries denoting a proper, non-empty subset P of the
    equation's grids: every multiset with support exactly P and as many entries as the
    equation has grids (several orders), plus one entry more / fewer than that."""
    ranks = sorted(ranks)
    k = len(ranks)
    out = []
    for n in range(1, k):
        for P in itertools.combinations(ranks, n):
            for m in itertools.combinations_with_replacement(P, k):
                if set(m) != set(P):
                    continue
                m = list(m)
                variants = [m, m[::-1], m[1::2] + m[0::2]]
                for v in variants:
                    if v not in out:
                        out.append(v)
            longer = list(P) + list(P) + [P[0]] * max(0, k + 1 - 2 * n)  # k+1 or more entries
            if longer not in out:
                out.append(longer)
            if n + 1 != k:
                shorter = [P[-1]] + list(P)  # one repeat, fewer/more entries than k
                if shorter not in out:
                    out.append(shorter)
    # repeats covering ALL grids of the equation (more entries than grids)
    out.append(ranks[::-1] + ranks[:1])
    return out


def repeated_grid_requests(grid, order, spec):
    out = []
    singles = {}
    for e in order:
        ranks = sorted(spec[e][0])
        if len(ranks) < 2:
            out.append({"t": "dict", "items": [[e, ranks + ranks]], "key": "name"})
            continue
        singles[e] = repeated_grid_lists(ranks)
        for i, g in enumerate(singles[e]):
            out.append({"t": "dict", "items": [[e, g]], "key": "name" if i % 2 == 0 else "op"})
    # two equations with repeated lists in one request (reversed set order of the keys)
    es = [e for e in order if e in singles]
    for e1, e2 in itertools.combinations(es, 2):
        for j in range(0, min(len(singles[e1]), len(singles[e2])), 5):
            out.append({"t": "dict", "items": [[e2, singles[e2][-1 - j]], [e1, singles[e1][j]]], "key": "name"})
    return out


def _var_model(grid, vkey):
    m = dm.Model(grid)
    for op in qs.VARS[grid][vkey]:
        assert m.apply(op) == "ok"
    nsd = dm.GRIDS[grid][0]
    groups: dict = {}
    for k, (n, r) in enumerate(m.live):
        groups.setdefault((n, "sd" if r < nsd else "intf"), []).append(k)
    return m.live, groups


def col_requests_small(grid, vkey):
    live, groups = _var_model(grid, vkey)
    gk = [list(k) for k in groups]
    return [
        {"t": "none"},
        {"t": "md", "groups": [gk[0]]},
        {"t": "atomic", "idx": list(range(len(live) - 1, 0, -1))},
        {"t": "names", "names": [live[-1][0]]},
    ]


def col_requests_all(grid, vkey):
    live, groups = _var_model(grid, vkey)
    gk = [list(k) for k in groups]
    out = []
    for sub in _subsets(gk):
        out.append({"t": "md", "groups": list(reversed(sub))})
    n = len(live)
    if n <= 6:
        subs = list(_subsets(range(n)))
    else:
        small = [s for s in _subsets(range(n)) if len(s) <= 2]
        subs = small + [[k for k in range(n) if k not in s] for s in small if s]
    for sub in subs:
        out.append({"t": "atomic", "idx": list(reversed(sub))})
    for nm in sorted({x[0] for x in live}):
        out.append({"t": "names", "names": [nm]})
    return out


def row_requests_small(grid, okey):
    order = qs.eq_order(qs.ORDERS[okey])
    spec = qs.EQS[grid]
    first, last = order[0], order[-1]
    return [
        {"t": "none"},
        {"t": "list", "eqs": [order[1], order[0]], "key": "name"},
        {"t": "dict", "items": [[last, sorted(spec[last][0])[:1]], [first, sorted(spec[first][0])[1:]]], "key": "name"},
    ]


def cases(tier):
    rich = tier == "thorough"
    out = []
    for sysid in _systems(tier):
        grid, dofmap, vkey, okey = sysid
        rows = row_requests(grid, okey, rich)
        for k in range(0, len(rows), ROWS_PER_CASE[tier]):
            out.append({"sys": list(sysid), "rows": rows[k:k + ROWS_PER_CASE[tier]], "cols": "small"})
        out.append({"sys": list(sysid), "rows": row_requests_small(grid, okey), "cols": "all"})
    return out


# ----------------------------------------------------------------------- execution


def _cols_arg(S, creq):
    t = creq["t"]
    if t == "none":
        return None, np.arange(S.N)
    if t == "md":
        arg = [S.mdvars[tuple(g)] for g in creq["groups"]]
        ks = [k for g in creq["groups"] for k in S.groups[tuple(g)]]
    elif t == "atomic":
        arg = [S.live[k] for k in creq["idx"]]
        ks = list(creq["idx"])
    elif t == "names":
        arg = list(creq["names"])
        ks = [k for k, v in enumerate(S.live) if v.name in creq["names"]]
    else:  # pragma: no cover
        raise ValueError(t)
    blocks = S.sys_blocks
    idx = np.sort(np.concatenate([np.arange(*blocks[k]) for k in ks] + [np.array([], dtype=int)])).astype(int)
    return arg, idx


def _rows_arg(S, rreq, off):
    """Returns (argument for ``equations``, expected full-system row indices, expected
    assembled_equation_indices)."""
    t = rreq["t"]
    if t == "none":
        want = {e: list(range(S.eq_rows(e))) for e in S.order}
        arg = None
    elif t == "list":
        want = {e: list(range(S.eq_rows(e))) for e in rreq["eqs"]}
        arg = [e if rreq["key"] == "name" else S.ops[e] for e in rreq["eqs"]]
    else:
        want = {e: S.local_rows(e, ranks) for e, ranks in rreq["items"]}
        arg = {}
        for e, ranks in rreq["items"]:
            arg[e if rreq["key"] == "name" else S.ops[e]] = [S.domains[r] for r in ranks]
    rows: list[int] = []
    aei = {}
    pos = 0
    for e in S.order:  # the order in which the equations were set
        if e in want:
            loc = want[e]
            rows.extend(off[e] + i for i in loc)
            aei[e] = np.arange(pos, pos + len(loc))
            pos += len(loc)
    return arg, np.array(rows, dtype=int), aei


def _same_aei(a, b):
    return set(a) == set(b) and all(np.array_equal(np.asarray(a[k]), np.asarray(b[k])) for k in a)


def _build(sysid):
    grid, dofmap, vkey, okey = sysid
    S = qs.System(grid, dofmap, vkey, okey)
    # demanded block layout of the variables (reference of C05)
    m = dm.Model(grid)
    for op in qs.VARS[grid][vkey]:
        m.apply(op)
    S.sys_blocks = m.blocks(S.sys.size_of)
    S.store(S.x_storage())
    ref = {}
    J, r = S.es.assemble()
    ref["storage"] = (J.toarray(), np.asarray(r).copy())
    J, r = S.es.assemble(state=S.x_given())
    ref["given"] = (J.toarray(), np.asarray(r).copy())
    for Jd, _ in ref.values():
        if len({tuple(x) for x in Jd}) != Jd.shape[0] or len({tuple(x) for x in Jd.T}) != Jd.shape[1]:
            raise RuntimeError("harness: rows/columns of the full Jacobian are not pairwise distinct")
        if Jd.shape != (sum(S.eq_rows(e) for e in S.order), S.N):
            raise RuntimeError("harness: full system has unexpected shape")
    if np.array_equal(ref["storage"][0], ref["given"][0]):
        raise RuntimeError("harness: the two states give the same Jacobian")
    return S, ref


def run_case(case) -> Outcome:
    out = Outcome()
    sysid = tuple(case["sys"])
    S, ref = _build(sysid)
    es = S.es
    off = S.offsets()
    grid, _, vkey, okey = sysid
    cols = col_requests_small(grid, vkey) if case["cols"] == "small" else col_requests_all(grid, vkey)
    nrows_full = ref["storage"][0].shape[0]

    prev = None
    for rreq in case["rows"]:
        for creq in cols:
            for st in ("storage", "given"):
                Jf, rf = ref[st]
                state = None if st == "storage" else S.x_given()
                try:
                    eq_arg, rows, aei_exp = _rows_arg(S, rreq, off)
                    var_arg, cidx = _cols_arg(S, creq)
                except Exception as e:  # harness problem, not a verdict
                    raise RuntimeError(f"harness: cannot build request {rreq} {creq}: {e!r}")
                desc = dict(system=list(sysid), rows=rreq, cols=creq, state=st, set_order=S.order)
                bad = None
                try:
                    # residual only first: must not touch the indices of the previous request
                    before_obj = es.assembled_equation_indices
                    before = {k: np.array(v, copy=True) for k, v in before_obj.items()}
                    kw = dict(equations=eq_arg, variables=var_arg, state=state)
                    snap = _snapshot(eq_arg, var_arg, state)
                    r_only = es.assemble(evaluate_jacobian=False, **kw)
                    if not _same_aei(es.assembled_equation_indices, before):
                        bad = ("residual-only assembly changed assembled_equation_indices",
                               dict(before={k: v for k, v in before.items()}, after=dict(es.assembled_equation_indices)))
                    J, r = es.assemble(**kw)
                    Jd = J.toarray() if hasattr(J, "toarray") else np.asarray(J)
                    Je = Jf[rows][:, cidx]
                    re_ = rf[rows]
                    if bad is None and (Jd.shape != Je.shape or not np.array_equal(Jd, Je)):
                        bad = ("restricted Jacobian is not the corresponding slice of the full Jacobian",
                               dict(expected_rows=rows, expected_cols=cidx, got_shape=list(Jd.shape),
                                    got_rows_as_full_rows=_identify(Jd, Jf[:, cidx])))
                    if bad is None and (np.shape(r) != re_.shape or not np.array_equal(r, re_)):
                        bad = ("restricted residual is not the corresponding slice of the full residual",
                               dict(expected_rows=rows, expected=re_, got=r))
                    if bad is None and (np.shape(r_only) != re_.shape or not np.array_equal(r_only, re_)):
                        bad = ("residual-only assembly differs from the residual of the full assembly",
                               dict(expected_rows=rows, expected=re_, got=r_only))
                    if bad is None and snap != _snapshot(eq_arg, var_arg, state):
                        bad = ("assemble modified one of its arguments", dict())
                    if bad is None and prev is not None and not (
                            np.array_equal(prev[0].toarray(), prev[1]) and np.array_equal(prev[2], prev[3])):
                        bad = ("a later assemble call modified the matrix / vector returned by an earlier one", dict())
                    prev = (J, Jd.copy(), r, np.array(r, copy=True)) if hasattr(J, "toarray") else None
                    if bad is None and not _same_aei(es.assembled_equation_indices, aei_exp):
                        bad = ("assembled_equation_indices are not the running row ranges per equation in set order",
                               dict(expected=aei_exp, got=dict(es.assembled_equation_indices)))
                except Exception as e:  # noqa
                    bad = ("assemble raised on a valid request", dict(error=repr(e)))
                restricted_rows = len(rows) < nrows_full
                reordered = rreq["t"] == "list" and rreq["eqs"] != [e for e in S.order if e in rreq["eqs"]]
                nontrivial = restricted_rows or reordered or len(cidx) < S.N
                neq = len(rreq.get("eqs", rreq.get("items", S.order)))
                empty = rreq["t"] == "dict" and any(len(S.local_rows(e, g)) == 0 for e, g in rreq["items"])
                repeated = rreq["t"] == "dict" and any(len(set(g)) < len(g) for e, g in rreq["items"])
                cls = "%s/%s/neq%d%s%s/cols:%s/%s" % (
                    rreq["t"], rreq.get("key", "-"), min(neq, 3), ("/empty-block" if empty else "") + ("/repeated-grids" if repeated else ""),
                    "/reordered" if reordered else "", creq["t"] + ("-all" if len(cidx) == S.N else "-sub" if len(cidx) else "-none"), st)
                if bad is not None:
                    out.violate(bad[0], **desc, **bad[1])
                    cls = "VIOLATION"
                out.ev(cls, (sysid, repr(rreq), repr(creq), st) if nontrivial else None)
                if not out.samples and rreq["t"] == "dict" and len(rreq["items"]) == 2 and creq["t"] == "atomic":
                    out.samples.append({"system": list(sysid), "set_order": S.order, "rows": rreq, "cols": creq,
                                        "state": st, "expected_rows": rows.tolist(), "expected_cols": cidx.tolist()})
                if len(out.violations) >= 5:
                    return out
    return out


def _snapshot(eq_arg, var_arg, state):
    """Digest of the arguments of assemble (identity of the entries + array bytes)."""
    if isinstance(eq_arg, dict):
        e = tuple((id(k) if not isinstance(k, str) else k, tuple(id(g) for g in v)) for k, v in eq_arg.items())
    elif eq_arg is None:
        e = None
    else:
        e = tuple(id(k) if not isinstance(k, str) else k for k in eq_arg)
    v = None if var_arg is None else tuple(id(k) if not isinstance(k, str) else k for k in var_arg)
    return (e, v, None if state is None else state.tobytes())


def _identify(Jd, Jfull_cols):
    """Which rows of the full system (restricted to the expected columns) did we get?"""
    if Jd.ndim != 2 or Jd.shape[1] != Jfull_cols.shape[1]:
        return "column mismatch"
    lut = {tuple(x): i for i, x in enumerate(Jfull_cols)}
    return [lut.get(tuple(x), -1) for x in Jd]


def known_finding(case, viol):
    return None
