"""C30 — distance functions return the true Euclidean distance and genuine closest points.

Engine E over integer-lattice points, segments and planar polygons (convex, non-convex,
with collinear vertices). Oracle: exact squared distances in ``fractions.Fraction``
(``mc.oracles.grpI_exact``): point-segment by clamped projection, segment-segment by
stationary point of the convex quadratic or the four endpoint-segment minima,
point-polygon by exact projection + exact point-in-polygon or nearest edge,
segment-polygon by exact crossing test or the minimum over endpoints / boundary edges.
Returned closest points are converted to exact rationals and must lie (1e-9) on the
object they belong to and realise the distance.
"""

from __future__ import annotations

import functools
import itertools
import math

import numpy as np

from mc.core import Outcome
from mc.oracles import grpI_exact as X
from mc.oracles import grpI_variants as VR

PROPERTY = "C30"
LEVEL = "exploration"
RULE = (
    "every (point | segment) x (point | segment | polygon) combination of the declared lattice "
    "alphabets, through every distance function of porepy.geometry.distances (vectorised and "
    "single-object calls, both argument-size branches of points_segments, both orientations of "
    "segments); one case = one first object (or a block of polygons) against all second objects; "
    "non-trivial = the exact closest pair is not simply two given vertices (projection falls "
    "strictly inside a segment / polygon, or the objects touch or cross) ; distinct by "
    "(function, alphabet, object indices)"
)
ASSUMPTIONS = [
    "integer lattice coordinates in a box of side <= 4: exact squared distances are rationals; "
    "float results are compared with sqrt(exact) to 1e-9 absolute (measured round-off <= 4e-15)",
    "closest points: a returned point must lie within 1e-9 of the object it is documented to lie "
    "on and within 1e-9 of distance d from the other object; where several closest pairs exist "
    "(parallel segments, non-convex polygons) any of them is accepted",
    "segments_polygon returns one point without saying on which object: it is accepted if it lies "
    "on the segment or on the polygon and is at the returned distance from the other object",
    "degenerate (zero-length) segments and non-planar / self-intersecting polygons are outside the "
    "API and are not generated; the third return value of points_polygon is not judged",
    "points_polygon / segments_polygon are 3-d only (they rotate the polygon into the xy-plane)",
    "every call is repeated on one variant of its arguments, rotating over {translated by 1000, scaled by "
    "2^-10 (2^-6 for the polygon functions, whose tol=1e-5 is absolute), scaled by 2^10, int64 where "
    "integral} x {C, F order} x {writeable, read-only}; these maps are exact, so distances must scale and "
    "closest points map back; entries where the mapped-back variant answer differs by more than 1e-9 from "
    "the plain answer are judged by the exact oracle in place of the plain answer",
    "purity: every array argument must be bitwise unchanged after every call",
    "offset axis: the lattice point sets {0..3}^2 / {0,1,2}^3 with spacing 1, 1e-3, 1e-4 translated by "
    "(1e4,1e4,0), (6.5e5,6.7e6,0), (-1e6,3e5,2e4); the floats passed are converted to exact rationals, the "
    "oracle is their exact distance, accepted error 1e-12*distance + 16*eps*max|coordinate|",
]
BOUNDS = {
    "quick": "point_pointset/pointset: all pairs of {0..3}^2 and {0,1,2}^3; points_segments and "
    "segment_segment_set: 2-d {0..3}^2 (16 points, 240 oriented segments) and 3-d {0,1,2}^3 (27 "
    "points, 702 oriented segments), all combinations (segment_segment_set in 2-d also with all coordinates divided by 8); points_polygon: all 2876 lattice triangles, all "
    "3174 simple planar lattice quadrilaterals (convex, non-convex, with a collinear vertex) and 48 "
    "L-shaped hexagons in {0,1,2}^3 x the 81 points of {0,.5,1,1.5,2}^3 with at most one half-integer "
    "coordinate; segments_polygon: the 321 polygons lying in the planes z=1 and x+y+z=3 (all) and x=y "
    "(non-convex only) x all 702 oriented segments (vectorised call; single-segment calls for the "
    "touching/crossing ones and every 8th other); offset axis: pointset (max_diag False/True) and point_pointset on all "
    "point pairs, points_segments on all point x segment combinations, segment_segment_set on a residue class "
    "(1/2 in 2-d, 2/39 in 3-d; thorough: all) of first segments x all segments, for 3 offsets x 3 spacings; "
    "segment_set: all 2- and 3-sets of "
    "the 6 segments of {0,1}^2 and 2-sets of the 28 segments of {0,1}^3",
    "thorough": "quick + points_polygon with query points {0,.5,..,2}^3 u {-1..3}^3 (223) and both "
    "polygon orientations + segments_polygon for every triangle, quadrilateral and L-shape (6086 polygons) x "
    "702 oriented segments",
}
MIN_CLASSES = 12
CHUNK = 4
TOL = 1e-9


# --------------------------------------------------------------------------- alphabets


def _points(dim, lo, hi):
    return list(itertools.product(range(lo, hi), repeat=dim))


def _segments(dim, n):
    return list(itertools.combinations(_points(dim, 0, n), 2))


def _oriented(segs):
    return [s for ab in segs for s in (ab, ab[::-1])]


@functools.lru_cache(maxsize=None)
def _polygons():
    """Deterministic list of (kind, vertices) for all polygons on {0,1,2}^3."""
    pts = _points(3, 0, 3)
    polys = []
    for t in itertools.combinations(pts, 3):
        if not X.is_zero(X.polygon_normal(t)):
            polys.append(("tri", t))
    for q in itertools.combinations(pts, 4):
        a, b, c, d = q
        n = X.cross3(X.sub(b, a), X.sub(c, a))
        if X.is_zero(n):
            n = X.cross3(X.sub(b, a), X.sub(d, a))
            if X.is_zero(n):
                continue
        if any(X.dot(X.sub(p, a), n) != 0 for p in q):
            continue
        for order in ((a, b, c, d), (a, b, d, c), (a, c, b, d)):
            if X.is_simple_polygon(list(order)) and not X.is_zero(X.polygon_normal(order)):
                polys.append(("quad", order))
    L0 = [(0, 0), (2, 0), (2, 1), (1, 1), (1, 2), (0, 2)]
    rots = []
    cur = L0
    for _ in range(4):
        rots.append(cur)
        cur = [(2 - v, u) for (u, v) in cur]  # rotate by 90 degrees about (1, 1)
    embeds = []
    for c in range(3):
        embeds += [lambda u, v, c=c: (u, v, c), lambda u, v, c=c: (u, c, v), lambda u, v, c=c: (c, u, v)]
    embeds += [lambda u, v: (u, u, v), lambda u, v: (u, v, u), lambda u, v: (v, u, u)]
    for emb in embeds:
        for r in rots:
            polys.append(("L", tuple(emb(u, v) for (u, v) in r)))
    return polys


@functools.lru_cache(maxsize=None)
def _query_points(ext):
    """points_polygon query points: the half-integer lattice of the box (quick: at most one
    half-integer coordinate, 81 points; thorough: all 125) and, thorough, {-1..3}^3."""
    half = [X.F(k, 2) for k in range(5)]
    pts = []
    for p in itertools.product(half, repeat=3):
        nh = sum(1 for x in p if x.denominator != 1)
        if ext or nh <= 1:
            pts.append(tuple(int(x) if x.denominator == 1 else x for x in p))
    if ext:
        have = set(pts)
        pts += [p for p in _points(3, -1, 4) if p not in have]
    return pts


def _in_small_planes(kind, poly):
    """Quick-tier polygons for segments_polygon: everything in the axis-aligned plane z=1
    and in the oblique plane x+y+z=3, and the non-convex polygons of the diagonal plane x=y."""
    return (
        all(p[2] == 1 for p in poly)
        or all(sum(p) == 3 for p in poly)
        or (all(p[0] == p[1] for p in poly) and _poly_kind(kind, poly) in ("L-nonconvex", "quad-nonconvex"))
    )


def _spoly_indices(tier):
    polys = _polygons()
    if tier == "thorough":
        return list(range(len(polys)))
    return [i for i, (k_, p) in enumerate(polys) if _in_small_planes(k_, p)]


def cases(tier):
    out = []
    out.append({"part": "pp", "dim": 2, "n": 4})
    out.append({"part": "pp", "dim": 3, "n": 3})
    for dim, n in ((2, 4), (3, 3)):
        for i in range(len(_points(dim, 0, n))):
            out.append({"part": "ps", "dim": dim, "n": n, "mode": "point", "idx": i})
        nseg = len(_segments(dim, n))
        for k in range(0, nseg, 8):
            out.append({"part": "ps", "dim": dim, "n": n, "mode": "seg", "idx": [k, min(nseg, k + 8)]})
        for k in range(nseg):
            out.append({"part": "ss", "dim": dim, "n": n, "idx": k, "den": 1})
            if dim == 2 or tier == "thorough":
                # the same configuration scaled by 1/8 (exact in binary): absolute
                # thresholds in the parallel test would show up here
                out.append({"part": "ss", "dim": dim, "n": n, "idx": k, "den": 8})
    npoly = len(_polygons())
    step = 24
    for k in range(0, npoly, step):
        out.append({"part": "ppoly", "idx": [k, min(npoly, k + step)], "ext": tier == "thorough"})
    for i in _spoly_indices(tier):
        out.append({"part": "spoly", "idx": i})
    # large common offset x small spacing (geo-referenced coordinates)
    for dim, n in ((2, 4), (3, 3)):
        for io in range(len(OFFSETS)):
            for ih in range(len(SPACINGS)):
                out.append({"part": "off", "fn": "pp", "dim": dim, "n": n, "off": io, "h": ih})
                out.append({"part": "off", "fn": "ps", "dim": dim, "n": n, "off": io, "h": ih})
                step = 6 if dim == 2 else 39
                nres = step if tier == "thorough" else (3 if dim == 2 else 2)
                for r in range(nres):
                    out.append({"part": "off", "fn": "ss", "dim": dim, "n": n, "off": io, "h": ih, "step": step, "r": r})
    out.append({"part": "sset", "dim": 2})
    out.append({"part": "sset", "dim": 3})
    return out


# ----------------------------------------------------------------------------- helpers


class _V:
    """Collects violations with a per-category cap."""

    def __init__(self, out):
        self.out = out
        self.per = {}

    def add(self, what, **detail):
        self.per[what] = self.per.get(what, 0) + 1
        if self.per[what] <= 2:
            if _CUR.get("note"):
                detail.setdefault("variant_note", _CUR["note"])
            self.out.violate(what, **detail)

    def close(self):
        for cat, cnt in self.per.items():
            if cnt > 2:
                self.out.extra["violations_not_listed"] = self.out.extra.get("violations_not_listed", 0) + cnt - 2


def _sqrt(fr):
    return math.sqrt(float(fr))


def _fd_point_seg(c, a, b):
    """Float distance from float point c to the segment [a,b] (independent plain formula)."""
    u = [y - x for x, y in zip(a, b)]
    w = [y - x for x, y in zip(a, c)]
    t = sum(p * q for p, q in zip(u, w)) / sum(p * p for p in u)
    t = min(1.0, max(0.0, t))
    return math.sqrt(sum((x + t * p - y) ** 2 for x, p, y in zip(a, u, c)))


def _fd(p, q):
    return math.sqrt(sum((float(x) - float(y)) ** 2 for x, y in zip(p, q)))


def _rat(c):
    """Float point -> rational point: the nearby small-denominator rational if it is within
    1e-12 (keeps the exact arithmetic fast; the perturbation is 1000x below TOL), else the
    exact value of the float."""
    res = []
    for x in c:
        fx = X.F(float(x))
        sx = fx.limit_denominator(5000)
        res.append(sx if abs(sx - fx) <= X.F(1, 10**12) else fx)
    return tuple(res)


def _finite(*arrs):
    return all(np.all(np.isfinite(np.asarray(a, dtype=float))) for a in arrs)


def _ps_nontrivial(p, a, b):
    t = X.param_on_line(p, a, b)
    return 0 < t < 1


# ------------------------------------------------------- purity + variant wrapper

# output layout of every function: "d" = distances (scale), "pl" / "pf" = points with the
# coordinates on the last / first axis (similarity), "-" = not transformed / not compared
_SPEC = {
    "point_pointset": ("d",), "pointset": ("d",), "points_segments": ("d", "pl"),
    "segment_segment_set": ("d", "pf", "pf"), "points_polygon": ("d", "pf", "-"),
    "segments_polygon": ("d", "pf"), "segment_set": ("d", "pl"),
}
_CUR: dict = {"V": None, "k": 0, "note": None, "sub": set(), "vname": None}


def _untransform(o, kind, tr):
    o = np.asarray(o, dtype=float)
    if kind == "d":
        return o / VR.scale_of(tr)
    return VR.inv(o, tr)


class _Wrapped:
    """porepy.geometry.distances with two additions per call: (1) the arguments must be
    bitwise unchanged afterwards; (2) the call is repeated on a rotating exact similarity /
    memory-layout / dtype / read-only variant of the arguments; wherever the mapped-back
    variant answer differs (1e-9) from the plain answer it REPLACES the plain answer in the
    returned arrays, so that the caller's full oracle judges it."""

    def __getattr__(self, fname):
        from porepy.geometry import distances

        fn = getattr(distances, fname)
        spec = _SPEC[fname]

        def call(*args, **kw):
            V = _CUR["V"]
            _CUR.update(note=None, sub=set(), vname=None)
            pur = VR.Purity(**{f"arg{i}": a for i, a in enumerate(args)})
            base = fn(*args, **kw)
            if pur.changed():
                V.add(f"{fname}: input array modified", args=[np.asarray(a) for a in args], which=pur.changed())
            _CUR["k"] += 1
            small = "s2^-6" if "polygon" in fname else "s2^-10"
            v = VR.variant(_CUR["k"], small)
            vargs = [VR.make(a, v) if isinstance(a, np.ndarray) else a for a in args]
            pur = VR.Purity(**{f"arg{i}": a for i, a in enumerate(vargs)})
            try:
                var = fn(*vargs, **kw)
            except Exception as e:
                V.add(f"{fname}: raised on a transformed / re-represented input", variant=VR.name(v), error=repr(e),
                      args=[np.asarray(a) for a in args])
                return base
            if pur.changed():
                V.add(f"{fname}: input array modified", variant=VR.name(v), args=[np.asarray(a) for a in args],
                      which=pur.changed())
            single = not isinstance(base, tuple)
            b_list = [base] if single else list(base)
            v_list = [var] if single or not isinstance(var, tuple) else list(var)
            res = []
            nsub = 0
            for i, (kind, b) in enumerate(zip(spec, b_list)):
                if kind == "-" or i >= len(v_list):
                    res.append(b)
                    continue
                u = _untransform(v_list[i], kind, v[0])
                b_arr = np.asarray(b, dtype=float)
                if u.shape != b_arr.shape:
                    res.append(u)
                    nsub += 1
                    continue
                diff = ~(np.abs(u - b_arr) <= TOL)  # NaN counts as different
                if diff.any():
                    # entry index = position along the axis that enumerates the second objects
                    idx = np.nonzero(diff.any(axis=0))[0] if kind == "pf" else np.nonzero(diff.reshape(diff.shape[0], -1).any(axis=1) if kind == "pl" else diff.ravel())[0]
                    _CUR["sub"].update(int(i) for i in idx)
                    b_arr = b_arr.copy()
                    b_arr[diff] = u[diff]
                    nsub += int(diff.sum())
                    res.append(b_arr)
                else:
                    res.append(b)
            _CUR["vname"] = VR.name(v)
            if nsub:
                _CUR["note"] = f"{fname}: {nsub} entries taken from variant {VR.name(v)}"
                V.out.extra["entries_judged_from_variant"] = V.out.extra.get("entries_judged_from_variant", 0) + nsub
            V.out.extra["variant_calls"] = V.out.extra.get("variant_calls", 0) + 1
            return res[0] if single else tuple(res)

        return call


# ------------------------------------------------------------------------------- parts


def _part_pp(case, out, V):
    distances = _Wrapped()

    dim, n = case["dim"], case["n"]
    pts = _points(dim, 0, n)
    P = np.array(pts, dtype=float).T
    try:
        full = distances.pointset(P)
        full_md = distances.pointset(P, max_diag=True)
    except Exception as e:
        V.add("pointset raised", error=repr(e), dim=dim)
        full = full_md = None
    for i, p in enumerate(pts):
        for shape in ("1d", "col"):
            arg = np.array(p, dtype=float) if shape == "1d" else np.array(p, dtype=float).reshape((-1, 1))
            try:
                d = distances.point_pointset(arg, P)
            except Exception as e:
                V.add("point_pointset raised", error=repr(e), p=list(p))
                out.ev("VIOLATION/pp")
                continue
            for j, q in enumerate(pts):
                ex = _sqrt(X.sqdist_pp(p, q))
                ok = np.shape(d) == (len(pts),) and abs(d[j] - ex) <= TOL
                if ok and shape == "1d" and full is not None:
                    ok = abs(full[i, j] - ex) <= TOL
                    exp_md = ex if i != j else 2 * max(_sqrt(X.sqdist_pp(p, r)) for r in pts)
                    ok = ok and abs(full_md[i, j] - exp_md) <= TOL
                if not ok:
                    V.add("point_pointset/pointset: wrong distance", p=list(p), q=list(q), expected=ex,
                          observed=float(d[j]) if np.shape(d) == (len(pts),) else repr(np.shape(d)))
                    out.ev("VIOLATION/pp")
                else:
                    out.ev(f"pp/{dim}d/" + ("zero" if i == j else "pos"), ("pp", dim, i, j) if i != j else None)
    # single-point sets (size < 4 reshaping path)
    for i, p in enumerate(pts[:6]):
        for j, q in enumerate(pts):
            try:
                d = distances.point_pointset(np.array(p, dtype=float), np.array(q, dtype=float))
                ok = np.shape(d) == (1,) and abs(d[0] - _sqrt(X.sqdist_pp(p, q))) <= TOL
            except Exception as e:
                ok, d = False, repr(e)
            if not ok:
                V.add("point_pointset with a single 1-d point: wrong result", p=list(p), q=list(q), observed=repr(d))
                out.ev("VIOLATION/pp")
            else:
                out.ev(f"pp/{dim}d/single")


def _judge_ps(out, V, dim, p, a, b, d, cp, how):
    d2, q = X.sqdist_point_seg(p, a, b)
    ex = _sqrt(d2)
    nontriv = _ps_nontrivial(p, a, b)
    bad = None
    if not _finite(d, cp):
        bad = "non-finite result"
    elif abs(d - ex) > TOL:
        bad = "wrong distance"
    elif _fd_point_seg(cp, a, b) > TOL:
        bad = "closest point is not on the segment"
    elif abs(_fd(cp, p) - ex) > TOL:
        bad = "closest point is not at the returned distance"
    if bad:
        V.add("points_segments: " + bad, call=how, p=list(p), start=list(a), end=list(b), expected_distance=ex,
              expected_closest=[float(x) for x in q], observed_distance=float(d), observed_closest=np.asarray(cp))
        out.ev(f"VIOLATION/ps/{dim}d")
        return
    t = X.param_on_line(p, a, b)
    regime = "on" if d2 == 0 else ("before" if t <= 0 else "after" if t >= 1 else "interior")
    out.ev(f"ps/{dim}d/{how}/{regime}", ("ps", dim, p, a, b) if nontriv else None)


def _part_ps(case, out, V):
    distances = _Wrapped()

    dim, n = case["dim"], case["n"]
    pts = _points(dim, 0, n)
    segs = _oriented(_segments(dim, n))
    if case["mode"] == "point":
        p = pts[case["idx"]]
        S = np.array([s[0] for s in segs], dtype=float).T
        E = np.array([s[1] for s in segs], dtype=float).T
        for parg, how in ((np.array(p, dtype=float).reshape((-1, 1)), "1point-vs-many"),
                          (np.array([p, pts[(case["idx"] + 5) % len(pts)]], dtype=float).T.copy(), "2points-vs-many")):
            try:
                d, cp = distances.points_segments(parg, S, E)
            except Exception as e:
                V.add("points_segments raised", error=repr(e), p=list(p), call=how)
                out.ev(f"VIOLATION/ps/{dim}d")
                continue
            plist = [p] if how.startswith("1") else [p, pts[(case["idx"] + 5) % len(pts)]]
            if np.shape(d) != (len(plist), len(segs)) or np.shape(cp) != (len(plist), len(segs), dim):
                V.add("points_segments: wrong output shape", shape=[list(np.shape(d)), list(np.shape(cp))], call=how)
                out.ev(f"VIOLATION/ps/{dim}d")
                continue
            for pi, pp_ in enumerate(plist):
                for k, (a, b) in enumerate(segs):
                    _judge_ps(out, V, dim, pp_, a, b, d[pi, k], cp[pi, k], how)
    else:
        lo, hi = case["idx"]
        P = np.array(pts, dtype=float).T
        base = _segments(dim, n)[lo:hi]
        for ab in base:
            for a, b in (ab, ab[::-1]):
                for how in ("many-vs-1seg", "many-vs-1seg-1d", "many-vs-2segs"):
                    if how.endswith("1d"):
                        sa, sb = np.array(a, dtype=float), np.array(b, dtype=float)
                        slist = [(a, b)]
                    elif how.endswith("1seg"):
                        sa, sb = np.array(a, dtype=float).reshape((-1, 1)), np.array(b, dtype=float).reshape((-1, 1))
                        slist = [(a, b)]
                    else:
                        sa, sb = np.array([a, b], dtype=float).T.copy(), np.array([b, a], dtype=float).T.copy()
                        slist = [(a, b), (b, a)]
                    try:
                        d, cp = distances.points_segments(P, sa, sb)
                    except Exception as e:
                        V.add("points_segments raised", error=repr(e), start=list(a), end=list(b), call=how)
                        out.ev(f"VIOLATION/ps/{dim}d")
                        continue
                    if np.shape(d) != (len(pts), len(slist)) or np.shape(cp) != (len(pts), len(slist), dim):
                        V.add("points_segments: wrong output shape", shape=[list(np.shape(d)), list(np.shape(cp))], call=how)
                        out.ev(f"VIOLATION/ps/{dim}d")
                        continue
                    for li, (sa_, sb_) in enumerate(slist):
                        for pi, p in enumerate(pts):
                            _judge_ps(out, V, dim, p, sa_, sb_, d[pi, li], cp[pi, li], how)


def _judge_ss(out, V, dim, s1, s2, d, c1, c2, ex, how, key, idx=0):
    bad = None
    if not _finite(d, c1, c2):
        bad = "non-finite result"
    elif abs(d - ex) > TOL:
        bad = "wrong distance"
    elif _fd_point_seg(c1, *s1) > TOL:
        bad = "first closest point is not on the main segment"
    elif _fd_point_seg(c2, *s2) > TOL:
        bad = "second closest point is not on the set segment"
    elif abs(_fd(c1, c2) - ex) > TOL:
        bad = "closest points are not at the returned distance"
    if bad:
        V.add("segment_segment_set: " + bad, call=how, start=list(s1[0]), end=list(s1[1]), start_set=list(s2[0]),
              end_set=list(s2[1]), expected_distance=ex, observed_distance=float(d),
              from_variant=_CUR["vname"] if idx in _CUR["sub"] else None,
              observed_closest=[np.asarray(c1), np.asarray(c2)])
        out.ev(f"VIOLATION/ss/{dim}d")
        return False
    return True


def _ss_regime(s1, s2, d2):
    u, v = X.sub(s1[1], s1[0]), X.sub(s2[1], s2[0])
    par = X.is_zero(X.minors(u, v))
    if d2 == 0:
        return ("parallel" if par else "nonparallel") + "/meet"
    if par:
        return "parallel/apart"
    # interior-interior?
    uu, vv, uv = X.dot(u, u), X.dot(v, v), X.dot(u, v)
    D = uu * vv - uv * uv
    w = X.sub(s2[0], s1[0])
    s = X.F(X.dot(w, u) * vv - X.dot(w, v) * uv) / D
    t = X.F(X.dot(w, u) * uv - X.dot(w, v) * uu) / D
    if 0 < s < 1 and 0 < t < 1:
        return "nonparallel/interior-interior"
    # endpoint-endpoint or endpoint-interior
    for (p, x, y) in ((s1[0], *s2), (s1[1], *s2), (s2[0], *s1), (s2[1], *s1)):
        dd, _ = X.sqdist_point_seg(p, x, y)
        if dd == d2 and 0 < X.param_on_line(p, x, y) < 1:
            return "nonparallel/endpoint-interior"
    return "nonparallel/endpoint-endpoint"


def _part_ss(case, out, V):
    distances = _Wrapped()

    dim, n, k = case["dim"], case["n"], case["idx"]
    den = case.get("den", 1)
    base = _segments(dim, n)
    if den != 1:
        base = [tuple(tuple(X.F(x, den) for x in p) for p in s) for s in base]
    oriented = _oriented(base)
    S = np.array([[float(x) for x in s[0]] for s in oriented]).T.copy()
    E = np.array([[float(x) for x in s[1]] for s in oriented]).T.copy()
    first = base[k]
    exact = [X.sqdist_seg_seg(first[0], first[1], s[0], s[1]) for s in base]
    regimes = [_ss_regime(first, s, d2) for s, d2 in zip(base, exact)]
    for o1, s1 in enumerate((first, first[::-1])):
        a = np.array([float(x) for x in s1[0]])
        b = np.array([float(x) for x in s1[1]])
        try:
            d, c1, c2 = distances.segment_segment_set(a, b, S, E)
            shp_ok = np.shape(d) == (len(oriented),) and np.shape(c1) == (dim, len(oriented)) and np.shape(c2) == (dim, len(oriented))
        except Exception as e:
            V.add("segment_segment_set raised", error=repr(e), start=list(s1[0]), end=list(s1[1]), call="set")
            out.ev(f"VIOLATION/ss/{dim}d")
            continue
        if not shp_ok:
            V.add("segment_segment_set: wrong output shape", shape=[list(np.shape(d)), list(np.shape(c1)), list(np.shape(c2))])
            out.ev(f"VIOLATION/ss/{dim}d")
            continue
        for j, s2 in enumerate(oriented):
            ex = _sqrt(exact[j // 2])
            reg = regimes[j // 2]
            key = ("ss", dim, den, min(k, j // 2), max(k, j // 2)) if not reg.endswith("endpoint-endpoint") else None
            if _judge_ss(out, V, dim, s1, s2, d[j], c1[:, j], c2[:, j], ex, "set", key, idx=j):
                out.ev(f"ss/{dim}d/set/{reg}" + ("" if den == 1 else f"/scaled-1/{den}"), key)
        # single-segment sets (size < 4 reshaping path) for the lexicographic orientation
        if o1 == 0:
            for j in range(0, len(oriented), 2):
                s2 = oriented[j]
                try:
                    d1, e1, e2 = distances.segment_segment_set(a, b, np.array([float(x) for x in s2[0]]), np.array([float(x) for x in s2[1]]))
                    ok = np.shape(d1) == (1,) and np.shape(e1) == (dim, 1) and np.shape(e2) == (dim, 1)
                except Exception as e:
                    V.add("segment_segment_set raised", error=repr(e), start=list(s1[0]), end=list(s1[1]),
                          start_set=list(s2[0]), end_set=list(s2[1]), call="single")
                    out.ev(f"VIOLATION/ss/{dim}d")
                    continue
                if not ok:
                    V.add("segment_segment_set: wrong output shape (single)", shape=[list(np.shape(d1)), list(np.shape(e1))])
                    out.ev(f"VIOLATION/ss/{dim}d")
                    continue
                if _judge_ss(out, V, dim, s1, s2, d1[0], e1[:, 0], e2[:, 0], _sqrt(exact[j // 2]), "single", None):
                    out.ev(f"ss/{dim}d/single/{regimes[j // 2]}")
    if not out.samples and den == 1:
        for j, r in enumerate(regimes):
            if r == "nonparallel/interior-interior":
                out.samples.append({"function": "segment_segment_set", "segment_1": [list(first[0]), list(first[1])],
                                    "segment_2": [list(base[j][0]), list(base[j][1])], "exact_squared_distance": str(exact[j])})
                break


def _poly_kind(kind, poly):
    if kind == "tri":
        return "tri"
    n = X.polygon_normal(poly)
    k = len(poly)
    turns = set()
    for i in range(k):
        c = X.dot(X.cross3(X.sub(poly[(i + 1) % k], poly[i]), X.sub(poly[(i + 2) % k], poly[(i + 1) % k])), n)
        turns.add((c > 0) - (c < 0))
    if -1 in turns:
        return kind + "-nonconvex"
    if 0 in turns:
        return kind + "-collinear-vertex"
    return kind + "-convex"


def _part_ppoly(case, out, V):
    distances = _Wrapped()

    lo, hi = case["idx"]
    ext = case["ext"]
    pts = _query_points(ext)
    P = np.array([[float(x) for x in p] for p in pts]).T.copy()
    polys = _polygons()
    for pi in range(lo, hi):
        kind, poly0 = polys[pi]
        variants = [poly0] + ([tuple(poly0[::-1])] if ext else [])
        pk = _poly_kind(kind, poly0)
        for vi, poly in enumerate(variants):
            G = np.array(poly, dtype=float).T
            try:
                d, cp, inp = distances.points_polygon(P.copy(), G.copy())
                ok = np.shape(d) == (len(pts),) and np.shape(cp) == (3, len(pts))
            except Exception as e:
                V.add("points_polygon raised", error=repr(e), polygon=[list(v) for v in poly])
                out.ev("VIOLATION/ppoly/" + pk, n=len(pts))
                continue
            if not ok:
                V.add("points_polygon: wrong output shape", shape=[list(np.shape(d)), list(np.shape(cp))])
                out.ev("VIOLATION/ppoly/" + pk, n=len(pts))
                continue
            n = X.polygon_normal(poly)
            for qi, p in enumerate(pts):
                d2, q = X.sqdist_point_polygon(p, poly)
                ex = _sqrt(d2)
                proj, _ = X.project_to_plane(p, poly, n)
                loc = X.point_in_polygon_3d(proj, poly, n)
                bad = None
                c = cp[:, qi]
                if not _finite(d[qi], c):
                    bad = "non-finite result"
                elif abs(d[qi] - ex) > TOL:
                    bad = "wrong distance"
                else:
                    if _fd(c, q) > TOL:
                        # another closest point? exact containment of the returned point
                        cd2, _ = X.sqdist_point_polygon(_rat(c), poly)
                        if _sqrt(cd2) > TOL:
                            bad = "closest point is not on the polygon"
                    if bad is None and abs(_fd(c, p) - ex) > TOL:
                        bad = "closest point is not at the returned distance"
                regime = ("proj-inside" if loc > 0 else "proj-boundary" if loc == 0 else "proj-outside")
                if bad:
                    V.add("points_polygon: " + bad, polygon=[list(v) for v in poly], p=list(p), expected_distance=ex,
                          expected_closest=[float(x) for x in q], observed_distance=float(d[qi]), observed_closest=np.asarray(c),
                          polygon_kind=pk, regime=regime)
                    out.ev(f"VIOLATION/ppoly/{pk}/{regime}")
                else:
                    nontriv = loc > 0 or (loc < 0 and all(tuple(q) != X.fpt(v) for v in poly))
                    out.ev(f"ppoly/{pk}/{regime}" + ("/in-plane" if proj == X.fpt(p) else ""),
                           ("ppoly", pi, vi, qi) if nontriv else None)


def _part_spoly(case, out, V):
    distances = _Wrapped()

    polys = _polygons()
    kind, poly = polys[case["idx"]]
    pk = _poly_kind(kind, poly)
    G = np.array(poly, dtype=float).T
    base = _segments(3, 3)
    oriented = _oriented(base)
    S = np.array([s[0] for s in oriented], dtype=float).T
    E = np.array([s[1] for s in oriented], dtype=float).T
    n = X.polygon_normal(poly)
    try:
        d, cp = distances.segments_polygon(S.copy(), E.copy(), G.copy())
        ok = np.shape(d) == (len(oriented),) and np.shape(cp) == (3, len(oriented))
    except Exception as e:
        V.add("segments_polygon raised", error=repr(e), polygon=[list(v) for v in poly], call="all segments")
        out.ev("VIOLATION/spoly/" + pk, n=len(oriented))
        return
    if not ok:
        V.add("segments_polygon: wrong output shape", shape=[list(np.shape(d)), list(np.shape(cp))])
        out.ev("VIOLATION/spoly/" + pk, n=len(oriented))
        return
    for j, (a, b) in enumerate(oriented):
        if j % 2 == 0:
            d2 = X.sqdist_seg_polygon(a, b, poly)
            ex = _sqrt(d2)
            ha, hb = X.dot(X.sub(a, poly[0]), n), X.dot(X.sub(b, poly[0]), n)
            if ha == 0 and hb == 0:
                regime = "in-plane"
            elif ha == hb:
                regime = "parallel"
            elif (ha > 0) != (hb > 0) or ha == 0 or hb == 0:
                regime = "reaches-plane"
            else:
                regime = "one-side"
            regime += "/meets" if d2 == 0 else "/apart"
        results = [("set", d[j], cp[:, j])]
        # single-segment call (early-return path when everything intersects)
        try:
            if j % 2 or not (d2 == 0 or (j // 2) % 8 == 0):
                raise StopIteration
            d1, c1 = distances.segments_polygon(np.array(a, dtype=float).reshape((3, 1)), np.array(b, dtype=float).reshape((3, 1)), G.copy())
            if np.shape(d1) != (1,) or np.shape(c1) != (3, 1):
                raise ValueError(f"wrong output shape {np.shape(d1)} {np.shape(c1)}")
            results.append(("single", d1[0], c1[:, 0]))
        except StopIteration:
            pass
        except Exception as e:
            V.add("segments_polygon raised", error=repr(e), polygon=[list(v) for v in poly], start=list(a), end=list(b), call="single")
            out.ev(f"VIOLATION/spoly/{pk}/{regime}")
        for how, dj, c in results:
            bad = None
            if not _finite(dj, c):
                bad = "non-finite result"
            elif abs(dj - ex) > TOL:
                bad = "wrong distance"
            else:
                cf = _rat(c)
                to_seg = _sqrt(X.sqdist_point_seg(cf, a, b)[0])
                to_poly = _sqrt(X.sqdist_point_polygon(cf, poly)[0])
                on_seg, on_poly = to_seg <= TOL, to_poly <= TOL
                if not (on_seg or on_poly):
                    bad = "closest point lies neither on the segment nor on the polygon"
                elif not ((on_seg and abs(to_poly - ex) <= TOL) or (on_poly and abs(to_seg - ex) <= TOL)):
                    bad = "closest point is not at the returned distance from the other object"
            if bad:
                V.add("segments_polygon: " + bad, call=how, polygon=[list(v) for v in poly], start=list(a), end=list(b),
                      expected_distance=ex, observed_distance=float(dj), observed_closest=np.asarray(c), polygon_kind=pk,
                      regime=regime)
                out.ev(f"VIOLATION/spoly/{pk}/{regime}")
            else:
                nontriv = d2 == 0 or regime.startswith("reaches")
                out.ev(f"spoly/{pk}/{regime}", ("spoly", case["idx"], j) if nontriv else None)


def _part_sset(case, out, V):
    distances = _Wrapped()

    dim = case["dim"]
    base = _segments(dim, 2)
    sets = list(itertools.combinations(range(len(base)), 2))
    if dim == 2:
        sets += list(itertools.combinations(range(len(base)), 3))
    for idx in sets:
        segs = [base[i] for i in idx]
        S = np.array([s[0] for s in segs], dtype=float).T
        E = np.array([s[1] for s in segs], dtype=float).T
        try:
            d, cp = distances.segment_set(S.copy(), E.copy())
            ns = len(segs)
            if np.shape(d) != (ns, ns) or np.shape(cp) != (ns, ns, dim):
                raise ValueError(f"wrong output shape {np.shape(d)} {np.shape(cp)}")
        except Exception as e:
            V.add("segment_set raised on valid input", error=repr(e), start=S, end=E)
            out.ev("VIOLATION/sset")
            continue
        bad = None
        for i, j in itertools.permutations(range(ns), 2):
            ex = _sqrt(X.sqdist_seg_seg(*segs[i], *segs[j]))
            c = cp[i, j]
            if abs(d[i, j] - ex) > TOL:
                bad = ("wrong distance", i, j, ex, float(d[i, j]))
            elif _fd_point_seg(c, *segs[i]) > TOL:
                bad = ("closest point [i, j] is not on segment i", i, j, c.tolist())
            elif abs(_sqrt(X.sqdist_point_seg(_rat(c), *segs[j])[0]) - ex) > TOL:
                bad = ("closest point [i, j] is not at distance d[i, j] from segment j", i, j, c.tolist())
            if bad:
                break
        if bad:
            V.add("segment_set: " + bad[0], detail=list(bad[1:]), start=S, end=E)
            out.ev("VIOLATION/sset")
        else:
            out.ev(f"sset/{dim}d/{len(segs)}", ("sset", dim) + idx)


# ------------------------------------------------------------- large common offset
# Geo-referenced coordinates: a small lattice (spacing h) far from the origin. The floats
# actually passed are converted to exact rationals, so the oracle is the exact distance of the
# given inputs; accepted error = 1e-12 * distance + 16 * eps * max|coordinate| (what any
# "subtract first, then take the norm" evaluation achieves).
OFFSETS = [(1.0e4, 1.0e4, 0.0), (6.5e5, 6.7e6, 0.0), (-1.0e6, 3.0e5, 2.0e4)]
SPACINGS = [1.0, 1.0e-3, 1.0e-4]
_EPS = 2.220446049250313e-16


def _off_points(dim, n, off, h):
    lat = _points(dim, 0, n)
    fl = [tuple(off[i] + h * k[i] for i in range(dim)) for k in lat]
    ex = [tuple(X.F(x) for x in q) for q in fl]
    return fl, ex


def _part_off(case, out, V):
    from porepy.geometry import distances

    dim, n, fn = case["dim"], case["n"], case["fn"]
    off, h = OFFSETS[case["off"]], SPACINGS[case["h"]]
    fl, ex = _off_points(dim, n, off, h)
    M = max(abs(x) for q in fl for x in q)
    slack = 16 * _EPS * M
    tag = f"off/{fn}/{dim}d/off{case['off']}/h={h:g}"
    P = np.array(fl).T.copy()
    npt = len(fl)

    def tol(e):
        return 1e-12 * e + slack

    if fn == "pp":
        exd = [[_sqrt(X.sqdist_pp(a, b)) for b in ex] for a in ex]
        for md in (False, True):
            try:
                d = np.asarray(distances.pointset(P.copy(), max_diag=md))
                assert d.shape == (npt, npt)
            except Exception as e:
                V.add("pointset raised / wrong shape (offset coordinates)", error=repr(e), offset=list(off), spacing=h)
                out.ev("VIOLATION/" + tag)
                continue
            for i in range(npt):
                for j in range(npt):
                    e_ij = exd[i][j] if (i != j or not md) else 2 * max(exd[i])
                    if not abs(d[i, j] - e_ij) <= tol(e_ij):
                        V.add("pointset: wrong distance for points with a large common offset", p=list(fl[i]), q=list(fl[j]),
                              max_diag=md, expected=e_ij, observed=float(d[i, j]), offset=list(off), spacing=h)
                        out.ev("VIOLATION/" + tag)
                    else:
                        out.ev(tag + ("/max_diag" if md else ""), ("off", fn, dim, case["off"], case["h"], i, j) if i != j else None)
        for i in range(npt):
            try:
                d = np.asarray(distances.point_pointset(np.array(fl[i]), P.copy()))
                assert d.shape == (npt,)
            except Exception as e:
                V.add("point_pointset raised / wrong shape (offset coordinates)", error=repr(e), offset=list(off), spacing=h)
                out.ev("VIOLATION/" + tag)
                continue
            for j in range(npt):
                if not abs(d[j] - exd[i][j]) <= tol(exd[i][j]):
                    V.add("point_pointset: wrong distance for points with a large common offset", p=list(fl[i]), q=list(fl[j]),
                          expected=exd[i][j], observed=float(d[j]), offset=list(off), spacing=h)
                    out.ev("VIOLATION/" + tag)
                else:
                    out.ev(tag + "/point_pointset")
        return

    idx = list(itertools.combinations(range(npt), 2))
    if fn == "ps":
        S = np.array([fl[i] for i, _ in idx]).T.copy()
        E = np.array([fl[j] for _, j in idx]).T.copy()
        try:
            d, cp = distances.points_segments(P.copy(), S, E)
            assert np.shape(d) == (npt, len(idx)) and np.shape(cp) == (npt, len(idx), dim)
        except Exception as e:
            V.add("points_segments raised / wrong shape (offset coordinates)", error=repr(e), offset=list(off), spacing=h)
            out.ev("VIOLATION/" + tag)
            return
        for pi in range(npt):
            for k, (i, j) in enumerate(idx):
                e_ = _sqrt(X.sqdist_point_seg(ex[pi], ex[i], ex[j])[0])
                c = cp[pi, k]
                bad = None
                if not abs(d[pi, k] - e_) <= tol(e_):
                    bad = "wrong distance"
                elif _fd_point_seg(c, fl[i], fl[j]) > 4 * slack + 1e-12 * h:
                    bad = "closest point is not on the segment"
                elif not abs(_fd(c, fl[pi]) - e_) <= tol(e_) + 4 * slack:
                    bad = "closest point is not at the returned distance"
                if bad:
                    V.add("points_segments: " + bad + " (large common offset)", p=list(fl[pi]), start=list(fl[i]), end=list(fl[j]),
                          expected=e_, observed=float(d[pi, k]), observed_closest=np.asarray(c), offset=list(off), spacing=h)
                    out.ev("VIOLATION/" + tag)
                else:
                    out.ev(tag, ("off", fn, dim, case["off"], case["h"], pi, k) if e_ > 0 else None)
        return

    # fn == "ss": first segments = a residue class of the segment list, against all segments
    S = np.array([fl[i] for i, _ in idx]).T.copy()
    E = np.array([fl[j] for _, j in idx]).T.copy()
    step, r = case["step"], case["r"]
    for k1 in range(r, len(idx), step):
        i1, j1 = idx[k1]
        try:
            d, c1, c2 = distances.segment_segment_set(np.array(fl[i1]), np.array(fl[j1]), S.copy(), E.copy())
            assert np.shape(d) == (len(idx),) and np.shape(c1) == (dim, len(idx)) and np.shape(c2) == (dim, len(idx))
        except Exception as e:
            V.add("segment_segment_set raised / wrong shape (offset coordinates)", error=repr(e), offset=list(off), spacing=h)
            out.ev("VIOLATION/" + tag)
            continue
        for k2, (i2, j2) in enumerate(idx):
            e_ = _sqrt(X.sqdist_seg_seg(ex[i1], ex[j1], ex[i2], ex[j2]))
            bad = None
            if not abs(d[k2] - e_) <= tol(e_):
                bad = "wrong distance"
            elif _fd_point_seg(c1[:, k2], fl[i1], fl[j1]) > 4 * slack + 1e-12 * h or _fd_point_seg(c2[:, k2], fl[i2], fl[j2]) > 4 * slack + 1e-12 * h:
                bad = "a closest point is not on its segment"
            elif not abs(_fd(c1[:, k2], c2[:, k2]) - e_) <= tol(e_) + 4 * slack:
                bad = "closest points are not at the returned distance"
            if bad:
                V.add("segment_segment_set: " + bad + " (large common offset)", start=list(fl[i1]), end=list(fl[j1]),
                      start_set=list(fl[i2]), end_set=list(fl[j2]), expected=e_, observed=float(d[k2]),
                      observed_closest=[np.asarray(c1[:, k2]), np.asarray(c2[:, k2])], offset=list(off), spacing=h)
                out.ev("VIOLATION/" + tag)
            else:
                out.ev(tag, ("off", fn, dim, case["off"], case["h"], k1, k2) if e_ > 0 else None)


_PARTS = {"pp": _part_pp, "ps": _part_ps, "ss": _part_ss, "ppoly": _part_ppoly, "spoly": _part_spoly, "sset": _part_sset, "off": _part_off}


def run_case(case) -> Outcome:
    out = Outcome()
    V = _V(out)
    _CUR.update(V=V, k=sum(ord(ch) for ch in repr(sorted(case.items()))), note=None)
    _PARTS[case["part"]](case, out, V)
    V.close()
    return out


def known_finding(case, viol):
    w = viol.get("what", "")
    if w.startswith("segment_set raised"):
        return "C30-segment_set-always-raises"
    return None
