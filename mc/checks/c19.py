"""C19 — computed grid geometry satisfies the divergence theorem.

Engine E: every grid of the group-G alphabet (Cartesian, tensor, structured and Delaunay
simplex grids, hand-written polygonal / concave / disjoint / mixed-orientation grids,
the polytopal test grids; 1-d, 2-d, 3-d) x every assignment of lattice offsets
{0,+-1/4}^dim to at most k interior nodes (for 3-d Cartesian / tensor grids additionally
to whole vertical node columns, which keeps all faces planar but makes the horizontal
faces general quadrilaterals) x a fixed set of embeddings (rigid motions for
1-d / 2-d grids, affine maps for 3-d grids).  On each grid ``compute_geometry`` is run
and the identities of the property are evaluated with dense numpy:

    volumes > 0, sum = closed-form domain measure; |n_f| = area_f; sum_f s_cf n_f = 0;
    n_f . (x_f - x_c) s_cf > 0 (convex cells);
    planar faces: sum_f s_cf x_f.n_f = dim |c|; sum_f s_cf x_f (x_f.n_f) = (dim+1)|c| x_c
    (origin = node 0 of the grid, i.e. on its line / plane); face area and face centre
    equal the polygon area / centroid computed from the node coordinates by a fan
    triangulation.

Scale axis: every letter (and every single-node perturbation) is also run with all node
coordinates multiplied by s in {1e-4, 1e-2, 1e3}, and three tensor letters are strongly
graded (one cell 10^3..10^4 times smaller than its neighbour): absolute constants hidden
in the geometry code show up there.  All tolerances are relative to the grid size.

Non-convex 2-d letters (four tensor grids whose central node is moved deep into one cell,
making it a dart whose vertex average lies outside the cell, and the two concave hand
letters) are run mirrored in x / y / both, shifted, embedded and scaled by
s in {1e-7, 1e-6, 1e-3, 1, 1e3, 1e6}: the legacy convex-cell fall-back of the 2-d geometry
must not be entered for a consistently oriented grid at any scale.

Node-perturbed hexahedra have non-planar faces: only the identities that do not
presuppose planarity are demanded there.
"""

from __future__ import annotations

import itertools
import warnings

import numpy as np

from mc.core import Outcome
from mc.oracles import grpG_grids as G

PROPERTY = "C19"
LEVEL = "exploration"
RULE = (
    "one case = (grid letter, embedding, first perturbed interior node and its offset | "
    "unperturbed); the case enumerates every assignment of non-zero lattice offsets to "
    "further interior nodes of higher index up to the tier's node count; perturbations "
    "that make a cell invalid (decided in exact rational arithmetic) are skipped and "
    "counted; non-trivial = the grid is not an axis-aligned Cartesian/tensor grid in "
    "reference position (perturbed, simplex, polygonal, affine image or embedded); "
    "distinct by full spec"
)
ASSUMPTIONS = [
    "domain measure is known in closed form because only interior nodes are moved",
    "outward orientation n.(x_f-x_c)s>0 is demanded for convex cells only (concave and "
    "polytopal letters skip it)",
    "perturbed hexahedra (non-planar faces): only volumes>0, sum of volumes, sum s n = 0 "
    "and outward orientation are demanded; offsets of 1/4 spacing keep them valid",
    "tolerance 1e-12 relative to L^k, L = max(extent of the grid from the origin node, "
    "largest absolute coordinate), no absolute floor, so every physical scale is judged "
    "alike; measured floor 2e-15; sign conditions (volume > 0, outward) are strict",
    "compute_geometry may only write the five geometry fields: nodes, both incidence "
    "matrices and all tags must be bitwise unchanged",
]
BOUNDS = {
    "quick": "37 grid letters (<=72 cells); offsets {0,+-1/4}^dim on <=2 interior nodes (and on <=2 interior node columns of 3-d Cartesian/tensor letters); 3 embeddings (1-d/2-d) / 3 affine maps (3-d); scale axis s in {1e-4,1e-2,1,1e3} on every unperturbed and singly perturbed grid; 3 graded tensor grids with cell-size ratios 1e3..1e4; 6 non-convex 2-d letters x 4 mirrors x 3 shifts x 2 embeddings x scales {1e-7,1e-6,1e-3,1,1e3,1e6}",
    "thorough": "41 grid letters (<=72 cells); offsets on <=3 interior nodes in 1-d/2-d, <=2 in 3-d (and <=2 node columns); 5 embeddings / 3 affine maps; same scale axis",
}
MIN_CLASSES = 6
CHUNK = 16
TOL = 1e-12

EMBED = {
    "quick": [None, ["q1", "t1"], ["c7", "t2"]],
    "thorough": [None, ["q1", "t1"], ["c7", "t2"], ["q2", "t0"], ["c14", "t1"]],
}
AFF3 = [None, "shear", "skew"]


def _variants(spec, tier):
    d = G.spec_dim(spec)
    if d < 3:
        for m in EMBED[tier]:
            yield dict(spec, motion=m) if m else dict(spec)
    else:
        for a in AFF3:
            yield dict(spec, affine=a) if a else dict(spec)


def cases(tier):
    out = []
    for name, spec in G.base_specs(tier):
        d = G.spec_dim(spec)
        kmax = 2 if (tier == "quick" or d == 3) else 3
        inner = G.interior_nodes(G.build(spec)) if G.perturbable(spec) else []
        for v in _variants(spec, tier):
            out.append({"name": name, "spec": v, "first": None, "kmax": kmax})
            for i in inner:
                for off in G.lattice_offsets(d):
                    out.append({"name": name, "spec": v, "first": [i, off], "later": [j for j in inner if j > i], "kmax": kmax})
            # scale axis: the same grid (and every single-node perturbation of it) with
            # all node coordinates multiplied by s
            for sc in G.SCALES:
                vs = dict(v, scale=sc)
                out.append({"name": name, "spec": vs, "first": None, "kmax": 1})
                if inner:
                    out.append({"name": name, "spec": vs, "first": None, "kmax": 1, "singles": inner})
            if d == 3 and spec["kind"] in ("cart", "tensor") and G.perturbable(spec):
                cols = G.interior_columns(spec)
                for i in cols:
                    for off in G.lattice_offsets(2):
                        out.append({"name": name, "spec": v, "firstcol": [i, off], "first": None, "later": [j for j in cols if j > i], "kmax": 2})
    # non-convex (dart) 2-d letters over six decades of scale, mirrored and shifted
    for name, v in G.dart_specs():
        out.append({"name": name, "spec": v, "first": None, "kmax": 1})
    return out


def _perts(case):
    """All perturbations of this case: the first one alone, and extended by every
    assignment of non-zero offsets to up to kmax-1 later nodes."""
    if case.get("firstcol") is not None:
        offs2 = G.lattice_offsets(2)
        yield ("colpert", [case["firstcol"]])
        for j in case["later"]:
            for o in offs2:
                yield ("colpert", [case["firstcol"], [j, o]])
        return
    if case.get("singles"):
        for i in case["singles"]:
            for off in G.lattice_offsets(G.spec_dim(case["spec"])):
                yield [[i, off]]
        return
    if case["first"] is None:
        yield []
        return
    d = G.spec_dim(case["spec"])
    offs = G.lattice_offsets(d)
    first = [case["first"]]
    yield first
    later = case["later"]
    for k in range(1, case["kmax"]):
        for nodes in itertools.combinations(later, k):
            for combo in itertools.product(offs, repeat=k):
                yield first + [[n, o] for n, o in zip(nodes, combo)]


def evaluate(spec, out: Outcome, name=""):
    """Build, compute geometry, test the identities. Returns the observation class."""
    d = G.spec_dim(spec)
    if not G.perturbation_valid(spec):
        out.ev(f"skipped:invalid-cell/{d}d")
        return
    planar = G.planar_faces(spec)
    convex = G.all_convex(spec)
    try:
        g = G.build(spec)
        with warnings.catch_warnings(record=True) as w:
            warnings.simplefilter("always")
            with G.Pure(out, "compute_geometry", [g], allow=G.GEOM_FIELDS, spec=spec) as pure:
                g.compute_geometry()
        fallback = any("Orientations are inconsistent" in str(x.message) for x in w)
    except Exception as e:
        out.violate("compute_geometry raised on a valid grid", spec=spec, error=repr(e))
        out.ev("VIOLATION")
        return
    res, signs = G.divergence_defects(g, g.nodes[:, 0].copy(), G.domain_measure(spec), planar=planar, convex=convex)
    bad = bool(pure.changed)
    for key, lst in signs.items():
        if lst:
            out.violate(f"{key}", spec=spec, where=lst[:5], volumes=g.cell_volumes)
            bad = True
    for nm, defect, scale, where in res:
        if not defect <= TOL * scale:
            out.violate(f"identity {nm} violated", spec=spec, defect=defect, scale=scale, where=where, tol=TOL)
            bad = True
    trivial = spec["kind"] in ("cart", "tensor") and not (spec.get("pert") or spec.get("colpert") or spec.get("affine") or spec.get("motion"))
    cls = (
        f"{d}d/{spec['kind']}/{'col' if spec.get('colpert') else 'pert'}{len(spec.get('pert', []) or spec.get('colpert', []))}/"
        f"{'ref' if not (spec.get('motion') or spec.get('affine')) else ('emb' if spec.get('motion') else 'affine')}/"
        f"{'fallback' if fallback else 'oriented'}/{'planar' if planar else 'nonplanar'}"
        f"{'' if spec.get('scale') is None else '/scale%g' % spec['scale']}"
        f"{'' if convex else '/nonconvex'}"
    )
    out.ev("VIOLATION" if bad else cls, None if trivial else repr(sorted(spec.items(), key=str)))
    if not bad and len(out.samples) < 1 and (spec.get("pert") or spec.get("colpert")):
        out.samples.append({"grid": name, "spec": spec, "worst_relative_defect": max(r[1] / r[2] for r in res)})


def run_case(case) -> Outcome:
    out = Outcome()
    for pert in _perts(case):
        spec = dict(case["spec"])
        if isinstance(pert, tuple):
            spec["colpert"] = pert[1]
        elif pert:
            spec["pert"] = pert
        evaluate(spec, out, case["name"])
    return out


def known_finding(case, viol):
    return None
