"""C39 — boundary condition objects partition the boundary faces.

Engine E: every subset of a face window of every grid of the alphabet is passed to the
constructors of ``BoundaryCondition`` and ``BoundaryConditionVectorial`` as an index
array (increasing and decreasing order) and as a boolean mask, with the condition given
as one string and as every per-face list over {dir, neu, rob}; plus duplicate indices,
masks of the wrong size, lists of the wrong length and unknown keywords.

Engine H: explicit-state BFS over histories of ``BoundaryConditionVectorial.set_bc``
calls (and ``internal_to_dirichlet`` on split fractured grids) below every constructor
call of the H alphabet. The reference model is a dict face -> set of assigned types.

Oracle (independent of params/bc.py): a face with exactly one neighbouring cell in the
cell-face incidence is a boundary face (both sides of a split fracture included), a face
with two neighbours is an interior non-fracture face. In every reached object every
boundary face carries exactly one of is_dir / is_neu / is_rob (per component for the
vectorial class), interior faces carry none, never-assigned boundary faces are Neumann,
and a face all of whose assignments name the same type carries that type. Which type
wins when one face is assigned different types is NOT checked (not in the statement).
"""

from __future__ import annotations

import itertools

import numpy as np

from mc.core import Outcome, bfs, jsonable
from mc.oracles import grpL_bc as B

PROPERTY = "C39"
LEVEL = "model_checking"
RULE = (
    "E: all subsets of the face window x {index array, reversed index array, mask} x "
    "{one string, every per-face list up to the stated length}; H: BFS over set_bc / "
    "internal_to_dirichlet histories below each constructor call, one case = (grid, "
    "constructor arguments); de-duplicated on (flag arrays, per-face reference status). "
    "Non-trivial = an accepted assignment in which at least two different condition types "
    "occur (in one call or along the history); distinct by (grid, class, arguments) for E "
    "and by (grid, flags, reference status) for H"
)
ASSUMPTIONS = [
    "boundary face = exactly one neighbouring cell in cell_faces; interior = two",
    "index arrays are int64, masks are bool; condition keywords are lower case",
    "for invalid arguments (interior face, mask of wrong size, list of wrong length, unknown "
    "keyword) any exception counts as the required rejection; after a rejected set_bc the "
    "partition invariant is still demanded, but nothing about the faces named in the call",
    "which type wins when a face is assigned two different types is not checked",
    "BoundaryConditionVectorial is only used on grids of dimension >= 2",
]
BOUNDS = {
    "quick": "12 grids; constructor: every subset of the window (<= 12 faces), per-face lists for "
             "subsets of <= 3 faces; H: 5 constructor calls x set_bc histories of length <= 3 on 8 grids",
    "thorough": "12 grids; constructor: every subset of the window, per-face lists for subsets of "
                "<= 6 faces; H: every constructor call of the H alphabet x histories of length <= 4",
}
MIN_CLASSES = 6
CHUNK = 8

T = B.TYPES
H_GRIDS = ["C22", "T11", "C222", "F2a", "F2x", "F3a", "F2b", "S2"]
E_BLOCK = 128


# ----------------------------------------------------------------------------- alphabet


def _h_ops(has_i: bool, has_frac: bool):
    ops = []
    for form in ("idx", "mask"):
        for f in (["a"], ["b"]):
            for t in T:
                ops.append([form, f, t])
        for t in T:
            ops.append([form, ["a", "b"], t])
        for t1 in T:
            for t2 in T:
                ops.append([form, ["a", "b"], [t1, t2]])
        ops.append([form, [], "dir"])
    for t1 in T:
        for t2 in T:
            ops.append(["idx", ["b", "a"], [t1, t2]])
            ops.append(["idx", ["a", "a"], [t1, t2]])
    ops.append(["none", [], None])
    # invalid calls
    ops.append(["idx", ["a"], ["dir", "dir"]])
    ops.append(["idx", ["a", "b"], ["rob"]])
    ops.append(["idx", ["a", "b"], ["dir", "xyz"]])
    ops.append(["badmask", ["a"], "dir"])
    if has_i:
        ops.append(["idx", ["i"], "dir"])
        ops.append(["idx", ["a", "i"], "rob"])
        ops.append(["mask", ["b", "i"], "dir"])
    if has_frac:
        ops.append(["i2d", [], None])
    return ops


_QUICK_CTORS = [
    ["none", [], None],
    ["idx", ["a"], "rob"],
    ["mask", ["b"], "dir"],
    ["idx", ["a", "b"], ["rob", "dir"]],
    ["mask", ["a", "b"], "rob"],
]

# which grids have an interior face / fracture faces (static, so that cases() stays cheap)
_HAS_I = {"C22": True, "T11": True, "C222": True, "F2a": True, "F2x": False, "F3a": True, "F2b": False, "S2": True}
_HAS_FRAC = {"C22": False, "T11": False, "C222": False, "F2a": True, "F2x": True, "F3a": True, "F2b": False, "S2": True}
# window sizes (checked against the real grids in run_case)
_WSIZE = {"C22": 12, "T11": 5, "T22": 8, "C222": 8, "F2a": 10, "F1a": 2, "F2x": 8, "F1x": 4,
          "F0x": 0, "F3a": 10, "F2b": 4, "S2": 10}
_DIM = {"C22": 2, "T11": 2, "T22": 2, "C222": 3, "F2a": 2, "F1a": 1, "F2x": 2, "F1x": 1, "F0x": 0,
        "F3a": 3, "F2b": 2, "S2": 2}


def cases(tier):
    out = []
    lmax = {"quick": 3, "thorough": 6}[tier]
    for g in B.GRID_NAMES:
        for cls in ("s", "v"):
            if cls == "v" and _DIM[g] < 2:
                continue
            n = 2 ** _WSIZE[g]
            for lo in range(0, n, E_BLOCK):
                out.append({"kind": "E", "grid": g, "cls": cls, "lo": lo, "hi": min(n, lo + E_BLOCK), "lmax": lmax})
    depth = {"quick": 3, "thorough": 4}[tier]
    for g in H_GRIDS:
        ops = _h_ops(_HAS_I[g], _HAS_FRAC[g])
        ctors = _QUICK_CTORS if tier == "quick" else [op for op in ops if op[0] != "i2d"]
        for c in ctors:
            out.append({"kind": "H", "grid": g, "ctor": c, "depth": depth})
    return out


# ----------------------------------------------------------------------------- semantics


def _resolve(op, L):
    return [L[x] if isinstance(x, str) else int(x) for x in op[1]]


def _op_valid(op, faces, bnd):
    form, _, cond = op
    if form in ("none", "i2d"):
        return True
    if form == "badmask":
        return False
    if any(not bnd[f] for f in faces):
        return False
    n = len(set(faces)) if form == "mask" else len(faces)
    if isinstance(cond, str):
        return cond in T or n == 0
    return len(cond) == n and all(c in T for c in cond)


def _pairs(op, faces):
    """(face, type) pairs in the order in which the call assigns them."""
    form, _, cond = op
    if form in ("none", "i2d"):
        return []
    fs = sorted(set(faces)) if form == "mask" else list(faces)
    cs = [cond] * len(fs) if isinstance(cond, str) else list(cond)
    return list(zip(fs, cs))


def _array(op, faces, nf):
    form = op[0]
    if form == "idx":
        return np.array(faces, dtype=np.int64)
    arr = np.zeros(nf + (1 if form == "badmask" else 0), dtype=bool)
    arr[faces] = True
    return arr


def _status(assigned, faces_of_interest):
    out = []
    for f in faces_of_interest:
        s = assigned.get(f)
        out.append(None if s is None else (next(iter(s)) if len(s) == 1 else "mixed"))
    return tuple(out)


# ----------------------------------------------------------------------------- engine E


def _construct(sd, vect, arr, cond):
    import porepy as pp

    cls = pp.BoundaryConditionVectorial if vect else pp.BoundaryCondition
    if arr is None:
        return cls(sd)
    return cls(sd, arr, cond)


def _eval_ctor(out, sd, gname, vect, bnd, inner, op, why_invalid=None):
    faces = _resolve(op, {})
    valid = _op_valid(op, faces, bnd)
    tag = "v" if vect else "s"
    try:
        bc = _construct(sd, vect, None if op[0] == "none" else _array(op, faces, sd.num_faces), op[2])
    except Exception as e:
        if valid:
            out.violate("constructor raised on a valid assignment", grid=gname, vectorial=vect, op=op, error=repr(e))
            out.ev("VIOLATION")
        else:
            out.ev(f"{tag}/rejected:{type(e).__name__}/{why_invalid or 'invalid'}")
        return
    if not valid:
        # A silently accepted invalid call is only harmless if it cannot have set anything.
        out.violate("constructor accepted an invalid assignment", grid=gname, vectorial=vect, op=op,
                    why=why_invalid or "invalid")
        out.ev("VIOLATION")
        return
    fl = B.flags(bc, vect, sd.dim)
    if isinstance(fl, str):
        out.violate(fl, grid=gname, vectorial=vect, op=op)
        out.ev("VIOLATION")
        return
    assigned: dict = {}
    for f, t in _pairs(op, faces):
        assigned.setdefault(f, set()).add(t)
    bad = B.check_partition(fl, bnd, inner, assigned)
    used = sorted({t for s in assigned.values() for t in s})
    if bad is not None:
        out.violate(bad[0], face=bad[1], dir_neu_rob=bad[2], grid=gname, vectorial=vect, op=op)
        out.ev("VIOLATION")
        return
    key = (gname, tag, op[0], tuple(faces), op[2] if isinstance(op[2], str) else tuple(op[2] or ())) if len(used) > 1 else None
    dup = len(set(faces)) < len(faces)
    out.ev(f"{tag}/ok/{op[0]}/{'str' if isinstance(op[2], str) else 'list'}/{'+'.join(used) or 'none'}"
           + ("/dup" if dup else ""), key)
    if key is not None and not out.samples and len(faces) >= 2:
        out.samples.append(jsonable({"grid": gname, "vectorial": vect, "op": op,
                                     "is_dir": fl[0], "is_neu": fl[1], "is_rob": fl[2]}))


def _run_E(case, out):
    gname, vect, lmax = case["grid"], case["cls"] == "v", case["lmax"]
    sd = B.grid(gname)
    W = B.window(sd)
    if len(W) != _WSIZE[gname] or sd.dim != _DIM[gname]:
        raise RuntimeError(f"window/dimension table out of date for {gname}: {len(W)}, {sd.dim}")
    bnd, inner = B.face_kinds(sd)

    def ev(op, why=None):
        _eval_ctor(out, sd, gname, vect, bnd, inner, op, why)

    for idx in range(case["lo"], case["hi"]):
        S = [W[k] for k in range(len(W)) if (idx >> k) & 1]
        ok = all(bnd[f] for f in S)
        why = None if ok else "interior"
        for form in ("idx", "mask"):
            for t in T:
                ev([form, S, t], why)
        if ok and S:
            ev(["idx", S, "xyz"], "keyword")
            ev(["idx", S, ["dir"] * (len(S) + 1)], "length")
            ev(["mask", S, ["rob"] * (len(S) - 1)], "length")
        if ok and 1 <= len(S) <= lmax:
            for conds in itertools.product(T, repeat=len(S)):
                ev(["idx", S, list(conds)])
                ev(["mask", S, list(conds)])
                if len(S) > 1:
                    ev(["idx", S[::-1], list(conds)])
        elif not ok and len(S) <= 2:
            for conds in itertools.product(T, repeat=len(S)):
                ev(["idx", S, list(conds)], "interior")
    if case["lo"] == 0:
        ev(["none", [], None])
        ev(["idx", [], []])
        ev(["badmask", [], "dir"], "masksize")
        bf = [f for f in W if bnd[f]]
        for f in bf[:1]:
            ev(["badmask", [f], "dir"], "masksize")
        if sd.num_faces > 0:
            # mask one entry too short
            try:
                _construct(sd, vect, np.zeros(sd.num_faces - 1, dtype=bool), "rob")
                out.violate("constructor accepted a mask of the wrong size", grid=gname, vectorial=vect,
                            size=sd.num_faces - 1)
                out.ev("VIOLATION")
            except Exception as e:
                out.ev(f"{'v' if vect else 's'}/rejected:{type(e).__name__}/masksize")
        for f in bf:
            for t1 in T:
                for t2 in T:
                    ev(["idx", [f, f], [t1, t2]])
        for f, g in zip(bf[:2], bf[1:3]):
            for conds in itertools.product(T, repeat=3):
                ev(["idx", [f, g, f], list(conds)])


# ----------------------------------------------------------------------------- engine H


def _run_H(case, out):
    import porepy as pp

    gname = case["grid"]
    sd = B.grid(gname)
    bnd, inner = B.face_kinds(sd)
    L = B.letters(sd)
    if (L["i"] is not None) != _HAS_I[gname] or bool(L["frac"]) != _HAS_FRAC[gname]:
        raise RuntimeError(f"letter table out of date for {gname}")
    ops = _h_ops(_HAS_I[gname], _HAS_FRAC[gname])
    ctor = case["ctor"]
    interest = sorted({L["a"], L["b"], *L["frac"]})
    nf = sd.num_faces

    def step_ref(assigned, op, faces, valid):
        if op[0] == "i2d":
            for f in L["frac"]:
                assigned.setdefault(f, set()).add("dir")
        elif valid:
            for f, t in _pairs(op, faces):
                assigned.setdefault(f, set()).add(t)
        else:
            # rejected call: nothing is promised about the faces it names
            for f in faces:
                if bnd[f]:
                    assigned.setdefault(f, set()).update(T)

    def build(hist):
        h = (ctor,) + tuple(hist)
        assigned: dict = {}
        faces = _resolve(ctor, L)
        valid = _op_valid(ctor, faces, bnd)
        try:
            bc = _construct(sd, True, None if ctor[0] == "none" else _array(ctor, faces, nf), ctor[2])
        except Exception as e:
            if valid:
                return ("bad", "constructor raised on a valid assignment", repr(e), h)
            return ("ctor-rejected", type(e).__name__, None, h)
        if not valid:
            return ("bad", "constructor accepted an invalid assignment", None, h)
        step_ref(assigned, ctor, faces, True)
        last = "ok"
        for op in hist:
            faces = _resolve(op, L)
            valid = _op_valid(op, faces, bnd)
            try:
                if op[0] == "none":
                    bc.set_bc(None, None)
                elif op[0] == "i2d":
                    bc.internal_to_dirichlet(sd)
                else:
                    bc.set_bc(_array(op, faces, nf), op[2])
                raised = None
            except Exception as e:
                raised = e
            if valid and raised is not None:
                return ("bad", "set_bc raised on a valid assignment", repr(raised), h)
            if not valid and raised is None:
                return ("bad", "set_bc accepted an invalid assignment", None, h)
            step_ref(assigned, op, faces, valid)
            last = "ok" if raised is None else "rejected:" + type(raised).__name__
        return ("state", bc, assigned, h, last)

    def enabled(st, hist):
        return ops if st[0] == "state" else []

    def canon(st):
        if st[0] != "state":
            return (st[0], st[1])
        bc, assigned = st[1], st[2]
        return (bc.is_dir.tobytes(), bc.is_neu.tobytes(), bc.is_rob.tobytes(), _status(assigned, interest))

    def observe(st):
        if st[0] != "state":
            return st[0]
        bc = st[1]
        return (bc.is_dir.shape, tuple(map(tuple, bc.is_dir[:, interest])), tuple(map(tuple, bc.is_neu[:, interest])),
                tuple(map(tuple, bc.is_rob[:, interest])), bc.robin_weight.tobytes(), bc.basis.tobytes())

    def check(st, hist, o: Outcome):
        if st[0] == "bad":
            o.violate(st[1], error=st[2], grid=gname, history=st[3], letters=L)
            o.ev("VIOLATION")
            return
        if st[0] == "ctor-rejected":
            o.ev("H/ctor-rejected:" + st[1])
            return
        _, bc, assigned, h, last = st
        fl = B.flags(bc, True, sd.dim)
        if isinstance(fl, str):
            o.violate(fl, grid=gname, history=h, letters=L)
            o.ev("VIOLATION")
            return
        bad = B.check_partition(fl, bnd, inner, assigned)
        if bad is not None:
            o.violate(bad[0], face=bad[1], dir_neu_rob=bad[2], grid=gname, history=h, letters=L)
            o.ev("VIOLATION")
            return
        stat = _status(assigned, interest)
        mixed = any(s == "mixed" for s in stat) or len({s for s in stat if s}) > 1
        key = (gname, bc.is_dir.tobytes(), bc.is_rob.tobytes(), stat) if mixed else None
        kinds = sorted({("mixed" if s == "mixed" else "single") for s in stat if s}) or ["untouched"]
        o.ev(f"H/{last}/{'+'.join(kinds)}", key)
        if mixed and len(h) >= 3 and not o.samples:
            o.samples.append(jsonable({"grid": gname, "letters": L, "history": list(h), "is_dir": fl[0],
                                       "is_neu": fl[1], "is_rob": fl[2]}))

    bfs(build=build, enabled=enabled, canon=canon, check=check, observe=observe,
        max_depth=case["depth"], out=out, label=f"C39 {gname} ctor={ctor}")


def run_case(case) -> Outcome:
    import warnings

    warnings.filterwarnings("ignore")
    out = Outcome()
    if case["kind"] == "E":
        _run_E(case, out)
    else:
        _run_H(case, out)
    return out


def known_finding(case, viol):
    # set_bc("dir") and internal_to_dirichlet not clearing is_rob were fixed in /repo; nothing is known.
    return None
