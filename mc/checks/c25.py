"""C25 — fractured mixed-dimensional grids are geometrically conforming.

Engine E: every fracture network of a lattice alphabet (2-d line fractures with end points
on the 5x5 lattice of the unit square; 3-d axis-aligned rectangles on the 3x3x3 lattice of
the unit cube) is meshed with the real meshers (Cartesian where the network is
axis-aligned, gmsh simplices with two mesh sizes) and every interface of the resulting
md-grid is inspected:

* each mortar cell couples exactly one host face and one lower-dimensional cell, each
  mortar side is a bijection onto the lower-dimensional cells with equal centres and
  measures; a lower-dimensional cell has one host face per side (2-d networks: two sides,
  except a 0-d point that is an end point of the 1-d fracture: one side);
* the coupled faces are split faces (one neighbour cell) that coincide with the cell in
  centre and measure; on two-sided interfaces their outward normals are opposite;
* ``tags['fracture_faces']`` of every host marks exactly its coupled faces;
* the volume of the top-dimensional grid equals the domain volume;
* lower-dimensional grids lie on an input fracture (resp. on an exact intersection).
"""

from __future__ import annotations

import itertools
from fractions import Fraction

import numpy as np

from mc.core import Outcome

PROPERTY = "C25"
LEVEL = "exploration"
RULE = (
    "2-d: all single segments with lattice end points (k/4) and direction in {(1,0),(0,1),(1,+-1),"
    "(2,+-1),(1,+-2)} not lying in the domain boundary; all pairs / selected triples of a "
    "representative set of 14 segments except collinear-overlapping ones (X, T, L, disjoint, "
    "touching-collinear, boundary-touching, boundary-to-boundary); 3-d: all single axis-aligned "
    "lattice rectangles not in the boundary, selected pairs/triples; every network meshed "
    "Cartesian (if axis-aligned) and simplex; axis-aligned networks additionally on tensor grids with "
    "NON-UNIFORM node coordinates (x=[0,.1,.3,.7,1], y=[0,.25,.4,.85,1]; 3-d [0,.2,1]x[0,.6,1]x[0,.35,1]), "
    "fractures given by the coordinates of grid lines / planes; non-trivial = md-grid with >= 1 interface; "
    "distinct by (network, mesher, mesh size)"
)
ASSUMPTIONS = [
    "geometric tolerance 1e-9 on the unit domain (lattice data exact; gmsh coordinates ~1e-13)",
    "every network of the alphabet is non-degenerate and is meshed by the reference tree; an exception of "
    "the mesher is reported as a violation (import errors are harness errors)",
    "expected number of sides of a 1d-0d coupling in 2-d networks from exact rational arithmetic: "
    "2 if the point is interior to the fracture, 1 if it is an end point",
    "corner-touching fractures and fractures inside the domain boundary are not in the alphabet",
]
BOUNDS = {
    "quick": "2-d: 150 singles (Cartesian for the axis-aligned ones; simplex h=0.5, 0.3), all admissible pairs of 14 "
    "segments, triples of 8 segments (simplex h=0.5 + Cartesian); 3-d: 27 single rectangles, 9 pairs, 2 triples "
    "Cartesian 2x2x2, 3 networks simplex",
    "thorough": "as quick, pairs and triples with both simplex sizes, triples of all 14 segments; 3-d: all networks "
    "also simplex h=0.5 and Cartesian 4x4x4",
}
MIN_CLASSES = 6
CHUNK = 8
TOL = 1e-9

DIRS = [(1, 0), (0, 1), (1, 1), (1, -1), (2, 1), (2, -1), (1, 2), (1, -2)]


def _singles():
    out = []
    for dx, dy in DIRS:
        for k in range(1, 5):
            for x0 in range(5):
                for y0 in range(5):
                    x1, y1 = x0 + k * dx, y0 + k * dy
                    if not (0 <= x1 <= 4 and 0 <= y1 <= 4):
                        continue
                    if (x0 == x1 and x0 in (0, 4)) or (y0 == y1 and y0 in (0, 4)):
                        continue  # inside the domain boundary
                    if (x0, y0) in CORNERS or (x1, y1) in CORNERS:
                        continue
                    out.append([[x0, y0], [x1, y1]])
    return out


CORNERS = {(0, 0), (0, 4), (4, 0), (4, 4)}

REP = [
    [[1, 2], [3, 2]], [[0, 2], [4, 2]], [[0, 1], [2, 1]], [[2, 2], [4, 2]], [[2, 1], [2, 3]], [[2, 0], [2, 4]],
    [[2, 2], [2, 3]], [[3, 2], [3, 4]], [[1, 1], [3, 3]], [[1, 3], [3, 1]], [[2, 2], [3, 3]], [[1, 3], [3, 3]],
    [[1, 1], [1, 3]], [[0, 3], [2, 1]],
]


def _cross(ax, ay, bx, by):
    return ax * by - ay * bx


def _rel(s, t):
    """Exact relation of two lattice segments: 'disjoint', 'overlap' (collinear, sharing more
    than a point) or a point-type in {'X','T','L','touch-collinear'} with the point."""
    (p, q), (r, u) = s, t
    p, q, r, u = [tuple(Fraction(c) for c in z) for z in (p, q, r, u)]
    d1 = (q[0] - p[0], q[1] - p[1])
    d2 = (u[0] - r[0], u[1] - r[1])
    den = _cross(*d1, *d2)
    w = (r[0] - p[0], r[1] - p[1])
    if den == 0:
        if _cross(*w, *d1) != 0:
            return "disjoint", None
        # collinear: parametrise on s
        dd = d1[0] * d1[0] + d1[1] * d1[1]
        a = (w[0] * d1[0] + w[1] * d1[1]) / dd
        b = ((u[0] - p[0]) * d1[0] + (u[1] - p[1]) * d1[1]) / dd
        lo, hi = max(0, min(a, b)), min(1, max(a, b))
        if lo > hi:
            return "disjoint", None
        if lo == hi:
            return "touch-collinear", (p[0] + lo * d1[0], p[1] + lo * d1[1])
        return "overlap", None
    a = _cross(*w, *d2) / den
    b = _cross(*w, *d1) / den
    if not (0 <= a <= 1 and 0 <= b <= 1):
        return "disjoint", None
    pt = (p[0] + a * d1[0], p[1] + a * d1[1])
    ea, eb = a in (0, 1), b in (0, 1)
    return ("L" if ea and eb else "T" if ea or eb else "X"), pt


def _admissible(fracs):
    for s, t in itertools.combinations(fracs, 2):
        if _rel(s, t)[0] == "overlap":
            return False
    return True


def _axis(fr):
    return all(s[0][0] == s[1][0] or s[0][1] == s[1][1] for s in fr)


# ---- 3-d rectangles: (axis, level, (a0,a1), (b0,b1)) in lattice units 0..2
def _rect(axis, lev, ra, rb):
    return {"axis": axis, "lev": lev, "ra": list(ra), "rb": list(rb)}


RANGES = [(0, 1), (1, 2), (0, 2)]


def _singles3():
    return [[_rect(ax, 1, ra, rb)] for ax in range(3) for ra in RANGES for rb in RANGES]


def _multi3():
    full = (0, 2)
    X = [_rect(2, 1, full, full), _rect(0, 1, full, full)]
    out = [
        X,
        [_rect(2, 1, full, full), _rect(0, 1, full, (1, 2))],  # T: ends on the first
        [_rect(2, 1, (0, 1), full), _rect(0, 1, full, (1, 2))],  # L
        [_rect(2, 1, (0, 1), (0, 1)), _rect(0, 1, (1, 2), (1, 2))],  # touching in a line segment end / disjoint
        [_rect(2, 1, full, full), _rect(1, 1, full, full)],
        [_rect(2, 1, (0, 1), full), _rect(1, 1, full, full)],
        [_rect(2, 1, full, (0, 1)), _rect(0, 1, (0, 1), full)],
        [_rect(1, 1, full, (1, 2)), _rect(0, 1, full, full)],
        [_rect(2, 1, (1, 2), (1, 2)), _rect(0, 1, full, full)],
    ]
    triples = [
        [_rect(2, 1, full, full), _rect(0, 1, full, full), _rect(1, 1, full, full)],
        [_rect(2, 1, full, full), _rect(0, 1, full, (1, 2)), _rect(1, 1, full, full)],
    ]
    return out, triples


def cases(tier):
    out = []
    q = tier == "quick"
    sx = [["simplex", 0.5], ["simplex", 0.3]]
    for s in _singles():
        meshes = list(sx) + ([["cart", 4]] if _axis([s]) else [])
        out.append({"dim": 2, "fracs": [s], "meshes": meshes})
    for a, b in itertools.combinations(REP, 2):
        if _admissible([a, b]):
            meshes = (sx[:1] if q else list(sx)) + ([["cart", 4]] if _axis([a, b]) else [])
            out.append({"dim": 2, "fracs": [a, b], "meshes": meshes})
    trip_src = REP[:8] if q else REP
    for tr in itertools.combinations(trip_src, 3):
        if _admissible(list(tr)):
            meshes = (sx[:1] if q else list(sx)) + ([["cart", 4]] if _axis(list(tr)) else [])
            out.append({"dim": 2, "fracs": [list(map(list, s)) for s in tr], "meshes": meshes})
    # tensor grids with non-uniform node coordinates: all axis-aligned single fractures on
    # interior grid lines, all admissible pairs of the axis-aligned representative segments
    tco = {"coords": [TX, TY]}
    for sgm in _singles():
        if _axis([sgm]):
            out.append({"dim": 2, "fracs": [sgm], "meshes": [["tensor", 0]], **tco})
    axis_rep = [r for r in REP if _axis([r])]
    for a, b in itertools.combinations(axis_rep, 2):
        if _admissible([a, b]):
            out.append({"dim": 2, "fracs": [a, b], "meshes": [["tensor", 0]], **tco})
    for tr in itertools.combinations(axis_rep[:6], 3):
        if _admissible(list(tr)):
            out.append({"dim": 2, "fracs": [list(map(list, x)) for x in tr], "meshes": [["tensor", 0]], **tco})
    pairs3, triples3 = _multi3()
    for fr in _singles3() + pairs3 + triples3:
        out.append({"dim": 3, "fracs": fr, "meshes": [["tensor", 0]], "coords": T3})
    simplex3 = {0, 4, 13} if q else None
    for i, fr in enumerate(_singles3() + pairs3 + triples3):
        meshes = [["cart", 2]] + ([] if q else [["cart", 4]])
        if simplex3 is None or i in simplex3 or (q and i == 27):
            meshes.append(["simplex", 0.5])
        out.append({"dim": 3, "fracs": fr, "meshes": meshes})
    return out


# ------------------------------------------------------------------ coordinates
# Lattice index -> coordinate. Default: uniform (k/4 in 2-d, k/2 in 3-d). Tensor-grid cases
# carry their own non-uniform node coordinates in case["coords"].
TX = [0.0, 0.1, 0.3, 0.7, 1.0]
TY = [0.0, 0.25, 0.4, 0.85, 1.0]
T3 = [[0.0, 0.2, 1.0], [0.0, 0.6, 1.0], [0.0, 0.35, 1.0]]


def _axis_coords(case):
    if "coords" in case:
        return [np.array(c, dtype=float) for c in case["coords"]]
    n, d = (5, 4.0) if case["dim"] == 2 else (3, 2.0)
    return [np.arange(n) / d for _ in range(case["dim"])]


def _seg(case, s):
    """End points (2-d) of a lattice segment in real coordinates."""
    cx, cy = _axis_coords(case)
    if "coords" in case:
        return np.array([cx[s[0][0]], cy[s[0][1]]]), np.array([cx[s[1][0]], cy[s[1][1]]])
    return np.array(s[0]) / 4.0, np.array(s[1]) / 4.0


# ------------------------------------------------------------------ meshing


def _mesh(case, mesh):
    import porepy as pp

    kind, par = mesh
    if case["dim"] == 2:
        dom = pp.Domain({"xmin": 0, "xmax": 1, "ymin": 0, "ymax": 1})
        pts = [np.array(_seg(case, s), dtype=float).T.copy() for s in case["fracs"]]
        fr = [pp.LineFracture(p) for p in pts]
    else:
        dom = pp.Domain({"xmin": 0, "xmax": 1, "ymin": 0, "ymax": 1, "zmin": 0, "zmax": 1})
        pts = [_rect_pts(r, _axis_coords(case)) for r in case["fracs"]]
        fr = [pp.PlaneFracture(p) for p in pts]
    before = [p.copy() for p in pts]
    if kind == "tensor":
        # non-uniform node coordinates, fractures on grid lines / planes
        mdg = pp.meshing.tensor_grid(pts, *_axis_coords(case))
        if any(not np.array_equal(a, b) for a, b in zip(before, pts)):
            raise ValueError("meshing modified the fracture point arrays passed by the caller")
        return mdg
    net = pp.create_fracture_network(fr, dom)
    if kind == "cart":
        mdg = pp.create_mdg("cartesian", {"cell_size": 1.0 / par}, net)
    else:
        mdg = pp.create_mdg("simplex", {"cell_size": par}, net)
    # the network meshed must be the network given: the caller's point arrays are inputs
    if any(not np.array_equal(a, b) for a, b in zip(before, pts)):
        raise ValueError("meshing modified the fracture point arrays passed by the caller")
    return mdg


def _rect_pts(r, co=None):
    if co is None:
        co = [np.arange(3) / 2.0] * 3
    ax = r["axis"]
    others = [i for i in range(3) if i != ax]
    a0, a1 = r["ra"]
    b0, b1 = r["rb"]
    pts = np.zeros((3, 4))
    pts[ax] = co[ax][r["lev"]]
    pts[others[0]] = co[others[0]][[a0, a1, a1, a0]]
    pts[others[1]] = co[others[1]][[b0, b0, b1, b1]]
    return pts


# ------------------------------------------------------------------ oracle


def _on_input(case, sd):
    """Does the lower-dimensional grid lie on the input fractures (coordinates only)?"""
    pts = sd.nodes if sd.dim > 0 else sd.cell_centers
    need = case["dim"] - sd.dim  # number of distinct fractures that must contain it
    hits = 0
    if case["dim"] == 2:
        for s in case["fracs"]:
            a, b = _seg(case, s)
            t = (b - a) / np.linalg.norm(b - a)
            rel = pts[:2] - a[:, None]
            sc = t @ rel
            dist = np.abs(rel[0] * t[1] - rel[1] * t[0])
            if np.all(dist < TOL) and np.all(sc > -TOL) and np.all(sc < np.linalg.norm(b - a) + TOL) and np.all(np.abs(pts[2]) < TOL):
                hits += 1
    else:
        co = _axis_coords(case)
        for r in case["fracs"]:
            ax = r["axis"]
            others = [i for i in range(3) if i != ax]
            ca, cb = co[others[0]], co[others[1]]
            ok = np.all(np.abs(pts[ax] - co[ax][r["lev"]]) < TOL)
            ok = ok and np.all(pts[others[0]] > ca[r["ra"][0]] - TOL) and np.all(pts[others[0]] < ca[r["ra"][1]] + TOL)
            ok = ok and np.all(pts[others[1]] > cb[r["rb"][0]] - TOL) and np.all(pts[others[1]] < cb[r["rb"][1]] + TOL)
            hits += bool(ok)
    return hits >= need


def _expected_sides_2d(case, prim, sec):
    """1d-0d coupling in a 2-d network: 2 if the point is interior to the fracture carrying
    ``prim``, 1 if it is one of its end points (exact, from the lattice data)."""
    p = sec.cell_centers[:2, 0]
    for s in case["fracs"]:
        a, b = _seg(case, s)
        t = (b - a) / np.linalg.norm(b - a)
        rel = prim.nodes[:2] - a[:, None]
        if np.all(np.abs(rel[0] * t[1] - rel[1] * t[0]) < TOL) and np.all(t @ rel > -TOL) and np.all(t @ rel < np.linalg.norm(b - a) + TOL):
            if np.linalg.norm(p - a) < TOL or np.linalg.norm(p - b) < TOL:
                return 1
            return 2
    return None


def _check_mdg(case, mdg):
    """Returns (problems, info)."""
    P = []
    top = mdg.dim_max()
    vol = sum(float(sd.cell_volumes.sum()) for sd in mdg.subdomains(dim=top))
    if abs(vol - 1.0) > TOL:
        P.append(f"volume of the {top}-d grid is {vol!r}, domain volume 1")
    for sd in mdg.subdomains():
        if sd.dim < top and not _on_input(case, sd):
            P.append(f"{sd.dim}-d grid with {sd.num_cells} cells does not lie on {top - sd.dim} input fracture(s)")
    coupled = {}
    sides_seen = []
    for intf in mdg.interfaces():
        prim, sec = mdg.interface_to_subdomain_pair(intf)
        tag = f"interface {prim.dim}d-{sec.dim}d"
        if intf.codim != 1 or prim.dim != sec.dim + 1:
            P.append(f"{tag}: unexpected codimension")
            continue
        Pi = np.asarray(intf.primary_to_mortar_int().todense())
        Si = np.asarray(intf.secondary_to_mortar_int().todense())
        cf = prim.cell_faces.tocsr()
        ncell_of_face = np.diff(cf.indptr)
        ns = intf.num_sides()
        sides_seen.append(ns)
        r0 = 0
        faces_of_cell = {c: [] for c in range(sec.num_cells)}
        for side, g in intf.side_grids.items():
            rows = np.arange(r0, r0 + g.num_cells)
            r0 += g.num_cells
            if g.num_cells != sec.num_cells:
                P.append(f"{tag}: side {side.name} has {g.num_cells} cells, lower-dimensional grid {sec.num_cells}")
                continue
            seen_cells = []
            for j, m in enumerate(rows):
                f = np.nonzero(Pi[m])[0]
                c = np.nonzero(Si[m])[0]
                if f.size != 1 or c.size != 1 or Pi[m, f[0]] != 1.0 or Si[m, c[0]] != 1.0:
                    P.append(f"{tag}: mortar cell {m} couples faces {f.tolist()} and cells {c.tolist()}")
                    continue
                f, c = int(f[0]), int(c[0])
                seen_cells.append(c)
                faces_of_cell[c].append(f)
                if np.linalg.norm(g.cell_centers[:, j] - sec.cell_centers[:, c]) > TOL or abs(g.cell_volumes[j] - sec.cell_volumes[c]) > TOL:
                    P.append(f"{tag}: mortar cell {m} differs from cell {c} in centre or size")
                if np.linalg.norm(prim.face_centers[:, f] - sec.cell_centers[:, c]) > TOL:
                    P.append(f"{tag}: face {f} centre {prim.face_centers[:, f].tolist()} != cell {c} centre {sec.cell_centers[:, c].tolist()}")
                if abs(prim.face_areas[f] - sec.cell_volumes[c]) > TOL:
                    P.append(f"{tag}: face {f} area {prim.face_areas[f]!r} != cell {c} volume {sec.cell_volumes[c]!r}")
                if ncell_of_face[f] != 1:
                    P.append(f"{tag}: coupled face {f} has {ncell_of_face[f]} neighbour cells (not split)")
            if sorted(seen_cells) != list(range(sec.num_cells)):
                P.append(f"{tag}: side {side.name} is not a bijection onto the lower-dimensional cells")
        for c, fs in faces_of_cell.items():
            if len(fs) != ns or len(set(fs)) != len(fs):
                P.append(f"{tag}: cell {c} is coupled to faces {fs} on {ns} side(s)")
            elif ns == 2:
                out_n = []
                for f in fs:
                    sgn = cf.data[cf.indptr[f]]
                    out_n.append(prim.face_normals[:, f] * sgn)
                if np.linalg.norm(out_n[0] + out_n[1]) > TOL * max(1.0, np.linalg.norm(out_n[0])):
                    P.append(f"{tag}: outward normals of faces {fs} are not opposite: {out_n[0].tolist()}, {out_n[1].tolist()}")
        if case["dim"] == 2:
            exp = 2 if sec.dim == 1 else _expected_sides_2d(case, prim, sec)
            if exp is not None and exp != ns:
                P.append(f"{tag}: {ns} side(s), expected {exp} from the network geometry")
        elif sec.dim == 2 and ns != 2:
            P.append(f"{tag}: {ns} side(s), expected 2")
        fc = mdg.interface_data(intf).get("face_cells")
        if fc is not None:
            patt = np.asarray((Si.T @ Pi) != 0)
            if fc.shape != patt.shape or not np.array_equal(np.asarray(fc.todense()) != 0, patt):
                P.append(f"{tag}: 'face_cells' differs from the coupling realised by the projections")
        coupled.setdefault(id(prim), (prim, set()))[1].update(f for fs in faces_of_cell.values() for f in fs)
    for sd in mdg.subdomains():
        tagged = set(np.where(sd.tags["fracture_faces"])[0].tolist())
        cpl = coupled.get(id(sd), (sd, set()))[1]
        if tagged != cpl:
            P.append(f"{sd.dim}-d grid: fracture_faces tags {sorted(tagged)[:8]} != coupled faces {sorted(cpl)[:8]}")
    info = {"n_sub": [len(mdg.subdomains(dim=d)) for d in range(top, -1, -1)], "sides": sorted(set(sides_seen))}
    return P, info


def _config(case):
    if case["dim"] == 3:
        return f"3d/{len(case['fracs'])}"
    fr = case["fracs"]
    if len(fr) == 1:
        (x0, y0), (x1, y1) = fr[0]
        nb = sum(1 for x, y in fr[0] if x in (0, 4) or y in (0, 4))
        kind = "axis" if x0 == x1 or y0 == y1 else "diag" if abs(x1 - x0) == abs(y1 - y0) else "oblique"
        return f"2d/1/{kind}/b{nb}"
    rel = sorted(_rel(a, b)[0] for a, b in itertools.combinations(fr, 2))
    return f"2d/{len(fr)}/" + "+".join(rel)


def run_case(case) -> Outcome:
    import porepy  # noqa: F401  (an import failure is a harness error, never a verdict)

    out = Outcome()
    cfg = _config(case)
    for mesh in case["meshes"]:
        try:
            mdg = _mesh(case, mesh)
        except (ImportError, SyntaxError, NameError):
            raise
        except Exception as e:
            # every network of the alphabet is non-degenerate (no overlaps, no fracture in
            # the boundary, no corner contact) and meshes on the reference tree
            out.violate("mesher raised on a valid lattice network", fracs=case["fracs"], mesh=mesh, error=repr(e)[:300])
            out.ev("VIOLATION")
            continue
        try:
            P, info = _check_mdg(case, mdg)
        except Exception as e:
            P, info = [f"inspection raised {e!r}"], {"n_sub": [], "sides": []}
        if P:
            out.violate("md-grid is not conforming", fracs=case["fracs"], mesh=mesh, problems=P[:6])
            out.ev("VIOLATION")
        else:
            nint = len(mdg.interfaces())
            out.ev(f"{cfg}/{mesh[0]}/sides{info['sides']}", (str(case["fracs"]), mesh[0], mesh[1]) if nint else None)
            if not out.samples and nint >= 3:
                out.samples.append({"fracs": case["fracs"], "mesh": mesh, "subdomains_per_dim": info["n_sub"]})
    return out


def known_finding(case, viol):
    return None
