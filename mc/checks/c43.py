"""C43 — unit conversion is consistent and simulations are unit-invariant.

Engine E over (unit scalings x unit strings x value kinds), (scalings x material constant
classes) and (scalings x flow model configurations).

Oracles: an independent unit-string parser (mc.oracles.grpD_units: exponents of base
units as Fractions, derived units expanded) for the conversion factor; algebraic
identities (round trip, homomorphism, derived = base expression); for the model part the
unscaled run of the same configuration, compared in SI.
"""

from __future__ import annotations

import itertools
import math

import numpy as np

from mc.core import Outcome
from mc.oracles import grpD_units as U

PROPERTY = "C43"
LEVEL = "exploration"
RULE = (
    "strings: one case = (unit scaling, first factor); inside it every product of <= k "
    "factors name[^power] (names: 6 base + 5 derived units, powers none,1,2,-1,-2,0.5; k = 2 "
    "quick, 3 thorough) in two spellings (with / without spaces) x value kinds (float, int, "
    "float array); one evaluation = one (scaling, string); non-trivial = oracle factor != 1, "
    "distinct by (scaling, string). materials: one case = (scaling, constants class), every "
    "declared constant. models: one case = (m, kg[, K] scaling, geometry), SI solution "
    "against the unscaled run"
)
ASSUMPTIONS = [
    "time scaling s != 1 is rejected by Units with NotImplementedError (accepted, counted)",
    "integer-dtype numpy arrays are not letters (in-place division cannot keep the dtype)",
    "'degree' is taken as documented: rad * 180 / pi",
    "relative tolerance 1e-12 for conversions (measured floor <= 5e-16 per factor), 1e-8 "
    "relative to max|field| for model solutions (sparse direct solves)",
    "model part: SinglePhaseFlow (and, thorough, mass+energy with a temperature scaling), "
    "compressible fluid, gravity on in the single-fracture geometries, non-trivial Dirichlet "
    "data on the east side, one time step solved by "
    "8 Newton iterations through the model's own assemble/solve/update hooks",
]
BOUNDS = {
    "quick": "20 scalings x all <=2-factor strings (4422) x 2 spellings; 20 scalings x 5 constant "
    "classes; 4 (m,kg) scalings x {no fracture, 2 intersecting fractures, 2 intersecting fractures "
    "with non-matching fracture/mortar grids}",
    "thorough": "61 scalings x all <=2-factor strings + 8 scalings x all 3-factor strings (287496 each); 61 x 5 "
    "constants; all 8 non-trivial (m,kg) in {1,10,1e-2}x{1,1e3,1e-3} x 6 geometries (incl. non-matching grids) + 4 mass+energy runs",
}
MIN_CLASSES = 4
CHUNK = 64
TOL = 1e-12
TOL_MODEL = 1e-8

VALS = (10, 1e-3, 1e6, 3600)
SCALABLE = ("m", "kg", "K", "mol", "rad")


def _scalings(tier):
    out = [{}]
    for b in SCALABLE:
        for v in VALS:
            out.append({b: v})
    if tier == "quick":
        # one pair per value combination, cycling over the unit pairs
        pairs = list(itertools.combinations(SCALABLE, 2))
        combos = [(10, 1e-3), (1e-3, 1e6), (3600, 10), (1e6, 3600)]
        out = out[:1] + out[1:9] + [{"K": 10}, {"mol": 1e-3}, {"rad": 3600}]
        for i, (a, b) in enumerate(pairs[:8]):
            va, vb = combos[i % 4]
            out.append({a: va, b: vb})
        return out
    for a, b in itertools.combinations(SCALABLE, 2):
        for va, vb in ((10, 1e-3), (1e-3, 1e6), (3600, 10), (1e6, 3600)):
            out.append({a: va, b: vb})
    return out


def _triple_scalings():
    out = []
    for (a, b, c), vs in zip(itertools.combinations(SCALABLE, 3), itertools.cycle([(10, 1e-3, 1e6), (3600, 10, 1e-3), (1e6, 3600, 10)])):
        out.append({a: vs[0], b: vs[1], c: vs[2]})
    out = out[::2]  # 5 of the 10 unit triples
    out.append({"m": 10, "kg": 1e-3, "K": 1e6, "mol": 3600, "rad": 10})
    out.append({"m": 1e-3})
    out.append({"kg": 3600, "K": 1e-3})
    return out


# Physical dimensions of the shipped constants, written down independently of the code
# (exponents of m, s, kg, K, mol, rad). Only used to cross-check the declared SI unit
# strings; constants not listed are only round-tripped.
_D = lambda **kw: {b: kw.get(b, 0) for b in U.BASE}
EXPECTED_DIMENSIONS = {
    "FluidComponent": {
        "density": _D(kg=1, m=-3), "molar_mass": _D(kg=1, mol=-1), "critical_pressure": _D(kg=1, m=-1, s=-2),
        "critical_temperature": _D(K=1), "critical_specific_volume": _D(m=3, kg=-1), "acentric_factor": _D(),
        "compressibility": _D(kg=-1, m=1, s=2), "specific_heat_capacity": _D(m=2, s=-2, K=-1),
        "thermal_expansion": _D(K=-1), "viscosity": _D(kg=1, m=-1, s=-1),
        "thermal_conductivity": _D(kg=1, m=1, s=-3, K=-1), "normal_thermal_conductivity": _D(kg=1, m=1, s=-3, K=-1),
    },
    "SolidConstants": {
        "density": _D(kg=1, m=-3), "biot_coefficient": _D(), "dilation_angle": _D(rad=1), "fracture_gap": _D(m=1),
        "fracture_normal_stiffness": _D(kg=1, m=-2, s=-2), "fracture_tangential_stiffness": _D(kg=1, m=-2, s=-2),
        "friction_coefficient": _D(), "lame_lambda": _D(kg=1, m=-1, s=-2), "maximum_elastic_fracture_opening": _D(m=1),
        "normal_permeability": _D(m=2), "permeability": _D(m=2), "porosity": _D(), "residual_aperture": _D(m=1),
        "shear_modulus": _D(kg=1, m=-1, s=-2), "skin_factor": _D(), "specific_heat_capacity": _D(m=2, s=-2, K=-1),
        "specific_storage": _D(kg=-1, m=1, s=2), "thermal_conductivity": _D(kg=1, m=1, s=-3, K=-1),
        "thermal_expansion": _D(K=-1), "well_radius": _D(m=1),
    },
    "NumericalConstants": {"characteristic_displacement": _D(m=1), "characteristic_contact_traction": _D(kg=1, m=-1, s=-2),
                           "open_state_tolerance": _D()},
    "ReferenceVariableValues": {"pressure": _D(kg=1, m=-1, s=-2), "temperature": _D(K=1)},
}
EXPECTED_DIMENSIONS["FractureDamageSolidConstants"] = dict(EXPECTED_DIMENSIONS["SolidConstants"])

MATERIALS = ("FluidComponent", "SolidConstants", "NumericalConstants", "ReferenceVariableValues", "FractureDamageSolidConstants")


def cases(tier):
    out = []
    letters = U.factor_letters()
    sc = _scalings(tier)
    for i, s in enumerate(sc):
        for f in letters:
            out.append({"kind": "strings", "scaling": s, "first": f, "depth": 2})
    if tier == "thorough":
        for s in _triple_scalings():
            for f in letters:
                for g in letters:
                    out.append({"kind": "strings3", "scaling": s, "first": f, "second": g, "depth": 3})
    out.append({"kind": "special", "scalings": sc})
    out.append({"kind": "time", "values": [1, 1.0, 10, 3600, 1e-3]})
    for s in sc:
        for m in MATERIALS:
            out.append({"kind": "materials", "scaling": s, "cls": m})
    mk = [(10, 1), (1, 1e3), (1e-2, 1e-3), (10, 1e-3)]
    geoms = [("cart", []), ("cart", [0, 1]), ("nonmatch", [0, 1])]
    if tier == "thorough":
        mk = [(a, b) for a in (1, 10, 1e-2) for b in (1, 1e3, 1e-3) if (a, b) != (1, 1)]
        geoms = [("cart", []), ("cart", [0]), ("cart", [0, 1]), ("square", [0, 1]), ("nonmatch", [0]), ("nonmatch", [0, 1])]
    for m, kg in mk:
        for grid, fr in geoms:
            out.append({"kind": "model", "fam": "flow", "units": {"m": m, "kg": kg}, "grid": grid, "fracs": fr})
    if tier == "thorough":
        for u in ({"m": 10, "kg": 1e-3, "K": 10}, {"K": 1e-2}, {"m": 1e-2, "K": 10}, {"kg": 1e3, "K": 1e-2}):
            out.append({"kind": "model", "fam": "mae", "units": u, "grid": "cart", "fracs": [0]})
    return out


# ------------------------------------------------------------------------- strings

_FLOAT = 3.7
_INT = 3
_ARR = np.array([-2.5, 0.125, 4.0e3])


def _close(a, b, scale=None):
    a = np.asarray(a, dtype=float)
    b = np.asarray(b, dtype=float)
    sc = np.maximum(np.abs(a), np.abs(b)) if scale is None else scale
    return bool(np.all(np.abs(a - b) <= TOL * np.maximum(sc, 1e-300)))


def _check_string(units_obj, scales, factors, out, key_prefix):
    """All identities for one unit string given as a list of factors."""
    s = "*".join(factors)
    spaced = " " + " * ".join(factors) + " "
    try:
        fac = U.factor(s, scales)
    except Exception as e:  # oracle cannot fail on its own alphabet
        raise RuntimeError(f"oracle failed on {s!r}: {e!r}")
    dimless = U.is_dimensionless(s)
    nderived = sum(1 for f in factors if f.split("^")[0] in U.DERIVED)
    nfrac = sum(1 for f in factors if f.endswith("^0.5"))
    cls = f"n{len(factors)}/der{nderived}/sqrt{min(nfrac, 1)}/{'dimless' if dimless else 'dim'}"
    bad = None
    try:
        for v in (_FLOAT, _INT, _ARR):
            v_in = v.copy() if isinstance(v, np.ndarray) else v
            c = units_obj.convert_units(v, s)
            # purity: the argument is not modified (the result is a new array)
            if isinstance(v, np.ndarray) and (not np.array_equal(v, v_in) or c is v):
                bad = ("convert_units modified or returned its array argument", v_in, v, fac)
                break
            # P0 value agrees with the independent factor
            if not _close(c, np.asarray(v_in, dtype=float) / fac):
                bad = ("conversion differs from base-unit factor", v_in, c, fac)
                break
            # P1 round trip
            c_in = c.copy() if isinstance(c, np.ndarray) else c
            back = units_obj.convert_units(c, s, to_si=True)
            if isinstance(c, np.ndarray) and (not np.array_equal(c, c_in) or back is c):
                bad = ("convert_units(to_si=True) modified or returned its array argument", c_in, c, fac)
                break
            if not _close(back, v_in):
                bad = ("round trip does not return the value", v_in, back, fac)
                break
            # spelling with spaces
            c2 = units_obj.convert_units(v, spaced)
            if not _close(c2, c):
                bad = ("spaces change the conversion", v_in, c2, c)
                break
            # P2 homomorphism: factor by factor
            w = v
            for f in factors:
                w = units_obj.convert_units(w, f)
            if not _close(w, c):
                bad = ("conversion with the composed string differs from composed conversions", v_in, w, c)
                break
            w = c
            for f in factors:
                w = units_obj.convert_units(w, f, to_si=True)
            if not _close(w, v_in):
                bad = ("to_si with single factors does not invert the composed conversion", v_in, w, c)
                break
    except Exception as e:
        bad = ("convert_units raised on a valid unit string", repr(e))
    key = (key_prefix, s) if abs(fac - 1.0) > 1e-9 else None
    if bad is not None:
        out.violate(bad[0], units=s, scaling=scales, detail=list(bad[1:]))
        out.ev("VIOLATION:strings", key)
    else:
        out.ev(cls, key)


def _units(scales):
    import porepy as pp

    return pp.Units(**scales)


def _run_strings(case, out):
    scales = case["scaling"]
    u = _units(scales)
    letters = U.factor_letters()
    kp = repr(sorted(scales.items()))
    if case["kind"] == "strings":
        f = case["first"]
        _check_string(u, scales, [f], out, kp)
        for g in letters:
            _check_string(u, scales, [f, g], out, kp)
    else:
        f, g = case["first"], case["second"]
        for h in letters:
            _check_string(u, scales, [f, g, h], out, kp)
    if not out.samples:
        out.samples.append({"scaling": scales, "string": case["first"] + "*Pa^-1", "oracle_factor": U.factor(case["first"] + "*Pa^-1", scales)})


def _run_special(case, out):
    for scales in case["scalings"]:
        u = _units(scales)
        kp = repr(sorted(scales.items()))
        for s in ("", "1", "-", " ", " 1 ", " - "):
            ok = True
            try:
                for v in (_FLOAT, _INT, _ARR):
                    c = u.convert_units(v, s)
                    b = u.convert_units(v, s, to_si=True)
                    ok = ok and _close(c, v) and _close(b, v)
            except Exception as e:
                out.violate("dimensionless unit string raised", units=s, scaling=scales, error=repr(e))
                ok = None
            if ok is False:
                out.violate("dimensionless unit string changed the value", units=s, scaling=scales)
            out.ev("dimensionless-spelling" if ok else "VIOLATION:special", (kp, "special", s) if scales else None)
        # derived units against their base expressions, as strings
        for name, expr in (("Pa", "kg*m^-1*s^-2"), ("J", "kg*m^2*s^-2"), ("N", "kg*m*s^-2"), ("W", "kg*m^2*s^-3")):
            for p in ("1", "-1", "2", "0.5"):
                a = u.convert_units(_ARR, f"{name}^{p}")
                b = _ARR.copy()
                for f in expr.split("*"):
                    nm, _, e = f.partition("^")
                    e = float(e or 1) * float(p)
                    b = u.convert_units(b, f"{nm}^{e:g}")
                if _close(a, b):
                    out.ev("derived=base-expression", (kp, name, p) if scales else None)
                else:
                    out.violate("derived unit differs from its base-unit expression", unit=f"{name}^{p}", scaling=scales, got=a, expected=b)
                    out.ev("VIOLATION:derived")
        # the properties themselves
        exp = {"Pa": U.factor("Pa", scales), "J": U.factor("J", scales), "N": U.factor("N", scales), "W": U.factor("W", scales), "degree": U.factor("degree", scales)}
        for name, val in exp.items():
            got = getattr(u, name)
            if _close(got, val):
                out.ev("derived-property", (kp, "prop", name) if scales else None)
            else:
                out.violate("derived unit property differs from base units", unit=name, scaling=scales, got=got, expected=val)
                out.ev("VIOLATION:derived-property")


def _run_time(case, out):
    import porepy as pp

    for v in case["values"]:
        try:
            u = pp.Units(s=v)
        except NotImplementedError:
            out.ev("rejected:time-scaling", ("time", v) if v != 1 else None)
            continue
        if not math.isclose(v, 1):
            # accepted a time scaling: then it must convert consistently
            ok = _close(u.convert_units(_FLOAT, "s"), _FLOAT / v) and _close(u.convert_units(_FLOAT, "Pa"), _FLOAT * v * v)
            if not ok:
                out.violate("time scaling accepted but not applied consistently", s=v)
            out.ev("accepted:time-scaling", ("time", v))
        else:
            out.ev("unit-time", None)


# ------------------------------------------------------------------------- materials


def _material_values(name):
    """Non-default SI values for every declared constant: distinct, positive, not 1."""
    import porepy as pp

    cls = getattr(pp, name, None) or getattr(pp.compositional.materials, name)
    vals = {}
    for i, k in enumerate(sorted(cls.SI_units)):
        vals[k] = 0.37 + 1.61 * i if i % 3 else 2.5e3 / (i + 1)
    if "fracture_tangential_stiffness" in vals:
        vals["fracture_tangential_stiffness"] = 7.25
    return cls, vals


def _run_materials(case, out):
    import porepy as pp

    scales = case["scaling"]
    kp = repr(sorted(scales.items()))
    u = _units(scales)
    cls, vals = _material_values(case["cls"])
    try:
        si = cls(**vals)
        conv = si.to_units(u)
        direct = cls(**vals, units=u)
        back = conv.to_units(pp.Units())
        other = conv.to_units(_units({"m": 3600, "kg": 10}))
        other_ref = si.to_units(_units({"m": 3600, "kg": 10}))
    except Exception as e:
        out.violate("converting material constants raised", cls=case["cls"], scaling=scales, error=repr(e))
        out.ev("VIOLATION:materials-raised")
        return
    for k, v in vals.items():
        unit = cls.SI_units[k]
        fac = U.factor(unit, scales)
        dimless = U.is_dimensionless(unit)
        key = (kp, case["cls"], k) if (not dimless and abs(fac - 1) > 1e-9) else None
        bad = None
        expd = EXPECTED_DIMENSIONS.get(case["cls"], {}).get(k)
        decl = {b: float(e) for b, e in U.parse(unit)[0].items()}
        if expd is not None and any(abs(decl[b] - expd[b]) > 1e-12 for b in U.BASE):
            bad = ("declared SI unit of the constant has the wrong physical dimension", decl, expd)
        elif not _close(getattr(si, k), v):
            bad = ("constant in SI changed on construction", getattr(si, k), v)
        elif not _close(getattr(conv, k), v / fac):
            bad = ("converted constant differs from SI value / unit factor", getattr(conv, k), v / fac)
        elif not _close(conv.constants_in_SI[k], v):
            bad = ("constants_in_SI of the converted instance is not the SI value", conv.constants_in_SI[k], v)
        elif not _close(u.convert_units(getattr(conv, k), unit, to_si=True), v):
            bad = ("converted constant does not convert back to its SI value", u.convert_units(getattr(conv, k), unit, to_si=True), v)
        elif not _close(getattr(back, k), v):
            bad = ("to_units(SI) of a converted instance is not the SI value", getattr(back, k), v)
        elif not _close(getattr(other, k), getattr(other_ref, k)):
            bad = ("re-converting a converted instance differs from converting the SI instance", getattr(other, k), getattr(other_ref, k))
        elif direct is not None and not _close(getattr(direct, k), v / fac):
            bad = ("constructing with units= differs from to_units", getattr(direct, k), v / fac)
        if bad is None:
            out.ev(f"materials:{case['cls']}:{'dimless' if dimless else 'dim'}", key)
        else:
            out.violate(bad[0], cls=case["cls"], constant=k, si_unit=unit, scaling=scales, got=bad[1], expected=bad[2])
            out.ev("VIOLATION:materials", key)


# ------------------------------------------------------------------------- models

_REF: dict = {}


def _solve(case, units):
    import porepy as pp

    from mc.oracles import grpD_models as G

    cfg = {"fam": case["fam"], "dim": 2, "fracs": list(case["fracs"]), "grid": case["grid"], "fluid": "comp",
           "laws": "basic", "grav": len(case["fracs"]) == 1, "dt": 0.5}

    class EastPressure:
        def bc_values_pressure(self, bg):
            vals = self.reference_variable_values.pressure * np.ones(bg.num_cells)
            vals[self.domain_boundary_sides(bg).east] += self.units.convert_units(1.0, "Pa")
            return vals

        def bc_values_temperature(self, bg):
            vals = self.reference_variable_values.temperature * np.ones(bg.num_cells)
            vals[self.domain_boundary_sides(bg).west] += self.units.convert_units(0.5, "K")
            return vals

    model = G.build(cfg, extra_mixins=(EastPressure,), tag="units" + repr(sorted(units.items())),
                    extra_params={"units": pp.Units(**units), "linear_solver": "scipy_sparse"}, cache=False)
    model.before_nonlinear_loop()
    for _ in range(8):
        model.before_nonlinear_iteration()
        model.assemble_linear_system()
        dx = model.solve_linear_system()
        model.after_nonlinear_iteration(dx)
    es = model.equation_system
    nd = model.nd
    fields = {}
    specs = [("pressure", "Pa"), ("interface_darcy_flux", f"Pa*m^{nd}")]
    if case["fam"] == "mae":
        specs += [("temperature", "K"), ("interface_fourier_flux", f"W*m^{nd - 3}"), ("interface_enthalpy_flux", f"W*m^{nd - 3}")]
    for name, unit in specs:
        vs = [v for v in es.variables if v.name == name]
        if not vs:
            continue
        if name.startswith("interface_"):
            # the numbering of mortar cells is not part of the solution (it may depend on
            # tolerances of the grid matching): compare the fluxes where they act, on the
            # faces of the primary and the cells of the secondary grid
            parts = []
            for v in vs:
                lam = np.asarray(es.get_variable_values(variables=[v], iterate_index=0), dtype=float)
                intf = v.domain
                parts.append(intf.mortar_to_primary_int() @ lam)
                parts.append(intf.mortar_to_secondary_int() @ lam)
            x = np.concatenate(parts)
        else:
            x = es.get_variable_values(variables=vs, iterate_index=0)
        fields[name] = np.asarray(x, dtype=float) * U.factor(unit, units)
    res = float(np.max(np.abs(model.equation_system.assemble(evaluate_jacobian=False)))) if es.num_dofs() else 0.0
    return fields, res


def _run_model(case, out):
    key = (case["fam"], case["grid"], tuple(case["fracs"]))
    if key not in _REF:
        _REF[key] = _solve(case, {})
    ref, _ = _REF[key]
    try:
        got, _ = _solve(case, case["units"])
    except Exception as e:
        out.violate("scaled flow model run raised", units=case["units"], error=repr(e), geometry=[case["grid"], case["fracs"]])
        out.ev("VIOLATION:model-raised")
        return
    for name, r in ref.items():
        g = got[name]
        scale = float(np.max(np.abs(r))) if r.size else 0.0
        nontrivial = r.size > 0 and float(np.max(r) - np.min(r)) > 1e-6 * max(scale, 1e-300)
        k = (repr(sorted(case["units"].items())), case["fam"], case["grid"], tuple(case["fracs"]), name) if nontrivial else None
        if r.shape == g.shape and np.all(np.abs(r - g) <= TOL_MODEL * max(scale, 1e-300)):
            out.ev(f"model:{case['fam']}:{name}:{'varying' if nontrivial else 'flat'}", k)
        else:
            err = float(np.max(np.abs(r - g))) if r.shape == g.shape else None
            out.violate("SI solution of the scaled run differs from the unscaled run", variable=name, units=case["units"],
                        geometry=[case["grid"], case["fracs"]], max_abs_diff=err, scale=scale,
                        unscaled=r[:6], scaled_in_si=g[:6])
            out.ev("VIOLATION:model", k)
    if not out.samples:
        out.samples.append({"units": case["units"], "geometry": [case["grid"], case["fracs"]], "family": case["fam"],
                            "pressure_si_first_cells": got["pressure"][:4]})


def run_case(case) -> Outcome:
    out = Outcome()
    kind = case["kind"]
    if kind in ("strings", "strings3"):
        _run_strings(case, out)
    elif kind == "special":
        _run_special(case, out)
    elif kind == "time":
        _run_time(case, out)
    elif kind == "materials":
        _run_materials(case, out)
    elif kind == "model":
        _run_model(case, out)
    else:
        raise ValueError(kind)
    return out


def known_finding(case, viol):
    # refine_grid_1d drops the fracture_faces tag: on the shipped non-matching geometry
    # with two intersecting fractures the fracture faces at the intersection become
    # external (Dirichlet) boundary faces and the interface flux enters as a pressure value
    # -> the run depends on the length unit.
    if (case and case.get("kind") == "model" and case.get("grid") == "nonmatch" and len(case.get("fracs", [])) == 2
            and case.get("units", {}).get("m", 1) != 1
            and viol.get("what") == "SI solution of the scaled run differs from the unscaled run"):
        return "C43-nonmatching-intersection-refine_grid_1d-tags"
    return None
