"""C42 — phase saturations and fraction derivatives are thermodynamically consistent.

Engine E.
  * ``compute_saturations``: every lattice point of the simplex with denominator 6 (vanishing
    and saturated corners included) for 1-5 phases x every density vector in {0.5,1,2,10}^n, as
    one vectorised call per density vector and additionally column by column (1-d input).
  * ``chainrule_fractional_derivatives``: x on the positive lattice {0.1,0.2,0.3}^n, 0-2 leading
    non-fraction derivatives, df = every unit vector (a basis; the map is linear in df) and one
    generic gradient of an analytic f, 1-d and vectorised.
  * ``normalize_rows``: every matrix of shape (1..2) x (1..3) with entries in {1,2,3}, C and
    Fortran ordered.

Oracle: the defining identities (s >= 0, sum s = 1, y_j sum_k s_k rho_k = s_j rho_j); the
exact rational Jacobian d(x_k/S)/dx_j = delta_kj/S - x_k/S^2 (fractions.Fraction) and a
complex-step derivative of the composed function; row sums.
"""

from __future__ import annotations

import itertools
from fractions import Fraction

import numpy as np

from mc.core import Outcome

PROPERTY = "C42"
LEVEL = "exploration"
RULE = (
    "one case = (function, number of phases/components, first density or first x value); inside it the "
    "complete product of the remaining letters. Non-trivial = at least two phases present with "
    "non-equal densities (saturations differ from fractions), or a derivative w.r.t. a normalised "
    "fraction; distinct by (fractions, densities) resp. (x, unit vector)"
)
ASSUMPTIONS = [
    "fractions are k/6 as float64 (sum equals 1 up to one ulp); densities positive",
    "tolerances: s >= -1e-13, |sum s - 1| <= 1e-12, |y_j sum_k s_k rho_k - s_j rho_j| <= 1e-12 * max rho "
    "(measured floor 2e-16); chain rule 1e-12 * max|exact| (floor 1e-16), complex-step comparison 1e-10",
    "inputs are float64 arrays; error paths (shape mismatches) are not part of the statement",
    "purity: the argument arrays of all three functions are unchanged after the call",
]
BOUNDS = {
    "quick": "saturations: 1-3 phases (1 + 7*16 + 28*64 points) vectorised and column-wise; chain rule: 2-3 "
             "components x 0-2 leading derivatives; normalize_rows: shapes up to 2x3",
    "thorough": "saturations: 1-5 phases (up to 210*1024 points); chain rule: 2-4 components; normalize_rows same",
}
MIN_CLASSES = 6
CHUNK = 2

RHO = (0.5, 1.0, 2.0, 10.0)
XL = (0.1, 0.2, 0.3)
DEN = 6


def simplex(n, den=DEN):
    if n == 1:
        return [[den]]
    out = []
    for c in itertools.combinations(range(den + n - 1), n - 1):
        parts, prev = [], -1
        for x in c:
            parts.append(x - prev - 1)
            prev = x
        parts.append(den + n - 2 - prev)
        out.append(parts)
    return out


def cases(tier):
    out = []
    for n in (1, 2, 3) if tier == "quick" else (1, 2, 3, 4, 5):
        for r0 in range(len(RHO)):
            out.append({"kind": "sat", "n": n, "rho0": r0, "columnwise": n <= 3})
    for n in (2, 3) if tier == "quick" else (2, 3, 4):
        for x0 in range(len(XL)):
            out.append({"kind": "chain", "n": n, "x0": x0})
    out.append({"kind": "norm"})
    return out


# ----------------------------------------------------------------------------- saturations


def _check_sat(out, y, rho, s, how, n, Yint):
    """y, rho, s: (n, N). Records one evaluation per column."""
    N = y.shape[1]
    mass = (s * rho).sum(axis=0)
    rmax = rho.max(axis=0)
    e_neg = s.min(axis=0) < -1e-13
    e_sum = np.abs(s.sum(axis=0) - 1.0) > 1e-12
    e_id = np.abs(y * mass - s * rho).max(axis=0) > 1e-12 * rmax
    e_nan = ~np.isfinite(s).all(axis=0)
    bad = e_neg | e_sum | e_id | e_nan
    present = (Yint > 0).sum(axis=0)
    uneq = np.array([len(set(rho[Yint[:, j] > 0, j])) > 1 for j in range(N)])
    for j in np.where(bad)[0][:3]:
        what = ("saturation is not finite" if e_nan[j] else "negative saturation" if e_neg[j] else
                "saturations do not sum to one" if e_sum[j] else
                "saturations do not reproduce the phase fractions")
        out.violate(what, y=y[:, j], rho=rho[:, j], s=s[:, j], call=how)
    nb = int(bad.sum())
    if nb:
        out.ev("VIOLATION", None, nb)
    for j in np.where(~bad)[0]:
        p = int(present[j])
        cls = f"sat{n}/{how}/" + ("saturated" if p == 1 else f"present{p}" + ("" if p == n else "+vanished"))
        key = (tuple(Yint[:, j]), tuple(rho[:, j])) if (p >= 2 and uneq[j]) else None
        out.ev(cls, key)


def _run_sat(case, out):
    from porepy.compositional.utils import compute_saturations

    n = case["n"]
    Yint = np.array(simplex(n), dtype=np.int64).T  # (n, N)
    Y = Yint / float(DEN)
    N = Y.shape[1]
    for rest in itertools.product(RHO, repeat=n - 1):
        rho = np.array((RHO[case["rho0"]],) + rest)
        R = np.tile(rho.reshape((-1, 1)), (1, N))
        try:
            Yin, Rin = Y.copy(), R.copy()
            S = compute_saturations(Yin, Rin)
            if not (np.array_equal(Yin, Y) and np.array_equal(Rin, R)):
                out.violate("compute_saturations modified its arguments", rho=rho)
                out.ev("VIOLATION", None, N)
            elif not isinstance(S, np.ndarray) or S.shape != Y.shape:
                out.violate("compute_saturations returned a malformed array", shape=np.shape(S), rho=rho)
                out.ev("VIOLATION", None, N)
            else:
                _check_sat(out, Y, R, S, "batch", n, Yint)
        except Exception as e:
            # locate a failing column
            culprit = None
            for j in range(N):
                try:
                    compute_saturations(Y[:, j : j + 1].copy(), R[:, j : j + 1].copy())
                except Exception:
                    culprit = Y[:, j]
                    break
            out.violate("compute_saturations raised on admissible input", error=repr(e), rho=rho, y=culprit)
            out.ev("VIOLATION", None, N)
        if case["columnwise"]:
            S1 = np.full(Y.shape, np.nan)
            for j in range(N):
                try:
                    s = compute_saturations(Y[:, j].copy(), rho.copy())
                    if np.shape(s) != (n,):
                        raise ValueError(f"result has shape {np.shape(s)}")
                    S1[:, j] = s
                except Exception as e:
                    out.violate("compute_saturations raised on admissible 1-d input", error=repr(e), rho=rho, y=Y[:, j])
            _check_sat(out, Y, R, S1, "single", n, Yint)
    if not out.samples:
        out.samples.append({"kind": "sat", "n": n, "rho": [RHO[case["rho0"]]] + [RHO[-1]] * (n - 1),
                            "y": Y[:, N // 2].tolist()})


# ----------------------------------------------------------------------------- chain rule


def _exact_jac(x):
    """Fraction matrix J[k][j] = d(x_k/S)/dx_j for x given as floats that are exact decimals k/10."""
    xf = [Fraction(int(round(v * 10)), 10) for v in x]
    S = sum(xf)
    n = len(xf)
    return [[(Fraction(1 if k == j else 0) / S - xf[k] / S ** 2) for j in range(n)] for k in range(n)]


def _f(yv, xn, a, b):
    # analytic scalar function of leading variables yv and normalised fractions xn
    return (a * xn ** 2).sum() + (1.0 + (yv ** 2).sum()) * (b * xn).sum() + np.exp(xn[0] * xn[-1]) + (yv ** 3).sum()


def _grad_f(yv, xn, a, b):
    gy = 2.0 * yv * (b * xn).sum() + 3.0 * yv ** 2
    gx = 2.0 * a * xn + (1.0 + (yv ** 2).sum()) * b
    e = np.exp(xn[0] * xn[-1])
    gx = gx.copy()
    gx[0] += e * xn[-1]
    gx[-1] += e * xn[0]
    return np.concatenate([gy, gx])


def _run_chain(case, out):
    from porepy.compositional.utils import chainrule_fractional_derivatives as chain

    n = case["n"]
    for rest in itertools.product(XL, repeat=n - 1):
        x = np.array((XL[case["x0"]],) + rest)
        J = _exact_jac(x)
        Jf = np.array([[float(v) for v in row] for row in J])
        for ny in (0, 1, 2):
            m = ny + n
            E = np.eye(m)
            exp = E.copy()
            exp[ny:, ny:] = Jf  # row k of (unit vector e_{ny+k}) maps to J[k, :]
            # every unit vector, one at a time (1-d) and all at once (vectorised: one column per unit vector)
            got1 = np.full((m, m), np.nan)
            for k in range(m):
                df = E[k].copy()
                try:
                    r = chain(df, x.copy())
                    if np.shape(r) != (m,):
                        raise ValueError(f"result has shape {np.shape(r)}")
                    got1[k] = r
                    if not np.array_equal(df, E[k]):
                        out.violate("chain rule modified its input", x=x, unit_vector=k, leading=ny)
                except Exception as e:
                    out.violate("chain rule raised", error=repr(e), x=x, unit_vector=k, leading=ny)
            try:
                Ein, Xin = E.T.copy(), np.tile(x.reshape((-1, 1)), (1, m))
                got2 = chain(Ein, Xin).T  # row k <-> unit vector k
                if got2.shape != (m, m):
                    raise ValueError(f"result has shape {got2.shape}")
                if not (np.array_equal(Ein, E.T) and np.array_equal(Xin, np.tile(x.reshape((-1, 1)), (1, m)))):
                    out.violate("vectorised chain rule modified its arguments", x=x, leading=ny)
            except Exception as e:
                out.violate("vectorised chain rule raised", error=repr(e), x=x, leading=ny)
                got2 = np.full((m, m), np.nan)
            # other memory layouts of the same vectorised call: Fortran order (contiguous columns), a single
            # column, a column view of a wider array; each evaluated twice on the SAME argument objects
            Xfull = np.tile(x.reshape((-1, 1)), (1, m))
            layouts = [("F", np.asfortranarray(E.T.copy()), np.asfortranarray(Xfull.copy()))]
            for kcol in (0, m - 1):
                layouts.append((f"col{kcol}", E.T[:, kcol : kcol + 1].copy(), x.reshape((-1, 1)).copy()))
            wide = np.asfortranarray(np.hstack([E.T, E.T]))
            layouts.append(("view", wide[:, m:], np.asfortranarray(Xfull.copy())))
            for lname, dfa, xa in layouts:
                ref = dfa.copy()
                try:
                    r1 = chain(dfa, xa)
                    r2 = chain(dfa, xa)
                    cols = [int(lname[3:])] if lname.startswith("col") else list(range(m))
                    want = exp[cols].T
                    okl = (np.array_equal(dfa, ref) and r1.shape == want.shape
                           and np.all(np.abs(r1 - want) <= 1e-12 * max(1.0, np.abs(Jf).max())) and np.array_equal(r1, r2))
                    if not okl:
                        out.violate("chain rule on a %s argument: input modified, or a repeated call differs" % lname,
                                    x=x, leading=ny, argument_before=ref, argument_after=dfa, first=r1, second=r2)
                        out.ev("VIOLATION")
                    else:
                        out.ev(f"chain{n}/layout-{lname[:3]}/lead{ny}", (tuple(x), ny, lname))
                except Exception as e:
                    out.violate("chain rule raised", error=repr(e), x=x, leading=ny, layout=lname)
                    out.ev("VIOLATION")
            tol = 1e-12 * max(1.0, np.abs(Jf).max())
            for how, got in (("single", got1), ("batch", got2)):
                for k in range(m):
                    ok = np.all(np.abs(got[k] - exp[k]) <= tol)
                    if not ok:
                        out.violate("chain rule differs from the exact Jacobian of the normalisation", x=x, leading=ny,
                                    unit_vector=k, got=got[k], expected=exp[k], call=how)
                        out.ev("VIOLATION")
                    else:
                        frac = k >= ny
                        out.ev(f"chain{n}/{how}/lead{ny}/{'fraction' if frac else 'leading'}",
                               (tuple(x), ny, k, how) if frac else None)
            # generic gradient against the complex-step derivative of the composed function
            a = np.arange(1, n + 1) * 0.5
            b = np.array([(-1.0) ** i * (i + 2) for i in range(n)])
            yv = np.array([0.3, -0.7])[:ny]
            xn = x / x.sum()
            df = _grad_f(yv, xn, a, b)
            try:
                got = chain(df.copy(), x.copy())
                h = 1e-30
                cs = np.zeros(n)
                for j in range(n):
                    xc = x.astype(complex)
                    xc[j] += 1j * h
                    cs[j] = np.imag(_f(yv.astype(complex), xc / xc.sum(), a, b)) / h
                okc = np.all(np.abs(got[ny:] - cs) <= 1e-10 * max(1.0, np.abs(cs).max())) and np.array_equal(got[:ny], df[:ny])
                if not okc:
                    out.violate("chain rule differs from the complex-step derivative of f(y, x/sum x)", x=x, leading=ny,
                                got=got, expected_fraction_part=cs)
                    out.ev("VIOLATION")
                else:
                    out.ev(f"chain{n}/generic/lead{ny}", (tuple(x), ny, "generic"))
            except Exception as e:
                out.violate("chain rule raised", error=repr(e), x=x, leading=ny, df=df)
                out.ev("VIOLATION")
    if not out.samples:
        out.samples.append({"kind": "chain", "n": n, "x": [XL[case["x0"]]] + [XL[0]] * (n - 1)})


# ----------------------------------------------------------------------------- normalize_rows


def _run_norm(case, out):
    from porepy.compositional.utils import normalize_rows

    for nr in (1, 2):
        for ncol in (1, 2, 3):
            for ent in itertools.product((1.0, 2.0, 3.0), repeat=nr * ncol):
                X = np.array(ent).reshape((nr, ncol))
                for order in ("C", "F"):
                    Xin = np.array(X, order=order)
                    try:
                        Z = normalize_rows(Xin)
                    except Exception as e:
                        out.violate("normalize_rows raised", error=repr(e), x=X, order=order)
                        out.ev("VIOLATION")
                        continue
                    exp = X / X.sum(axis=1, keepdims=True)
                    bad = None
                    if np.shape(Z) != X.shape:
                        bad = "result has the wrong shape"
                    elif np.abs(Z.sum(axis=1) - 1.0).max() > 1e-14:
                        bad = "rows do not sum to one"
                    elif np.abs(Z - exp).max() > 1e-15:
                        bad = "rows are not the input divided by its row sum"
                    elif not np.array_equal(Xin, X):
                        bad = "input modified"
                    if bad:
                        out.violate("normalize_rows: " + bad, x=X, got=Z, order=order)
                        out.ev("VIOLATION")
                    else:
                        uniform = len(set(ent)) == 1
                        out.ev(f"norm/{nr}x{ncol}/{order}", None if uniform else (ent, nr, order))
    out.samples.append({"kind": "norm", "x": [[1.0, 2.0, 3.0], [3.0, 1.0, 1.0]]})


def run_case(case) -> Outcome:
    out = Outcome()
    {"sat": _run_sat, "chain": _run_chain, "norm": _run_norm}[case["kind"]](case, out)
    return out


def known_finding(case, viol):
    return None
